(* C03 — proofs: the parser model decodes every well-formed event stream exactly as encoded (both variants of the
   primitives), by framing lemmas  read_X (.. ++ enc_X x ++ ..)  over the nesting ROB < ROS < sub-detector < event <
   stream, for unbounded sizes. *)
From Coq Require Import ZArith List Lia Bool.
From PV.Lib Require Import Bits BitTac.
From PV.Model Require Import RawFormat RawParser RawReader.
Import ListNotations.
Local Open Scope Z_scope.

(* ================================================================ lists *)
Lemma zlen_app {A} (a b : list A) : zlen (a ++ b) = zlen a + zlen b.
Proof. unfold zlen. rewrite app_length. lia. Qed.
Lemma zlen_cons {A} (x : A) l : zlen (x :: l) = 1 + zlen l.
Proof. unfold zlen. simpl length. lia. Qed.
Lemma zlen_nil {A} : zlen (@nil A) = 0.
Proof. reflexivity. Qed.
Lemma zlen_nonneg {A} (l : list A) : 0 <= zlen l.
Proof. unfold zlen. lia. Qed.
Lemma zlen_length7 {A} (l : list A) n : length l = n -> zlen l = Z.of_nat n.
Proof. unfold zlen. intros ->. reflexivity. Qed.

(* the buffer holds the words [l] at index [i] *)
Definition at_ (buf : list Z) (i : Z) (l : list Z) : Prop :=
  exists pre post, buf = pre ++ l ++ post /\ zlen pre = i.

Lemma at_bounds buf i l : at_ buf i l -> 0 <= i /\ i + zlen l <= zlen buf.
Proof.
  intros (pre & post & -> & <-). rewrite !zlen_app. pose proof (zlen_nonneg pre). pose proof (zlen_nonneg post). lia.
Qed.
Lemma at_cons buf i x l : at_ buf i (x :: l) -> rd buf i = Ok x /\ at_ buf (i + 1) l /\ 0 <= i < zlen buf.
Proof.
  intros (pre & post & -> & <-). split; [|split].
  - unfold rd. rewrite !zlen_app, zlen_cons.
    pose proof (zlen_nonneg pre). pose proof (zlen_nonneg l). pose proof (zlen_nonneg post).
    replace ((0 <=? zlen pre) && (zlen pre <? zlen pre + (1 + zlen l + zlen post))) with true
      by (symmetry; apply andb_true_iff; split; [apply Z.leb_le|apply Z.ltb_lt]; lia).
    unfold zlen. rewrite Nat2Z.id. rewrite app_nth2 by lia. rewrite Nat.sub_diag. reflexivity.
  - exists (pre ++ [x]), post. split.
    + rewrite <- app_assoc. reflexivity.
    + rewrite zlen_app. reflexivity.
  - rewrite !zlen_app, zlen_cons.
    pose proof (zlen_nonneg pre). pose proof (zlen_nonneg l). pose proof (zlen_nonneg post). lia.
Qed.
Lemma at_app buf i l1 l2 : at_ buf i (l1 ++ l2) -> at_ buf i l1 /\ at_ buf (i + zlen l1) l2.
Proof.
  intros (pre & post & -> & <-). split.
  - exists pre, (l2 ++ post). split; [rewrite <- app_assoc; reflexivity|reflexivity].
  - exists (pre ++ l1), post. split; [rewrite <- !app_assoc; reflexivity|apply zlen_app].
Qed.
Lemma at_rdn buf i l : at_ buf i l -> rdn buf i (zlen l) = Ok l.
Proof.
  intros H. pose proof (at_bounds _ _ _ H) as [H0 H1]. destruct H as (pre & post & -> & <-).
  unfold rdn. destruct (zlen l =? 0) eqn:E.
  - apply Z.eqb_eq in E. destruct l; [reflexivity|]. rewrite zlen_cons in E. pose proof (zlen_nonneg l). lia.
  - replace ((0 <=? zlen pre) && (zlen pre + zlen l <=? zlen (pre ++ l ++ post))) with true
      by (symmetry; apply andb_true_iff; split; [apply Z.leb_le|apply Z.leb_le]; lia).
    unfold zlen. rewrite !Nat2Z.id. rewrite skipn_app, skipn_all, Nat.sub_diag. simpl.
    rewrite firstn_app, firstn_all, Nat.sub_diag. simpl. rewrite app_nil_r. reflexivity.
Qed.

(* ================================================================ state algebra *)
Lemma cur_set_cur a s : cur (set_cur a s) = a.
Proof. reflexivity. Qed.
Lemma set_cur_set_cur a b s : set_cur a (set_cur b s) = set_cur a s.
Proof. reflexivity. Qed.
Lemma set_cur_same s : set_cur (cur s) s = s.
Proof. destruct s; reflexivity. Qed.

Definition add_rows (d : det) (rs : list row) (s : state) : state :=
  let c := get_col d s in set_col d {| offsets := offsets c; rows := rows c ++ rs |} s.
Lemma fill_digi_add d ws s : fill_digi d ws s = add_rows d (digi_rows d ws) s.
Proof. reflexivity. Qed.
Lemma add_rows_nil d s : add_rows d [] s = s.
Proof. unfold add_rows. destruct s, d; simpl; rewrite app_nil_r; match goal with |- context [{| offsets := offsets ?c; rows := rows ?c |}] => destruct c end; reflexivity. Qed.
Lemma add_rows_add d r1 r2 s : add_rows d r2 (add_rows d r1 s) = add_rows d (r1 ++ r2) s.
Proof. unfold add_rows. destruct s, d; simpl; rewrite app_assoc; reflexivity. Qed.
Lemma add_rows_set_cur d r a s : add_rows d r (set_cur a s) = set_cur a (add_rows d r s).
Proof. destruct d; reflexivity. Qed.
Lemma cur_add_rows d r s : cur (add_rows d r s) = cur s.
Proof. destruct d; reflexivity. Qed.
Lemma push_hdr_set_cur h a s : push_hdr h (set_cur a s) = set_cur a (push_hdr h s).
Proof. reflexivity. Qed.
Lemma push_offset_set_cur d a s : push_offset d (set_cur a s) = set_cur a (push_offset d s).
Proof. destruct d; reflexivity. Qed.
Lemma fill_offsets_set_cur sel a s : fill_offsets sel (set_cur a s) = set_cur a (fill_offsets sel s).
Proof.
  unfold fill_offsets. generalize all_dets. intros l. revert s. induction l as [|d l IH]; intros s; [reflexivity|].
  cbn [fold_left]. destruct (sel d); [rewrite push_offset_set_cur|]; apply IH.
Qed.

(* ================================================================ uint32 arithmetic on well-formed sizes *)
Lemma sub32_exact a b : 0 <= b <= a -> a < 2^32 -> sub32 a b = a - b.
Proof. intros. unfold sub32. apply Z.mod_small. lia. Qed.

(* ================================================================ stepping through the monad *)
(* all states are kept in the form [set_cur c s] with an explicit cursor c *)
Section Steps.
Variable chk : bool.
Variable buf : list Z.

Lemma bind_read_at {B} (f : Z -> M B) s c x l :
  at_ buf c (x :: l) -> bind (read chk buf) f (set_cur c s) = f x (set_cur (c + 1) s).
Proof.
  intros H. destruct (at_cons _ _ _ _ H) as (R & _ & B1). unfold bind, read. rewrite cur_set_cur.
  replace ((0 <=? c) && (c <? zlen buf)) with true
    by (symmetry; apply andb_true_iff; split; [apply Z.leb_le|apply Z.ltb_lt]; lia).
  rewrite andb_false_r. rewrite R. reflexivity.
Qed.
Lemma bind_skip_at {B} (f : unit -> M B) s c n l1 l2 :
  at_ buf c (l1 ++ l2) -> zlen l1 = n -> bind (skip chk buf n) f (set_cur c s) = f tt (set_cur (c + n) s).
Proof.
  intros H Hn. pose proof (at_bounds _ _ _ H) as [B0 B1]. rewrite zlen_app in B1. pose proof (zlen_nonneg l2).
  unfold bind, skip. rewrite cur_set_cur.
  replace ((0 <=? c) && (c + n <=? zlen buf)) with true
    by (symmetry; apply andb_true_iff; split; apply Z.leb_le; lia).
  rewrite andb_false_r. reflexivity.
Qed.
Lemma bind_read_n_at {B} (f : list Z -> M B) s c n l1 l2 :
  at_ buf c (l1 ++ l2) -> zlen l1 = n -> bind (read_n chk buf n) f (set_cur c s) = f l1 (set_cur (c + n) s).
Proof.
  intros H Hn. pose proof (at_bounds _ _ _ H) as [B0 B1]. rewrite zlen_app in B1. pose proof (zlen_nonneg l2).
  destruct (at_app _ _ _ _ H) as [H1 _]. unfold bind, read_n. rewrite cur_set_cur.
  replace ((0 <=? c) && (c + n <=? zlen buf)) with true
    by (symmetry; apply andb_true_iff; split; apply Z.leb_le; lia).
  rewrite andb_false_r. subst n. rewrite (at_rdn _ _ _ H1). reflexivity.
Qed.
Lemma bind_modify {B} (g : state -> state) (f : unit -> M B) s : bind (modify g) f s = f tt (g s).
Proof. reflexivity. Qed.
Lemma bind_ret {A B} (a : A) (f : A -> M B) s : bind (ret a) f s = f a s.
Proof. reflexivity. Qed.
Lemma bind_ok {A B} (m : M A) (f : A -> M B) s a s' : m s = Ok (a, s') -> bind m f s = f a s'.
Proof. intros H. unfold bind. rewrite H. reflexivity. Qed.

Lemma at_tail c x l : at_ buf c (x :: l) -> at_ buf (c + 1) l.
Proof. intros H. apply (at_cons _ _ _ _ H). Qed.
Lemma at_drop c n l1 l2 : at_ buf c (l1 ++ l2) -> zlen l1 = n -> at_ buf (c + n) l2.
Proof. intros H <-. apply (at_app _ _ _ _ H). Qed.
End Steps.

Lemma ok_eq {A} (a a' : A) c c' s : a = a' -> c = c' -> Ok (a, set_cur c s) = Ok (a', set_cur c' s).
Proof. intros -> ->. reflexivity. Qed.

Ltac lenside := first [reflexivity | assumption
  | match goal with Hx : length ?l = _ |- zlen ?l = _ => unfold zlen; rewrite Hx; reflexivity end | lia].
(* one read: consumes the head of the anchored list *)
Ltac rstep H :=
  match type of H with
  | at_ ?buf ?c (?x :: ?l) =>
      rewrite (bind_read_at _ buf _ _ c x l H);
      apply at_tail in H
  end.
(* skip n words given as the prefix l1 of the anchored list *)
Ltac sstep H l1 :=
  match type of H with
  | at_ ?buf ?c (l1 ++ ?l2) =>
      match goal with
      | |- context [bind (skip _ buf ?n) _ (set_cur c _)] =>
          rewrite (bind_skip_at _ buf _ _ c n l1 l2 H) by lenside;
          apply (at_drop buf c n l1 l2) in H; [|lenside]
      end
  end.
Ltac nstep H l1 :=
  match type of H with
  | at_ ?buf ?c (l1 ++ ?l2) =>
      match goal with
      | |- context [bind (read_n _ buf ?n) _ (set_cur c _)] =>
          rewrite (bind_read_n_at _ buf _ _ c n l1 l2 H) by lenside;
          apply (at_drop buf c n l1 l2) in H; [|lenside]
      end
  end.

(* ================================================================ ROB *)
Lemma enc_rob_len r : length (rd_hdr7 r) = 7%nat ->
  zlen (enc_rob r) = 7 + zlen (rb_status r) + zlen (rb_spec r) + 9 + (zlen (rd_status r) + zlen (rd_data r)) + 3.
Proof.
  intros E. unfold enc_rob. destruct (rd_pos r =? 0);
  repeat (rewrite ?zlen_app, ?zlen_cons, ?(@zlen_nil Z)); rewrite (zlen_length7 _ _ E); lia.
Qed.

Lemma date_length_ok hs body : 0 <= hs -> 0 <= body -> hs + 9 + body + 3 < 2^32 ->
  sub32 (sub32 (sub32 (hs + 9 + body + 3) hs) 9) 3 = body.
Proof. intros. unfold sub32. rewrite !Z.mod_small by (try rewrite !Z.mod_small by lia; lia). lia. Qed.

Lemma erase_front_app chk a b : erase_front chk (a ++ b) (zlen a) = ret b.
Proof.
  unfold erase_front. rewrite zlen_app. pose proof (zlen_nonneg b).
  replace (zlen a <=? zlen a + zlen b) with true by (symmetry; apply Z.leb_le; lia).
  unfold zlen. rewrite Nat2Z.id. rewrite skipn_app, skipn_all, Nat.sub_diag. reflexivity.
Qed.
Lemma erase_back_app chk a b : erase_back chk (a ++ b) (zlen a) = ret a.
Proof.
  unfold erase_back. rewrite zlen_app. pose proof (zlen_nonneg b).
  replace (zlen a <=? zlen a + zlen b) with true by (symmetry; apply Z.leb_le; lia).
  unfold zlen. rewrite Nat2Z.id. rewrite firstn_app, firstn_all, Nat.sub_diag. simpl. rewrite app_nil_r. reflexivity.
Qed.

Lemma read_ROB_ok chk buf d r s c :
  wf_rob r -> at_ buf c (enc_rob r) ->
  read_ROB chk buf d (set_cur c s) =
  Ok (zlen (enc_rob r), set_cur (c + zlen (enc_rob r)) (add_rows d (digi_rows d (rd_data r)) s)).
Proof.
  intros (Wv & Ws & Wst & Wsp & Wh & Wh7 & Wrs & Wrd & Wp & Wlen) H.
  pose proof (enc_rob_len r Wh7) as L. rewrite L in Wlen. rewrite L. clear L.
  pose proof (zlen_nonneg (rb_status r)). pose proof (zlen_nonneg (rb_spec r)).
  pose proof (zlen_nonneg (rd_status r)). pose proof (zlen_nonneg (rd_data r)).
  unfold read_ROB.
  unfold enc_rob in H. cbn [app] in H.
  rstep H. change (ROB_FLAG =? ROB_FLAG) with true. cbn [negb].
  rstep H. rstep H. rstep H. rstep H. rstep H.
  sstep H (rb_status r).
  cbn [app] in H. rstep H. sstep H (rb_spec r).
  cbn [app] in H. rstep H. change (ROD_FLAG =? ROD_FLAG) with true. cbn [negb].
  rstep H. sstep H (rd_hdr7 r).
  destruct (rd_pos r =? 0) eqn:Epos.
  - rewrite date_length_ok by (rewrite ?zlen_app; lia).
    nstep H (rd_status r ++ rd_data r). cbn [app] in H.
    rstep H. rstep H. rstep H. rewrite Epos.
    rewrite erase_front_app. rewrite bind_ret, bind_modify. unfold ret.
    rewrite fill_digi_add, add_rows_set_cur. rewrite zlen_app. apply ok_eq; lia.
  - rewrite date_length_ok by (rewrite ?zlen_app; lia).
    nstep H (rd_data r ++ rd_status r). cbn [app] in H.
    rstep H. rstep H. rstep H. rewrite Epos.
    rewrite erase_back_app. rewrite bind_ret, bind_modify. unfold ret.
    rewrite fill_digi_add, add_rows_set_cur. rewrite zlen_app. apply ok_eq; lia.
Qed.

(* ================================================================ the size loop over a list of fragments *)
Lemma bind_assoc {A B C} (m : M A) (f : A -> M B) (g : B -> M C) s :
  bind (bind m f) g s = bind m (fun a => bind (f a) g) s.
Proof. unfold bind. destruct (m s) as [[a s']| | |]; reflexivity. Qed.

Lemma count_le_words {X} (enc : X -> list Z) (P : X -> Prop) xs :
  (forall x, P x -> 0 < zlen (enc x)) -> Forall P xs -> Z.of_nat (length xs) <= zlen (flat_map enc xs).
Proof.
  intros Hpos. induction 1 as [|x xs Hx _ IH]; [reflexivity|].
  cbn [flat_map length]. rewrite zlen_app. specialize (Hpos x Hx). lia.
Qed.

Lemma fold_add_rows {X} d (f : X -> list row) xs s :
  fold_left (fun s x => add_rows d (f x) s) xs s = add_rows d (flat_map f xs) s.
Proof.
  revert s. induction xs as [|x xs IH]; intros s; cbn [fold_left flat_map].
  - rewrite add_rows_nil. reflexivity.
  - rewrite IH, add_rows_add. reflexivity.
Qed.

Section Loop.
Variable buf : list Z.
Variable X : Type.
Variable enc : X -> list Z.
Variable wfX : X -> Prop.
Variable step : X -> state -> state.
Variable body : M Z.
Hypothesis Hbody : forall x s c, wfX x -> at_ buf c (enc x) ->
  body (set_cur c s) = Ok (zlen (enc x), set_cur (c + zlen (enc x)) (step x s)).
Hypothesis Hpos : forall x, wfX x -> 0 < zlen (enc x).

Lemma size_loop_items xs : forall fuel s c,
  Forall wfX xs -> zlen (flat_map enc xs) < 2^32 -> (length xs <= fuel)%nat -> at_ buf c (flat_map enc xs) ->
  size_loop fuel body (zlen (flat_map enc xs)) (set_cur c s) =
  Ok (tt, set_cur (c + zlen (flat_map enc xs)) (fold_left (fun s x => step x s) xs s)).
Proof.
  induction xs as [|x xs IH]; intros fuel s c Hwf Hlen Hfuel Hat.
  - cbn [flat_map fold_left]. rewrite zlen_nil. destruct fuel; cbn [size_loop]; change (0 >? 0) with false; cbv iota;
      unfold ret; (apply ok_eq; [reflexivity|lia]).
  - inversion Hwf as [|? ? Hx Hxs]; subst. cbn [flat_map fold_left] in *. rewrite zlen_app in *.
    pose proof (Hpos x Hx) as Px. pose proof (zlen_nonneg (flat_map enc xs)) as Pr.
    destruct fuel as [|f]; [cbn [length] in Hfuel; lia|]. cbn [size_loop].
    replace (zlen (enc x) + zlen (flat_map enc xs) >? 0) with true by (symmetry; apply Z.gtb_lt; lia).
    destruct (at_app _ _ _ _ Hat) as [H1 H2].
    rewrite (bind_ok _ _ _ _ _ (Hbody x s c Hx H1)).
    rewrite sub32_exact by lia.
    replace (zlen (enc x) + zlen (flat_map enc xs) - zlen (enc x)) with (zlen (flat_map enc xs)) by lia.
    rewrite IH; [apply ok_eq; [reflexivity|lia]|assumption|lia|cbn [length] in Hfuel; lia|assumption].
Qed.
End Loop.

(* ================================================================ ROS *)
Lemma enc_rob_pos r : wf_rob r -> 0 < zlen (enc_rob r).
Proof.
  intros (_ & _ & _ & _ & _ & Wh7 & _). rewrite (enc_rob_len r Wh7).
  pose proof (zlen_nonneg (rb_status r)). pose proof (zlen_nonneg (rb_spec r)).
  pose proof (zlen_nonneg (rd_status r)). pose proof (zlen_nonneg (rd_data r)). lia.
Qed.

Section Levels.
Variable chk : bool.
Variable buf : list Z.
Variable sel : det -> bool.
Variable fuel : nat.
Hypothesis Hfuel : zlen buf < Z.of_nat fuel.

Lemma fuel_enough {X} (enc : X -> list Z) (P : X -> Prop) xs c :
  (forall x, P x -> 0 < zlen (enc x)) -> Forall P xs -> at_ buf c (flat_map enc xs) -> (length xs <= fuel)%nat.
Proof.
  intros Hpos Hwf Hat. pose proof (count_le_words enc P xs Hpos Hwf). pose proof (at_bounds _ _ _ Hat). lia.
Qed.

Lemma read_ROS_ok d r s c :
  wf_ros r -> at_ buf c (enc_ros r) ->
  read_ROS chk buf fuel d (set_cur c s) =
  Ok (zlen (enc_ros r), set_cur (c + zlen (enc_ros r)) (add_rows d (ros_rows d r) s)).
Proof.
  intros (Wv & Ws & Wst & Wsp & Wsp3 & Wrobs & Wlen) H.
  assert (L : zlen (enc_ros r) = 10 + zlen (rs_status r) + zlen (flat_map enc_rob (rs_robs r))).
  { unfold enc_ros. repeat (rewrite ?zlen_app, ?zlen_cons, ?(@zlen_nil Z)). rewrite (zlen_length7 _ _ Wsp3). lia. }
  rewrite L in Wlen. rewrite L. clear L.
  pose proof (zlen_nonneg (rs_status r)). pose proof (zlen_nonneg (flat_map enc_rob (rs_robs r))).
  unfold read_ROS. unfold enc_ros in H. cbn [app] in H.
  rstep H. change (ROS_FLAG =? ROS_FLAG) with true. cbn [negb].
  rstep H. rstep H. rstep H. rstep H. rstep H.
  sstep H (rs_status r). cbn [app] in H. rstep H. change (3 =? 3) with true. cbn [negb].
  sstep H (rs_spec3 r).
  rewrite sub32_exact by lia.
  replace (10 + zlen (rs_status r) + zlen (flat_map enc_rob (rs_robs r)) - (10 + zlen (rs_status r)))
    with (zlen (flat_map enc_rob (rs_robs r))) by lia.
  erewrite bind_ok; [|apply (size_loop_items buf rob enc_rob wf_rob (fun b s => add_rows d (digi_rows d (rd_data b)) s));
    [intros; apply read_ROB_ok; assumption | apply enc_rob_pos | assumption | lia
    | apply (fuel_enough enc_rob wf_rob _ _ enc_rob_pos Wrobs H) | exact H]].
  unfold ret. rewrite fold_add_rows. apply ok_eq; [reflexivity|lia].
Qed.

Lemma enc_ros_pos r : wf_ros r -> 0 < zlen (enc_ros r).
Proof.
  intros _. unfold enc_ros. repeat (rewrite ?zlen_app, ?zlen_cons, ?(@zlen_nil Z)).
  pose proof (zlen_nonneg (rs_status r)). pose proof (zlen_nonneg (rs_spec3 r)).
  pose proof (zlen_nonneg (flat_map enc_rob (rs_robs r))). lia.
Qed.

(* ================================================================ sub-detector *)
Definition sd_apply (sd : subdet) (s : state) : state :=
  match det_of_id (sd_id sd) with
  | Some d => if sel d then match sd_body sd with SDRos l => add_rows d (flat_map (ros_rows d) l) s | SDRaw _ => s end
              else s
  | None => s
  end.

Lemma read_sub_detector_ok sd s c :
  wf_subdet sd -> at_ buf c (enc_subdet sd) ->
  read_sub_detector chk buf sel fuel (set_cur c s) =
  Ok (zlen (enc_subdet sd), set_cur (c + zlen (enc_subdet sd)) (sd_apply sd s)).
Proof.
  intros (Wv & Ws & Wst & Wsp & Wbody & Wlen) H.
  assert (L : zlen (enc_subdet sd) = 7 + zlen (sd_status sd) + zlen (sd_spec sd) + zlen (enc_sdbody (sd_body sd))).
  { unfold enc_subdet. repeat (rewrite ?zlen_app, ?zlen_cons, ?(@zlen_nil Z)). lia. }
  rewrite L in Wlen. rewrite L. clear L.
  pose proof (zlen_nonneg (sd_status sd)). pose proof (zlen_nonneg (sd_spec sd)).
  pose proof (zlen_nonneg (enc_sdbody (sd_body sd))).
  unfold read_sub_detector. unfold enc_subdet in H. cbn [app] in H.
  rstep H. change (SUB_DETECTOR =? SUB_DETECTOR) with true. cbn [negb].
  rstep H. rstep H. rstep H. rstep H. rstep H.
  sstep H (sd_status sd). cbn [app] in H. rstep H. sstep H (sd_spec sd).
  fold (sd_id sd).
  rewrite sub32_exact by lia.
  replace (7 + zlen (sd_status sd) + zlen (sd_spec sd) + zlen (enc_sdbody (sd_body sd)) - (7 + zlen (sd_status sd) + zlen (sd_spec sd)))
    with (zlen (enc_sdbody (sd_body sd))) by lia.
  assert (Hskip : forall st cc, at_ buf cc (enc_sdbody (sd_body sd)) ->
            bind (skip chk buf (zlen (enc_sdbody (sd_body sd)))) (fun _ => ret (7 + zlen (sd_status sd) + zlen (sd_spec sd) + zlen (enc_sdbody (sd_body sd)))) (set_cur cc st)
            = Ok (7 + zlen (sd_status sd) + zlen (sd_spec sd) + zlen (enc_sdbody (sd_body sd)), set_cur (cc + zlen (enc_sdbody (sd_body sd))) st)).
  { intros st cc Hb. rewrite <- (app_nil_r (enc_sdbody (sd_body sd))) in Hb.
    rewrite (bind_skip_at _ _ _ _ _ _ _ _ Hb eq_refl). reflexivity. }
  unfold sd_apply.
  destruct (det_of_id (sd_id sd)) as [d|] eqn:Ed.
  - destruct (sel d).
    + destruct (sd_body sd) as [l|ws] eqn:Eb; cbn [wf_sdbody enc_sdbody] in *.
      * erewrite bind_ok; [|apply (size_loop_items buf ros enc_ros wf_ros (fun r s => add_rows d (ros_rows d r) s));
          [intros; apply read_ROS_ok; assumption | apply enc_ros_pos | assumption | lia
          | apply (fuel_enough enc_ros wf_ros _ _ enc_ros_pos Wbody H) | exact H]].
        unfold ret. rewrite fold_add_rows. apply ok_eq; [reflexivity|lia].
      * destruct Wbody as [_ Wnone]. rewrite Ed in Wnone. discriminate.
    + rewrite (Hskip _ _ H). apply ok_eq; [reflexivity|lia].
  - rewrite (Hskip _ _ H). apply ok_eq; [reflexivity|lia].
Qed.

Lemma enc_subdet_pos sd : wf_subdet sd -> 0 < zlen (enc_subdet sd).
Proof.
  intros _. unfold enc_subdet. repeat (rewrite ?zlen_app, ?zlen_cons, ?(@zlen_nil Z)).
  pose proof (zlen_nonneg (sd_status sd)). pose proof (zlen_nonneg (sd_spec sd)).
  pose proof (zlen_nonneg (enc_sdbody (sd_body sd))). lia.
Qed.

(* ================================================================ event *)
Definition ev_apply (e : event) (s : state) : state :=
  fill_offsets sel (fold_left (fun s sd => sd_apply sd s) (ev_subs e) (push_hdr (ev_hdr e) s)).

Definition enc_sep (sep : option (Z * Z * Z)) : list Z :=
  match sep with Some (a, b, c) => [DATA_SEPERATOR; a; b; c] | None => [] end.

Lemma enc_event_len e : length (ev_spare e) = 2%nat ->
  zlen (enc_event e) = 17 + zlen (ev_status e) + zlen (flat_map enc_subdet (ev_subs e)).
Proof.
  clear Hfuel. intros E. unfold enc_event. repeat (rewrite ?zlen_app, ?zlen_cons, ?(@zlen_nil Z)). rewrite (zlen_length7 _ _ E). lia.
Qed.

Lemma read_event_rest_ok e s c :
  wf_event e -> at_ buf c (enc_event e) ->
  read_event_rest chk buf sel fuel FULL_EVENT (set_cur (c + 1) s) =
  Ok (tt, set_cur (c + zlen (enc_event e)) (ev_apply e s)).
Proof.
  intros (Ws & Wst & W1 & W2 & W3 & W4 & Wsp & Wsp2 & T1 & T2 & T3 & T4 & Wsubs & Wlen) He.
  pose proof (enc_event_len e Wsp2) as L. rewrite L in Wlen. rewrite L. clear L.
  pose proof (zlen_nonneg (ev_status e)). pose proof (zlen_nonneg (flat_map enc_subdet (ev_subs e))).
  unfold read_event_rest. change (FULL_EVENT =? FULL_EVENT) with true. cbn [negb].
  unfold enc_event in He. cbn [app] in He. apply at_tail in He.
  rstep He. rstep He. rstep He. change (EVT_VERSION =? EVT_VERSION) with true. cbn [negb].
  change (ev_source e :: ?l) with ([ev_source e] ++ l) in He. sstep He [ev_source e]. rstep He.
  sstep He (ev_status e). cbn [app] in He. rstep He. change (10 =? 10) with true. cbn [negb].
  rstep He. rstep He. rstep He. rstep He. sstep He (ev_spare e). cbn [app] in He.
  rstep He. rstep He. rstep He. rstep He.
  rewrite bind_modify. rewrite push_hdr_set_cur.
  rewrite sub32_exact by lia.
  replace (17 + zlen (ev_status e) + zlen (flat_map enc_subdet (ev_subs e)) - (17 + zlen (ev_status e)))
    with (zlen (flat_map enc_subdet (ev_subs e))) by lia.
  erewrite bind_ok; [|apply (size_loop_items buf subdet enc_subdet wf_subdet sd_apply);
    [intros; apply read_sub_detector_ok; assumption | apply enc_subdet_pos | assumption | lia
    | apply (fuel_enough enc_subdet wf_subdet _ _ enc_subdet_pos Wsubs He) | exact He]].
  rewrite bind_modify. rewrite fill_offsets_set_cur. unfold ret, ev_apply, ev_hdr. apply ok_eq; [reflexivity|lia].
Qed.

Lemma read_event_ok sep e s c :
  wf_event e -> at_ buf c (enc_sep sep ++ enc_event e) ->
  read_event chk buf sel fuel (set_cur c s) =
  Ok (tt, set_cur (c + zlen (enc_sep sep ++ enc_event e)) (ev_apply e s)).
Proof.
  intros We H. rewrite zlen_app. unfold read_event.
  destruct sep as [[[a b] c0]|]; cbn [enc_sep app] in H |- *.
  - rstep H. change (DATA_SEPERATOR =? DATA_SEPERATOR) with true. cbv iota.
    rewrite bind_assoc. change (a :: b :: c0 :: ?l) with ([a; b; c0] ++ l) in H. sstep H [a; b; c0].
    assert (H' := H). unfold enc_event in H'. cbn [app] in H'.
    rewrite (bind_read_at _ buf _ _ _ _ _ H').
    rewrite (read_event_rest_ok e s _ We H). rewrite !zlen_cons, (@zlen_nil Z). apply ok_eq; [reflexivity|lia].
  - assert (H' := H). unfold enc_event in H'. cbn [app] in H'.
    rewrite (bind_read_at _ buf _ _ _ _ _ H').
    change (FULL_EVENT =? DATA_SEPERATOR) with false. cbv iota. rewrite bind_ret.
    rewrite (read_event_rest_ok e s _ We H). rewrite (@zlen_nil Z). apply ok_eq; [reflexivity|lia].
Qed.

(* ================================================================ stream = events, each optionally preceded by a separator *)
Definition item := (option (Z * Z * Z) * event)%type.
Definition enc_item (it : item) : list Z := enc_sep (fst it) ++ enc_event (snd it).
Definition wf_item (it : item) : Prop := wf_event (snd it).

Lemma enc_item_pos it : wf_item it -> 0 < zlen (enc_item it).
Proof.
  clear Hfuel. intros (_ & _ & _ & _ & _ & _ & _ & Wsp2 & _). unfold enc_item. rewrite zlen_app, (enc_event_len _ Wsp2).
  pose proof (zlen_nonneg (enc_sep (fst it))). pose proof (zlen_nonneg (ev_status (snd it))).
  pose proof (zlen_nonneg (flat_map enc_subdet (ev_subs (snd it)))). lia.
Qed.

Lemma event_loop_ok items : forall f s c,
  Forall wf_item items -> (length items <= f)%nat -> at_ buf c (flat_map enc_item items) ->
  c + zlen (flat_map enc_item items) = zlen buf ->
  event_loop chk buf sel fuel f (set_cur c s) =
  Ok (tt, set_cur (zlen buf) (fold_left (fun s it => ev_apply (snd it) s) items s)).
Proof.
  induction items as [|it items IH]; intros f s c Hwf Hf Hat Hend.
  - cbn [flat_map fold_left] in *. rewrite (@zlen_nil Z) in Hend.
    destruct f; cbn [event_loop]; rewrite cur_set_cur;
      (replace (c <? zlen buf) with false by (symmetry; apply Z.ltb_ge; lia)); (apply ok_eq; [reflexivity|lia]).
  - inversion Hwf as [|? ? Hit Hits]; subst. cbn [flat_map fold_left] in *. rewrite zlen_app in Hend.
    pose proof (enc_item_pos it Hit). pose proof (zlen_nonneg (flat_map enc_item items)).
    destruct f as [|f]; [cbn [length] in Hf; lia|]. cbn [event_loop]. rewrite cur_set_cur.
    replace (c <? zlen buf) with true by (symmetry; apply Z.ltb_lt; lia).
    destruct (at_app _ _ _ _ Hat) as [H1 H2].
    rewrite (bind_ok _ _ _ _ _ (read_event_ok (fst it) (snd it) s c Hit H1)).
    apply IH; [assumption|cbn [length] in Hf; lia|exact H2|unfold enc_item in *; lia].
Qed.
End Levels.

Definition stream_state (sel : det -> bool) (items : list item) : state :=
  fold_left (fun s it => ev_apply sel (snd it) s) items (fill_offsets sel init_state).

Lemma parse_state_stream chk sel items :
  Forall wf_item items ->
  let buf := flat_map enc_item items in
  parse_state chk buf sel (fuel_for buf) = Ok (set_cur (zlen buf) (stream_state sel items)).
Proof.
  intros Hwf buf. unfold parse_state. rewrite bind_modify.
  change (fill_offsets sel init_state) with (fill_offsets sel (set_cur 0 init_state)).
  rewrite fill_offsets_set_cur.
  assert (Hfuel : zlen buf < Z.of_nat (fuel_for buf)) by (unfold fuel_for, zlen; lia).
  assert (Hat : at_ buf 0 (flat_map enc_item items)).
  { exists [], []. split; [rewrite app_nil_r; reflexivity|reflexivity]. }
  rewrite (event_loop_ok chk buf sel (fuel_for buf) Hfuel items (fuel_for buf) _ 0 Hwf); [reflexivity| |exact Hat|reflexivity].
  pose proof (count_le_words enc_item wf_item items enc_item_pos Hwf). fold buf in H. unfold fuel_for. unfold zlen in *. lia.
Qed.

(* ================================================================ columns of the structural fold = columnar *)
Lemma det_eqb_eq a b : det_eqb a b = true <-> a = b.
Proof. destruct a, b; vm_compute; split; intros H; try reflexivity; try discriminate. Qed.
Lemma det_eqb_refl a : det_eqb a a = true.
Proof. apply det_eqb_eq. reflexivity. Qed.
Lemma det_eqb_neq a b : a <> b -> det_eqb a b = false.
Proof. intros H. destruct (det_eqb a b) eqn:E; [apply det_eqb_eq in E; contradiction|reflexivity]. Qed.
Lemma det_eq_dec (a b : det) : {a = b} + {a <> b}.
Proof. decide equality. Qed.

Lemma get_set_same d c s : get_col d (set_col d c s) = c.
Proof. destruct d; reflexivity. Qed.
Lemma get_set_other d d' c s : d <> d' -> get_col d (set_col d' c s) = get_col d s.
Proof. destruct d, d'; intros H; try reflexivity; contradiction. Qed.
Lemma hdr_set_col d c s : hdr (set_col d c s) = hdr s.
Proof. destruct d; reflexivity. Qed.

Definition pushed (c : detcol) : detcol := {| offsets := offsets c ++ [zlen (rows c)]; rows := rows c |}.
Definition extended (c : detcol) (rs : list row) : detcol := {| offsets := offsets c; rows := rows c ++ rs |}.
Lemma extended_nil c : extended c [] = c.
Proof. destruct c. unfold extended. cbn. rewrite app_nil_r. reflexivity. Qed.
Lemma extended_app c a b : extended (extended c a) b = extended c (a ++ b).
Proof. unfold extended. cbn. rewrite app_assoc. reflexivity. Qed.

Lemma get_add_rows d d' rs s : get_col d (add_rows d' rs s) = if det_eqb d' d then extended (get_col d s) rs else get_col d s.
Proof.
  unfold add_rows. destruct (det_eq_dec d' d) as [->|N].
  - rewrite det_eqb_refl, get_set_same. reflexivity.
  - rewrite det_eqb_neq by exact N. apply get_set_other. congruence.
Qed.
Lemma get_push_offset d d' s : get_col d (push_offset d' s) = if det_eqb d' d then pushed (get_col d s) else get_col d s.
Proof.
  unfold push_offset. destruct (det_eq_dec d' d) as [->|N].
  - rewrite det_eqb_refl, get_set_same. reflexivity.
  - rewrite det_eqb_neq by exact N. apply get_set_other. congruence.
Qed.
Lemma hdr_add_rows d rs s : hdr (add_rows d rs s) = hdr s.
Proof. apply hdr_set_col. Qed.
Lemma hdr_push_offset d s : hdr (push_offset d s) = hdr s.
Proof. apply hdr_set_col. Qed.

Lemma get_fold_offsets (sel : det -> bool) d l : NoDup l -> forall s,
  get_col d (fold_left (fun (s : state) (d' : det) => if sel d' then push_offset d' s else s) l s) =
  if sel d && existsb (det_eqb d) l then pushed (get_col d s) else get_col d s.
Proof.
  induction 1 as [|d' l Hnin Hnd IH]; intros s; cbn [fold_left existsb].
  - rewrite andb_false_r. reflexivity.
  - rewrite IH. destruct (det_eq_dec d d') as [->|N].
    + rewrite det_eqb_refl. cbn [orb]. rewrite andb_true_r.
      assert (E : existsb (det_eqb d') l = false).
      { destruct (existsb (det_eqb d') l) eqn:E; [|reflexivity]. apply existsb_exists in E. destruct E as (x & Hx & Ex).
        apply det_eqb_eq in Ex. subst x. contradiction. }
      rewrite E, andb_false_r. destruct (sel d'); [rewrite get_push_offset, det_eqb_refl|]; reflexivity.
    + rewrite (det_eqb_neq d d' N). cbn [orb].
      assert (G : get_col d (if sel d' then push_offset d' s else s) = get_col d s).
      { destruct (sel d'); [rewrite get_push_offset, det_eqb_neq by congruence|]; reflexivity. }
      rewrite G. reflexivity.
Qed.
Lemma all_dets_nodup : NoDup all_dets.
Proof. unfold all_dets. repeat constructor; cbn; intuition discriminate. Qed.
Lemma all_dets_all d : existsb (det_eqb d) all_dets = true.
Proof. destruct d; reflexivity. Qed.
Lemma get_fill_offsets sel d s : get_col d (fill_offsets sel s) = if sel d then pushed (get_col d s) else get_col d s.
Proof. unfold fill_offsets. rewrite (get_fold_offsets sel d all_dets all_dets_nodup), all_dets_all, andb_true_r. reflexivity. Qed.
Lemma hdr_fill_offsets sel s : hdr (fill_offsets sel s) = hdr s.
Proof.
  unfold fill_offsets. generalize all_dets. intros l. revert s. induction l as [|d l IH]; intros s; [reflexivity|].
  cbn [fold_left]. rewrite IH. destruct (sel d); [apply hdr_push_offset|reflexivity].
Qed.

Section Columns.
Variable sel : det -> bool.

Lemma get_sd_apply d sd s : sel d = true -> get_col d (sd_apply sel sd s) = extended (get_col d s) (sd_rows d sd).
Proof.
  intros Hd. unfold sd_apply, sd_rows. destruct (det_of_id (sd_id sd)) as [d'|]; [|rewrite extended_nil; reflexivity].
  destruct (det_eq_dec d' d) as [->|N].
  - rewrite Hd, det_eqb_refl. destruct (sd_body sd); [rewrite get_add_rows, det_eqb_refl|rewrite extended_nil]; reflexivity.
  - rewrite (det_eqb_neq _ _ N), extended_nil. destruct (sel d'); [|reflexivity].
    destruct (sd_body sd); [rewrite get_add_rows, (det_eqb_neq _ _ N)|]; reflexivity.
Qed.
Lemma hdr_sd_apply sd s : hdr (sd_apply sel sd s) = hdr s.
Proof.
  unfold sd_apply. destruct (det_of_id (sd_id sd)) as [d'|]; [|reflexivity]. destruct (sel d'); [|reflexivity].
  destruct (sd_body sd); [apply hdr_add_rows|reflexivity].
Qed.
Lemma get_fold_sd d subs : sel d = true -> forall s,
  get_col d (fold_left (fun s sd => sd_apply sel sd s) subs s) = extended (get_col d s) (flat_map (sd_rows d) subs).
Proof.
  intros Hd. induction subs as [|sd subs IH]; intros s; cbn [fold_left flat_map].
  - rewrite extended_nil. reflexivity.
  - rewrite IH, get_sd_apply, extended_app by exact Hd. reflexivity.
Qed.
Lemma hdr_fold_sd subs : forall s, hdr (fold_left (fun s sd => sd_apply sel sd s) subs s) = hdr s.
Proof. induction subs as [|sd subs IH]; intros s; cbn [fold_left]; [reflexivity|]. rewrite IH. apply hdr_sd_apply. Qed.

Lemma get_push_hdr d h s : get_col d (push_hdr h s) = get_col d s.
Proof. destruct d; reflexivity. Qed.

Lemma get_ev_apply d e s : sel d = true ->
  get_col d (ev_apply sel e s) = pushed (extended (get_col d s) (ev_rows d e)).
Proof.
  intros Hd. unfold ev_apply. rewrite get_fill_offsets, Hd, get_fold_sd, get_push_hdr by exact Hd. reflexivity.
Qed.
Lemma hdr_ev_apply e s : hdr (ev_apply sel e s) = hdr s ++ [ev_hdr e].
Proof. unfold ev_apply. rewrite hdr_fill_offsets, hdr_fold_sd. reflexivity. Qed.

Lemma get_fold_ev d (items : list item) : sel d = true -> forall s,
  get_col d (fold_left (fun s it => ev_apply sel (snd it) s) items s) =
  {| offsets := offsets (get_col d s) ++ offsets_from (zlen (rows (get_col d s))) (map (fun e => zlen (ev_rows d e)) (map snd items));
     rows := rows (get_col d s) ++ flat_map (ev_rows d) (map snd items) |}.
Proof.
  intros Hd. induction items as [|it items IH]; intros s; cbn [fold_left map flat_map offsets_from].
  - rewrite !app_nil_r. destruct (get_col d s); reflexivity.
  - rewrite IH, get_ev_apply by exact Hd. unfold pushed, extended. cbn [offsets rows].
    rewrite zlen_app, <- !app_assoc. reflexivity.
Qed.
Lemma hdr_fold_ev (items : list item) : forall s,
  hdr (fold_left (fun s it => ev_apply sel (snd it) s) items s) = hdr s ++ map ev_hdr (map snd items).
Proof.
  induction items as [|it items IH]; intros s; cbn [fold_left map]; [rewrite app_nil_r; reflexivity|].
  rewrite IH, hdr_ev_apply, <- app_assoc. reflexivity.
Qed.

Lemma result_of_stream c items : result_of sel (set_cur c (stream_state sel items)) = columnar sel (map snd items).
Proof.
  unfold result_of, columnar, stream_state. f_equal.
  - change (hdr (set_cur c ?s)) with (hdr s). rewrite hdr_fold_ev, hdr_fill_offsets. reflexivity.
  - apply map_ext_in. intros d Hd. apply filter_In in Hd. destruct Hd as [_ Hd]. f_equal.
    replace (get_col d (set_cur c (fold_left (fun s it => ev_apply sel (snd it) s) items (fill_offsets sel init_state))))
      with (get_col d (fold_left (fun s it => ev_apply sel (snd it) s) items (fill_offsets sel init_state)))
      by (destruct d; reflexivity).
    rewrite get_fold_ev, get_fill_offsets, Hd by exact Hd.
    replace (get_col d init_state) with empty_col by (destruct d; reflexivity). reflexivity.
Qed.
End Columns.

(* ================================================================ the parser-level round trip *)
Theorem parse_roundtrip chk sel items :
  Forall wf_item items ->
  parse_gen chk (fuel_for (flat_map enc_item items)) sel (flat_map enc_item items) = Ok (columnar (sel_of sel) (map snd items)).
Proof.
  intros Hwf. unfold parse_gen. rewrite (parse_state_stream chk (sel_of sel) items Hwf). cbv zeta.
  rewrite result_of_stream. reflexivity.
Qed.
