(* C10 — Electronics IDs in raw data map one-to-one onto valid detector identifiers.
   Statements only (proofs in C10Proofs.v).  reid_mdc/tof/emc/muc are the COMPLETE tables regenerated on this run from
   _reid.build_*_re2te() of the working tree (16384/16384/8192/2048 entries); raw_id_* are the id-field extractions
   regenerated from raw_io.cc fill_digi; check_*_id / get_*_digi_id / *_id_to_* are the regenerated digi-ID kernels;
   mdc_layer_to_is_stereo, get_emc_gid and the documented wire/crystal orders come from the regenerated geometry (C08);
   ref_* are the pinned reference tables of corpus/reid_ref_*.json; convert_reid_to_teid is the hand model of
   PV.Model.ReidGlue (tied to the real function by the correspondence check).
   Every table statement is a complete finite check over all entries, computed inside Coq. *)
From Coq Require Import String ZArith List Bool.
Import ListNotations.
From PV.Lib Require Import Bits Tables.
From PV.Model Require Import ReidGlue.
From PV.Gen Require Import DigiId TabMdcInt TabEmcInt GidMdc GidEmc Reid ReidRef.
From PV.Props Require Import C05Proofs C08Proofs C10Proofs.
Local Open Scope Z_scope.

(* ---- the tables: sizes, value range, number of mapped entries ---- *)
Theorem C10_table_sizes :
  Z.of_nat (length reid_mdc) = 16384 /\ Z.of_nat (length reid_tof) = 16384 /\
  Z.of_nat (length reid_emc) = 8192 /\ Z.of_nat (length reid_muc) = 2048.
Proof. exact reid_lengths. Qed.
Print Assumptions C10_table_sizes.

(* `mapped t` = the entries of t other than the invalid marker *)
Theorem C10_mapped_def : forall t : list Z, mapped t = filter (fun v => negb (v =? 0xFFFFFFFF)) t.
Proof. exact mapped_def. Qed.
Print Assumptions C10_mapped_def.

Theorem C10_mapped_counts :
  Z.of_nat (length (mapped reid_mdc)) = 10927 /\
  Z.of_nat (length (mapped reid_tof)) = 450 /\
  Z.of_nat (length (mapped reid_emc)) = 6240 /\
  Z.of_nat (length (mapped reid_muc)) = 572.
Proof. exact reid_mapped_counts. Qed.
Print Assumptions C10_mapped_counts.

(* ---- (a) every id that fill_digi can extract from ANY word (in particular every 32-bit word) indexes inside the table
        that convert_reid_to_teid uses for that detector; field widths 14 / 10 / 13 / 11 bits ---- *)
Theorem C10_reid_index_in_range : forall w : Z,
  0 <= raw_id_mdc w < Z.of_nat (length reid_mdc) /\ 0 <= raw_id_tof w < Z.of_nat (length reid_tof) /\
  0 <= raw_id_emc w < Z.of_nat (length reid_emc) /\ 0 <= raw_id_muc w < Z.of_nat (length reid_muc).
Proof. exact reid_index_in_range. Qed.
Print Assumptions C10_reid_index_in_range.

Theorem C10_raw_id_widths : forall w : Z,
  0 <= raw_id_mdc w < 2^14 /\ 0 <= raw_id_tof w < 2^10 /\ 0 <= raw_id_emc w < 2^13 /\ 0 <= raw_id_muc w < 2^11.
Proof. exact raw_id_widths. Qed.
Print Assumptions C10_raw_id_widths.

(* every representable id (2^14 MDC, 2^10 TOF, 2^13 EMC, 2^11 MUC) is an index of its table; the TOF table is longer
   than its id space and everything beyond the 10-bit space is unmapped *)
Theorem C10_id_space_inside_tables :
  2^14 <= Z.of_nat (length reid_mdc) /\ 2^10 <= Z.of_nat (length reid_tof) /\
  2^13 <= Z.of_nat (length reid_emc) /\ 2^11 <= Z.of_nat (length reid_muc).
Proof. exact reid_id_space_covered. Qed.
Print Assumptions C10_id_space_inside_tables.

Theorem C10_tof_unreachable_entries_unmapped : forall i, 1024 <= i < 16384 -> tlookup reid_tof i = 0xFFFFFFFF.
Proof. exact reid_tof_beyond_id_space_unmapped. Qed.
Print Assumptions C10_tof_unreachable_entries_unmapped.

(* ---- (b) distinct electronics ids never map to the same detector identifier ---- *)
Theorem C10_reid_injective_mdc : forall i j, 0 <= i < Z.of_nat (length reid_mdc) -> 0 <= j < Z.of_nat (length reid_mdc) ->
  tlookup reid_mdc i <> 0xFFFFFFFF -> tlookup reid_mdc i = tlookup reid_mdc j -> i = j.
Proof. exact reid_injective_mdc. Qed.
Print Assumptions C10_reid_injective_mdc.

Theorem C10_reid_injective_tof : forall i j, 0 <= i < Z.of_nat (length reid_tof) -> 0 <= j < Z.of_nat (length reid_tof) ->
  tlookup reid_tof i <> 0xFFFFFFFF -> tlookup reid_tof i = tlookup reid_tof j -> i = j.
Proof. exact reid_injective_tof. Qed.
Print Assumptions C10_reid_injective_tof.

Theorem C10_reid_injective_emc : forall i j, 0 <= i < Z.of_nat (length reid_emc) -> 0 <= j < Z.of_nat (length reid_emc) ->
  tlookup reid_emc i <> 0xFFFFFFFF -> tlookup reid_emc i = tlookup reid_emc j -> i = j.
Proof. exact reid_injective_emc. Qed.
Print Assumptions C10_reid_injective_emc.

Theorem C10_reid_injective_muc : forall i j, 0 <= i < Z.of_nat (length reid_muc) -> 0 <= j < Z.of_nat (length reid_muc) ->
  tlookup reid_muc i <> 0xFFFFFFFF -> tlookup reid_muc i = tlookup reid_muc j -> i = j.
Proof. exact reid_injective_muc. Qed.
Print Assumptions C10_reid_injective_muc.

Theorem C10_mapped_entries_duplicate_free :
  NoDup (mapped reid_mdc) /\ NoDup (mapped reid_tof) /\
  NoDup (mapped reid_emc) /\ NoDup (mapped reid_muc).
Proof. exact (conj mapped_nodup_mdc (conj mapped_nodup_tof (conj mapped_nodup_emc mapped_nodup_muc))). Qed.
Print Assumptions C10_mapped_entries_duplicate_free.

(* ---- (c) every mapped entry passes its own detector's check_*_id and no other's (only_tag t w :=
        check_mdc w = (t =? 16) /\ check_tof w = (t =? 32) /\ check_emc w = (t =? 48) /\ check_muc w = (t =? 64) /\ check_cgem w = (t =? 96)) *)
Theorem C10_reid_tag_mdc : forall i, 0 <= i < Z.of_nat (length reid_mdc) -> tlookup reid_mdc i <> 0xFFFFFFFF ->
  only_tag 16 (tlookup reid_mdc i).
Proof. exact reid_tag_mdc. Qed.
Print Assumptions C10_reid_tag_mdc.

Theorem C10_reid_tag_tof : forall i, 0 <= i < Z.of_nat (length reid_tof) -> tlookup reid_tof i <> 0xFFFFFFFF ->
  only_tag 32 (tlookup reid_tof i).
Proof. exact reid_tag_tof. Qed.
Print Assumptions C10_reid_tag_tof.

Theorem C10_reid_tag_emc : forall i, 0 <= i < Z.of_nat (length reid_emc) -> tlookup reid_emc i <> 0xFFFFFFFF ->
  only_tag 48 (tlookup reid_emc i).
Proof. exact reid_tag_emc. Qed.
Print Assumptions C10_reid_tag_emc.

Theorem C10_reid_tag_muc : forall i, 0 <= i < Z.of_nat (length reid_muc) -> tlookup reid_muc i <> 0xFFFFFFFF ->
  only_tag 64 (tlookup reid_muc i).
Proof. exact reid_tag_muc. Qed.
Print Assumptions C10_reid_tag_muc.

Theorem C10_invalid_marker_is_no_identifier :
  check_mdc_id 0xFFFFFFFF = false /\ check_tof_id 0xFFFFFFFF = false /\ check_emc_id 0xFFFFFFFF = false /\
  check_muc_id 0xFFFFFFFF = false /\ check_cgem_id 0xFFFFFFFF = false.
Proof. exact invalid_marker_untagged. Qed.
Print Assumptions C10_invalid_marker_is_no_identifier.

(* ---- (d) consistent fields ---- *)
(* MDC: the layer exists, the wire-type bit equals the layer's stereo class in the geometry tables, and the identifier is
   exactly the composition of its fields (no stray bits) *)
Theorem C10_mdc_fields_consistent : forall i, 0 <= i < 16384 -> tlookup reid_mdc i <> 0xFFFFFFFF ->
  let v := tlookup reid_mdc i in
  0 <= mdc_id_to_layer v < 43 /\
  mdc_id_to_is_stereo v = (mdc_layer_to_is_stereo (mdc_id_to_layer v) =? 1) /\
  get_mdc_digi_id (mdc_id_to_wire v) (mdc_id_to_layer v) (b2z (mdc_id_to_is_stereo v)) = v.
Proof. exact mdc_fields_consistent. Qed.
Print Assumptions C10_mdc_fields_consistent.

(* every one of the 6796 real wires (documented order of C08) is the image of EXACTLY one electronics id *)
Theorem C10_mdc_cover : forall l w, mdc_real l w ->
  exists i, (0 <= i < Z.of_nat (length reid_mdc) /\ tlookup reid_mdc i = get_mdc_digi_id w l (mdc_layer_to_is_stereo l)) /\
    forall j, 0 <= j < Z.of_nat (length reid_mdc) /\ tlookup reid_mdc j = get_mdc_digi_id w l (mdc_layer_to_is_stereo l) -> j = i.
Proof. exact mdc_cover. Qed.
Print Assumptions C10_mdc_cover.

(* conversely a mapped entry whose wire number is below its layer's wire count is a real wire's identifier; the remaining
   4131 mapped entries name (layer, wire) pairs beyond the chamber (the electronics map is a superset) *)
Theorem C10_mdc_is_real_def : forall v : Z,
  mdc_is_real_b v = (mdc_id_to_wire v <? tlookup mdc_wires_per_layer (mdc_id_to_layer v)).
Proof. exact mdc_is_real_def. Qed.
Print Assumptions C10_mdc_is_real_def.

Theorem C10_mdc_real_entries : forall i, 0 <= i < 16384 -> tlookup reid_mdc i <> 0xFFFFFFFF ->
  mdc_is_real_b (tlookup reid_mdc i) = true ->
  exists l w, mdc_real l w /\ tlookup reid_mdc i = get_mdc_digi_id w l (mdc_layer_to_is_stereo l).
Proof. exact mdc_real_entries. Qed.
Print Assumptions C10_mdc_real_entries.

Theorem C10_mdc_mapped_split :
  Z.of_nat (length (filter mdc_is_real_b (mapped reid_mdc))) = 6796 /\
  Z.of_nat (length (filter (fun v => negb (mdc_is_real_b v)) (mapped reid_mdc))) = 4131.
Proof. exact mdc_mapped_split. Qed.
Print Assumptions C10_mdc_mapped_split.

(* EMC: every one of the 6240 crystals is the image of EXACTLY one electronics id, and every mapped entry is a crystal *)
Theorem C10_emc_cover : forall p t f, emc_real p t f ->
  exists i, (0 <= i < Z.of_nat (length reid_emc) /\ tlookup reid_emc i = get_emc_digi_id p t f) /\
    forall j, 0 <= j < Z.of_nat (length reid_emc) /\ tlookup reid_emc j = get_emc_digi_id p t f -> j = i.
Proof. exact emc_cover. Qed.
Print Assumptions C10_emc_cover.

Theorem C10_emc_fields_consistent : forall i, 0 <= i < 8192 -> tlookup reid_emc i <> 0xFFFFFFFF ->
  let v := tlookup reid_emc i in
  emc_real (emc_id_to_module v) (emc_id_to_theta v) (emc_id_to_phi v) /\
  get_emc_digi_id (emc_id_to_module v) (emc_id_to_theta v) (emc_id_to_phi v) = v.
Proof. exact emc_fields_consistent. Qed.
Print Assumptions C10_emc_fields_consistent.

(* TOF (scintillators): barrel = part 1, layers 0-1, phi 0-87, both ends; endcaps = part 0/2, layer 0, phi 0-48, end 0 *)
Theorem C10_tof_fields_consistent : forall i, 0 <= i < 16384 -> tlookup reid_tof i <> 0xFFFFFFFF ->
  let v := tlookup reid_tof i in
  let p := tof_id_to_part v in let l := _tof_id_to_layer_or_module_1 v in let f := _tof_id_to_phi_or_strip_1 v in
  let e := tof_id_to_end v in
  0 <= p < 3 /\ (p = 1 -> l < 2 /\ f < 88 /\ e < 2) /\ (p <> 1 -> l = 0 /\ f < 49 /\ e = 0) /\
  get_tof_digi_id p l f e = v.
Proof. exact tof_fields_consistent. Qed.
Print Assumptions C10_tof_fields_consistent.

(* MUC (one entry per FEC card, the identifier of its first strip): barrel = part 1, 8 segments, 9 layers, first strip
   0,16,..,96; endcaps = part 0/2, 4 segments, 8 layers, first strip 0,16,32,48 *)
Theorem C10_muc_fields_consistent : forall i, 0 <= i < 2048 -> tlookup reid_muc i <> 0xFFFFFFFF ->
  let v := tlookup reid_muc i in
  let p := muc_id_to_part v in let s := muc_id_to_segment v in let l := muc_id_to_layer v in let c := muc_id_to_channel v in
  0 <= p < 3 /\ c mod 16 = 0 /\ (p = 1 -> s < 8 /\ l < 9 /\ c < 112) /\ (p <> 1 -> s < 4 /\ l < 8 /\ c < 64) /\
  get_muc_digi_id p s l c = v.
Proof. exact muc_fields_consistent. Qed.
Print Assumptions C10_muc_fields_consistent.

(* ---- (e) the tables equal the pinned reference (regression anchor; BOSS sources are not available offline) ---- *)
Theorem C10_reid_eq_reference : reid_mdc = ref_mdc /\ reid_tof = ref_tof /\ reid_emc = ref_emc /\ reid_muc = ref_muc.
Proof. exact (conj reid_eq_reference_mdc (conj reid_eq_reference_tof (conj reid_eq_reference_emc reid_eq_reference_muc))). Qed.
Print Assumptions C10_reid_eq_reference.

(* ---- (f) the conversion: for EVERY raw dict of the shape read_bes_raw returns (unique keys; mdc/tof/emc/muc, when
        present, are (offsets, columns) with an "id" column whose values index inside the table) the decode_reid=True
        result is the decode_reid=False dict with ONLY the id column of mdc/tof/emc/muc replaced by its table image ---- *)
Theorem C10_convert_only_ids : forall d : rawdict, wf REID d -> convert_reid_to_teid REID d = Some (image REID d).
Proof. exact convert_only_ids. Qed.
Print Assumptions C10_convert_only_ids.

(* what `image` is, spelled out: same keys in the same order; other sub-detectors (evt_header, trg, ef, ...) identical;
   for the four digi sub-detectors same offsets, same column names/order, every column but "id" identical,
   "id" = map (table lookup) *)
Theorem C10_convert_touches_nothing_else : forall (d : rawdict) (k : string),
  keys (image REID d) = keys d /\
  (table_for REID k = None -> lookup k (image REID d) = lookup k d) /\
  (forall t offs cols, table_for REID k = Some t -> lookup k d = Some (Digi offs cols) ->
     lookup k (image REID d) = Some (Digi offs (image_cols t cols)) /\
     keys (image_cols t cols) = keys cols /\
     (forall c, c <> "id"%string -> lookup c (image_cols t cols) = lookup c cols) /\
     lookup "id"%string (image_cols t cols) = option_map (map (tlookup t)) (lookup "id"%string cols)).
Proof. exact convert_touches_nothing_else. Qed.
Print Assumptions C10_convert_touches_nothing_else.

Theorem C10_tables_by_subdetector :
  table_for REID "mdc" = Some reid_mdc /\ table_for REID "tof" = Some reid_tof /\ table_for REID "emc" = Some reid_emc /\
  table_for REID "muc" = Some reid_muc /\ table_for REID "trg" = None /\ table_for REID "ef" = None /\
  table_for REID "evt_header" = None.
Proof. exact tables_by_subdetector. Qed.
Print Assumptions C10_tables_by_subdetector.

(* id columns produced by fill_digi from any words satisfy the index premise: the lookup never leaves the table *)
Theorem C10_parser_ids_index_ok : forall ws : list Z,
  take reid_mdc (map raw_id_mdc ws) = Some (map (tlookup reid_mdc) (map raw_id_mdc ws)) /\
  take reid_tof (map raw_id_tof ws) = Some (map (tlookup reid_tof) (map raw_id_tof ws)) /\
  take reid_emc (map raw_id_emc ws) = Some (map (tlookup reid_emc) (map raw_id_emc ws)) /\
  take reid_muc (map raw_id_muc ws) = Some (map (tlookup reid_muc) (map raw_id_muc ws)).
Proof. exact parser_ids_index_ok. Qed.
Print Assumptions C10_parser_ids_index_ok.

(* RawBinaryReader.arrays: batch by batch, decode_reid=True = image of decode_reid=False *)
Theorem C10_arrays_decode_is_image_of_no_decode : forall batches : list rawdict, Forall (wf REID) batches ->
  arrays_dicts REID false batches = Some batches /\ arrays_dicts REID true batches = Some (map (image REID) batches).
Proof. exact arrays_decode_is_image. Qed.
Print Assumptions C10_arrays_decode_is_image_of_no_decode.

(* ---- non-vacuity ---- *)
Example C10_nonvacuous_tables :
  raw_id_mdc 0xFFFFFFFF = 16383 /\ raw_id_tof 0xFFFFFFFF = 1023 /\ raw_id_emc 0xFFFFFFFF = 8191 /\ raw_id_muc 0xFFFFFFFF = 2047 /\
  tlookup reid_mdc 257 = get_mdc_digi_id 0 0 1 /\ mdc_real 0 0 /\ mdc_layer_to_is_stereo 0 = 1 /\
  tlookup reid_mdc 0 = 0xFFFFFFFF /\
  tlookup reid_emc 129 = get_emc_digi_id 1 21 0 /\ emc_real 1 21 0 /\
  tlookup reid_tof 129 = get_tof_digi_id 1 0 0 0 /\ tlookup reid_muc 0 = get_muc_digi_id 0 0 3 48.
Proof. repeat split; try (vm_compute; reflexivity); try (vm_compute; congruence).
  - apply mdc_real_iff. vm_compute. repeat split; congruence.
  - apply emc_realb_sound. vm_compute. reflexivity.
Qed.

Example C10_nonvacuous_convert : wf REID demo_dict /\
  convert_reid_to_teid REID demo_dict = Some (image REID demo_dict) /\
  lookup "id"%string (match lookup "mdc"%string (image REID demo_dict) with Some (Digi _ c) => c | _ => [] end)
    = Some [get_mdc_digi_id 0 0 1; 0xFFFFFFFF; 0xFFFFFFFF] /\
  lookup "trg"%string (image REID demo_dict) = Some (Words [0; 2] [257; 129]).
Proof. split; [exact demo_dict_wf|]. split; [exact (convert_only_ids _ demo_dict_wf)|]. split; vm_compute; reflexivity. Qed.
