(* C10 — electronics ids (REID) -> detector identifiers (TEID): proofs over the REGENERATED tables (PV.Gen.Reid, emitted
   completely from _reid.build_*_re2te() of the working tree), the regenerated id-field extractions of raw_io.cc
   fill_digi, the regenerated digi-ID kernels (PV.Gen.DigiId), the regenerated geometry (PV.Gen.GidMdc/GidEmc) and the
   hand model of convert_reid_to_teid (PV.Model.ReidGlue).  Every table statement is a complete finite computation
   (forallb / sort by vm_compute) lifted to a quantified statement by a soundness lemma. *)
From Coq Require Import String ZArith List Lia Bool ZifyBool.
From Coq Require Import Sorting.Mergesort Sorting.Permutation Orders.
Import ListNotations.
From PV.Lib Require Import Bits BitTac Tables.
From PV.Model Require Import ReidGlue.
From PV.Gen Require Import DigiId TabMdcInt TabEmcInt GidMdc GidEmc Reid ReidRef.
From PV.Props Require Import C05Proofs C08Proofs.
Local Open Scope Z_scope.
Ltac Zify.zify_post_hook ::= Z.to_euclidean_division_equations.

(* ============================================================================================================ *)
(* generic lifting lemmas                                                                                        *)
Lemma tlookup_in (t : list Z) i : 0 <= i < Z.of_nat (length t) -> In (tlookup t i) t.
Proof. intro H. unfold tlookup. apply nth_In. lia. Qed.

Lemma forallb_tlookup (P : Z -> bool) t : forallb P t = true ->
  forall i, 0 <= i < Z.of_nat (length t) -> P (tlookup t i) = true.
Proof. intros H i Hi. rewrite forallb_forall in H. apply H. apply tlookup_in. exact Hi. Qed.

Lemma in_tlookup (t : list Z) v : In v t -> exists i, 0 <= i < Z.of_nat (length t) /\ tlookup t i = v.
Proof. intro H. destruct (In_nth t v 0 H) as (n & Hn & E). exists (Z.of_nat n). split; [lia|].
  unfold tlookup. rewrite Nat2Z.id. exact E. Qed.

(* ---- duplicate-freeness through sorting ---- *)
Module ZOrder <: TotalLeBool.
  Definition t := Z.
  Definition leb := Z.leb.
  Lemma leb_total : forall a1 a2, is_true (leb a1 a2) \/ is_true (leb a2 a1).
  Proof. intros a1 a2. unfold is_true, leb. lia. Qed.
End ZOrder.
Module ZSort := Sort ZOrder.

Fixpoint strict_incr (l : list Z) : bool :=
  match l with
  | a :: r => match r with b :: _ => (a <? b) && strict_incr r | [] => true end
  | [] => true
  end.

Lemma strict_incr_lb a r : strict_incr (a :: r) = true -> Forall (fun x => a < x) r.
Proof. revert a. induction r as [|b r IH]; intros a H; [constructor|].
  cbn [strict_incr] in H. apply andb_true_iff in H. destruct H as [H1 H2]. constructor; [lia|].
  specialize (IH b H2). eapply Forall_impl; [|exact IH]. cbv beta. intros; lia. Qed.

Lemma strict_incr_tail a r : strict_incr (a :: r) = true -> strict_incr r = true.
Proof. destruct r as [|b r]; [reflexivity|]. cbn [strict_incr]. intro H. apply andb_true_iff in H. tauto. Qed.

Lemma strict_incr_nodup l : strict_incr l = true -> NoDup l.
Proof. induction l as [|a r IH]; intro H; [constructor|]. constructor.
  - intro Hin. pose proof (strict_incr_lb a r H) as F. rewrite Forall_forall in F. specialize (F a Hin). lia.
  - apply IH. eapply strict_incr_tail; exact H. Qed.

Definition nodupb (l : list Z) : bool := strict_incr (ZSort.sort l).
Lemma nodupb_sound l : nodupb l = true -> NoDup l.
Proof. intro H. apply (Permutation_NoDup (l := ZSort.sort l)).
  - apply Permutation_sym. apply ZSort.Permuted_sort.
  - apply strict_incr_nodup. exact H. Qed.

Lemma nodup_filter_inj (p : Z -> bool) l : NoDup (filter p l) ->
  forall i j, (i < length l)%nat -> (j < length l)%nat -> p (nth i l 0) = true -> nth i l 0 = nth j l 0 -> i = j.
Proof.
  induction l as [|a r IH]; cbn [filter length]; intros ND i j Hi Hj Hp E; [lia|].
  assert (ND' : NoDup (filter p r)) by (destruct (p a); [apply NoDup_cons_iff in ND; tauto|exact ND]).
  destruct i as [|i], j as [|j]; cbn [nth] in *; auto.
  - exfalso. rewrite Hp in ND. apply NoDup_cons_iff in ND. destruct ND as [Hn _]. apply Hn. apply filter_In. split; [|exact Hp].
    rewrite E. apply nth_In. lia.
  - exfalso. rewrite E in Hp. rewrite Hp in ND. apply NoDup_cons_iff in ND. destruct ND as [Hn _]. apply Hn. apply filter_In.
    split; [|exact Hp]. rewrite <- E. apply nth_In. lia.
  - f_equal. apply IH; try assumption; lia.
Qed.

(* ============================================================================================================ *)
(* the tables                                                                                                    *)
Definition is_mapped (v : Z) : bool := negb (v =? INVALID_TEID).
Definition mapped (t : list Z) : list Z := filter is_mapped t.

Lemma mapped_def : forall t : list Z, mapped t = filter (fun v => negb (v =? 0xFFFFFFFF)) t.
Proof. reflexivity. Qed.

Lemma reid_lengths :
  Z.of_nat (length reid_mdc) = 16384 /\ Z.of_nat (length reid_tof) = 16384 /\
  Z.of_nat (length reid_emc) = 8192 /\ Z.of_nat (length reid_muc) = 2048.
Proof. vm_compute. repeat split. Qed.

Lemma reid_entries_uint32 :
  forallb (fun v => (0 <=? v) && (v <? 2^32)) (reid_mdc ++ reid_tof ++ reid_emc ++ reid_muc) = true.
Proof. vm_compute. reflexivity. Qed.

Lemma reid_mapped_counts :
  Z.of_nat (length (mapped reid_mdc)) = 10927 /\ Z.of_nat (length (mapped reid_tof)) = 450 /\
  Z.of_nat (length (mapped reid_emc)) = 6240 /\ Z.of_nat (length (mapped reid_muc)) = 572.
Proof. vm_compute. repeat split. Qed.

(* ---------------------------------------------------------------------------------------------------------- *)
(* (a) index range: the id fields fill_digi extracts from ANY word index inside the table convert_reid_to_teid uses *)
Lemma raw_id_mdc_spec w : raw_id_mdc w = (w / 2^18) mod 2^14.
Proof. unfold raw_id_mdc, u16. fget 14 18. pows. change (2^18) with 262144. lia. Qed.
Lemma raw_id_tof_spec w : raw_id_tof w = (w / 2^21) mod 2^10.
Proof. unfold raw_id_tof, u16. fget 10 21. pows. change (2^21) with 2097152. change (2^10) with 1024. lia. Qed.
Lemma raw_id_emc_spec w : raw_id_emc w = (w / 2^19) mod 2^13.
Proof. unfold raw_id_emc, u16. fget 13 19. pows. change (2^19) with 524288. change (2^13) with 8192. lia. Qed.
Lemma raw_id_muc_spec w : raw_id_muc w = (w / 2^16) mod 2^11.
Proof. unfold raw_id_muc, u16. change 2047 with (Z.ones 11). rewrite Z.land_ones by lia. rewrite shiftr_div by lia.
  pows. lia. Qed.

Lemma raw_id_widths w :
  0 <= raw_id_mdc w < 2^14 /\ 0 <= raw_id_tof w < 2^10 /\ 0 <= raw_id_emc w < 2^13 /\ 0 <= raw_id_muc w < 2^11.
Proof. rewrite raw_id_mdc_spec, raw_id_tof_spec, raw_id_emc_spec, raw_id_muc_spec.
  change (2^14) with 16384. change (2^10) with 1024. change (2^13) with 8192. change (2^11) with 2048.
  change (2^18) with 262144. change (2^21) with 2097152. change (2^19) with 524288. change (2^16) with 65536. lia. Qed.

Lemma reid_index_in_range w :
  0 <= raw_id_mdc w < Z.of_nat (length reid_mdc) /\ 0 <= raw_id_tof w < Z.of_nat (length reid_tof) /\
  0 <= raw_id_emc w < Z.of_nat (length reid_emc) /\ 0 <= raw_id_muc w < Z.of_nat (length reid_muc).
Proof. destruct reid_lengths as (L1 & L2 & L3 & L4). rewrite L1, L2, L3, L4.
  pose proof (raw_id_widths w) as H.
  change (2^14) with 16384 in H. change (2^10) with 1024 in H. change (2^13) with 8192 in H. change (2^11) with 2048 in H. lia. Qed.

(* every id an n-bit field can hold is a valid index, and the TOF table is longer than its 10-bit id space *)
Lemma reid_id_space_covered :
  2^14 <= Z.of_nat (length reid_mdc) /\ 2^10 <= Z.of_nat (length reid_tof) /\
  2^13 <= Z.of_nat (length reid_emc) /\ 2^11 <= Z.of_nat (length reid_muc).
Proof. destruct reid_lengths as (L1 & L2 & L3 & L4). rewrite L1, L2, L3, L4. vm_compute. repeat split; discriminate. Qed.

Lemma nth_skipn_plus {A} n : forall (l : list A) k d, nth k (skipn n l) d = nth (n + k) l d.
Proof. induction n as [|n IH]; intros l k d; [reflexivity|]. destruct l as [|a l]; cbn [skipn Nat.add nth].
  - destruct k; reflexivity. - apply IH. Qed.

(* all TOF entries beyond the 10-bit id space are unmapped (so nothing reachable is lost and nothing unreachable is mapped) *)
Lemma reid_tof_beyond_id_space_unmapped : forall i, 1024 <= i < 16384 -> tlookup reid_tof i = INVALID_TEID.
Proof. intros i Hi. apply Z.eqb_eq.
  assert (H : forallb (fun v => v =? INVALID_TEID) (skipn 1024 reid_tof) = true) by (vm_compute; reflexivity).
  rewrite forallb_forall in H. apply H. unfold tlookup.
  replace (Z.to_nat i) with (1024 + Z.to_nat (i - 1024))%nat by lia. rewrite <- nth_skipn_plus. apply nth_In.
  rewrite skipn_length. destruct reid_lengths as (_ & L2 & _). lia. Qed.

Lemma in_range_raw_ids ws :
  forallb (in_range reid_mdc) (map raw_id_mdc ws) = true /\ forallb (in_range reid_tof) (map raw_id_tof ws) = true /\
  forallb (in_range reid_emc) (map raw_id_emc ws) = true /\ forallb (in_range reid_muc) (map raw_id_muc ws) = true.
Proof. repeat split; apply forallb_forall; intros x Hx; apply in_map_iff in Hx; destruct Hx as (w & <- & _);
  unfold in_range; pose proof (reid_index_in_range w); lia. Qed.

(* ---------------------------------------------------------------------------------------------------------- *)
(* (b) injectivity on mapped entries *)
Lemma mapped_nodup_mdc : NoDup (mapped reid_mdc). Proof. apply nodupb_sound. vm_cast_no_check (eq_refl true). Qed.
Lemma mapped_nodup_tof : NoDup (mapped reid_tof). Proof. apply nodupb_sound. vm_cast_no_check (eq_refl true). Qed.
Lemma mapped_nodup_emc : NoDup (mapped reid_emc). Proof. apply nodupb_sound. vm_cast_no_check (eq_refl true). Qed.
Lemma mapped_nodup_muc : NoDup (mapped reid_muc). Proof. apply nodupb_sound. vm_cast_no_check (eq_refl true). Qed.

Definition injective_on_mapped (t : list Z) : Prop :=
  forall i j, 0 <= i < Z.of_nat (length t) -> 0 <= j < Z.of_nat (length t) ->
    tlookup t i <> INVALID_TEID -> tlookup t i = tlookup t j -> i = j.

Lemma nodup_injective t : NoDup (mapped t) -> injective_on_mapped t.
Proof. intros ND i j Hi Hj Hm E. unfold tlookup in *.
  assert (Z.to_nat i = Z.to_nat j); [|lia].
  apply (nodup_filter_inj is_mapped t ND); [lia|lia| |exact E].
  unfold is_mapped. apply negb_true_iff. apply Z.eqb_neq. exact Hm. Qed.

Lemma reid_injective_mdc : injective_on_mapped reid_mdc. Proof. exact (nodup_injective _ mapped_nodup_mdc). Qed.
Lemma reid_injective_tof : injective_on_mapped reid_tof. Proof. exact (nodup_injective _ mapped_nodup_tof). Qed.
Lemma reid_injective_emc : injective_on_mapped reid_emc. Proof. exact (nodup_injective _ mapped_nodup_emc). Qed.
Lemma reid_injective_muc : injective_on_mapped reid_muc. Proof. exact (nodup_injective _ mapped_nodup_muc). Qed.

(* ---------------------------------------------------------------------------------------------------------- *)
(* (c) tags: every mapped entry passes exactly its own detector's check_*_id (regenerated kernels) *)
Definition only_tagb (t v : Z) : bool :=
  Bool.eqb (check_mdc_id v) (t =? 16) && Bool.eqb (check_tof_id v) (t =? 32) && Bool.eqb (check_emc_id v) (t =? 48) &&
  Bool.eqb (check_muc_id v) (t =? 64) && Bool.eqb (check_cgem_id v) (t =? 96).
Lemma only_tagb_sound t v : only_tagb t v = true -> only_tag t v.
Proof. unfold only_tagb, only_tag. intro H. repeat (apply andb_true_iff in H; destruct H as [H ?]).
  repeat split; apply eqb_prop; assumption. Qed.

Definition tagged (t : Z) (tab : list Z) : Prop :=
  forall i, 0 <= i < Z.of_nat (length tab) -> tlookup tab i <> INVALID_TEID -> only_tag t (tlookup tab i).

Lemma tagged_by_check t tab : forallb (fun v => negb (is_mapped v) || only_tagb t v) tab = true -> tagged t tab.
Proof. intros H i Hi Hm. pose proof (forallb_tlookup _ _ H i Hi) as P. cbv beta in P.
  apply orb_true_iff in P. destruct P as [P|P]; [|apply only_tagb_sound; exact P].
  unfold is_mapped in P. rewrite negb_involutive in P. apply Z.eqb_eq in P. contradiction. Qed.

Lemma reid_tag_mdc : tagged 16 reid_mdc. Proof. apply tagged_by_check. vm_cast_no_check (eq_refl true). Qed.
Lemma reid_tag_tof : tagged 32 reid_tof. Proof. apply tagged_by_check. vm_cast_no_check (eq_refl true). Qed.
Lemma reid_tag_emc : tagged 48 reid_emc. Proof. apply tagged_by_check. vm_cast_no_check (eq_refl true). Qed.
Lemma reid_tag_muc : tagged 64 reid_muc. Proof. apply tagged_by_check. vm_cast_no_check (eq_refl true). Qed.

(* the invalid marker is not a detector identifier of any kind *)
Lemma invalid_marker_untagged : check_mdc_id INVALID_TEID = false /\ check_tof_id INVALID_TEID = false /\
  check_emc_id INVALID_TEID = false /\ check_muc_id INVALID_TEID = false /\ check_cgem_id INVALID_TEID = false.
Proof. vm_compute. repeat split. Qed.

(* ---------------------------------------------------------------------------------------------------------- *)
(* (d) fields *)
Definition fields_ok (P : Z -> bool) (tab : list Z) : Prop :=
  forall i, 0 <= i < Z.of_nat (length tab) -> tlookup tab i <> INVALID_TEID -> P (tlookup tab i) = true.
Lemma fields_by_check P tab : forallb (fun v => negb (is_mapped v) || P v) tab = true -> fields_ok P tab.
Proof. intros H i Hi Hm. pose proof (forallb_tlookup _ _ H i Hi) as Q. cbv beta in Q.
  apply orb_true_iff in Q. destruct Q as [Q|Q]; [|exact Q].
  unfold is_mapped in Q. rewrite negb_involutive in Q. apply Z.eqb_eq in Q. contradiction. Qed.

(* MDC: layer exists in the geometry, wire-type bit = the layer's stereo class of the geometry tables, no stray bits *)
Definition mdc_fields_b (v : Z) : bool :=
  let l := mdc_id_to_layer v in
  (0 <=? l) && (l <? 43) &&
  Bool.eqb (mdc_id_to_is_stereo v) (tlookup is_layer_stereo l =? 1) &&
  (get_mdc_digi_id (mdc_id_to_wire v) l (b2z (mdc_id_to_is_stereo v)) =? v).
Lemma mdc_fields_checked : fields_ok mdc_fields_b reid_mdc.
Proof. apply fields_by_check. vm_cast_no_check (eq_refl true). Qed.

Lemma mdc_fields_b_sound v : mdc_fields_b v = true ->
  0 <= mdc_id_to_layer v < 43 /\
  mdc_id_to_is_stereo v = (mdc_layer_to_is_stereo (mdc_id_to_layer v) =? 1) /\
  get_mdc_digi_id (mdc_id_to_wire v) (mdc_id_to_layer v) (b2z (mdc_id_to_is_stereo v)) = v.
Proof. unfold mdc_fields_b, mdc_layer_to_is_stereo. cbv zeta. intro H.
  repeat (apply andb_true_iff in H; destruct H as [H ?]).
  repeat split; try lia. apply eqb_prop. assumption. Qed.

Lemma mdc_fields_consistent : forall i, 0 <= i < 16384 -> tlookup reid_mdc i <> INVALID_TEID ->
  let v := tlookup reid_mdc i in
  0 <= mdc_id_to_layer v < 43 /\
  mdc_id_to_is_stereo v = (mdc_layer_to_is_stereo (mdc_id_to_layer v) =? 1) /\
  get_mdc_digi_id (mdc_id_to_wire v) (mdc_id_to_layer v) (b2z (mdc_id_to_is_stereo v)) = v.
Proof. intros i Hi Hm. cbv zeta. apply mdc_fields_b_sound. apply mdc_fields_checked; [|exact Hm].
  destruct reid_lengths as (L1 & _). rewrite L1. exact Hi. Qed.

(* TOF (scintillator only): barrel part 1: layer 0-1, phi 0-87, both ends; endcaps part 0/2: layer 0, phi 0-48 (48 is the
   luminosity channel named in the source), readout end 0 *)
Definition tof_fields_b (v : Z) : bool :=
  let p := tof_id_to_part v in let l := _tof_id_to_layer_or_module_1 v in let f := _tof_id_to_phi_or_strip_1 v in
  let e := tof_id_to_end v in
  (0 <=? p) && (p <? 3) &&
  (if p =? 1 then (l <? 2) && (f <? 88) && (e <? 2) else (l =? 0) && (f <? 49) && (e =? 0)) &&
  (get_tof_digi_id p l f e =? v).
Lemma tof_fields_checked : fields_ok tof_fields_b reid_tof.
Proof. apply fields_by_check. vm_cast_no_check (eq_refl true). Qed.

Lemma tof_fields_consistent : forall i, 0 <= i < 16384 -> tlookup reid_tof i <> INVALID_TEID ->
  let v := tlookup reid_tof i in
  let p := tof_id_to_part v in let l := _tof_id_to_layer_or_module_1 v in let f := _tof_id_to_phi_or_strip_1 v in
  let e := tof_id_to_end v in
  0 <= p < 3 /\ (p = 1 -> l < 2 /\ f < 88 /\ e < 2) /\ (p <> 1 -> l = 0 /\ f < 49 /\ e = 0) /\
  get_tof_digi_id p l f e = v.
Proof. intros i Hi Hm. cbv zeta.
  assert (H : tof_fields_b (tlookup reid_tof i) = true)
    by (apply tof_fields_checked; [destruct reid_lengths as (_ & L2 & _); rewrite L2; exact Hi|exact Hm]).
  revert H. generalize (tlookup reid_tof i). intro v. unfold tof_fields_b. cbv zeta. intro H.
  repeat (apply andb_true_iff in H; destruct H as [H ?]).
  destruct (tof_id_to_part v =? 1) eqn:E;
    match goal with X : (_ && _ && _) = true |- _ => repeat (apply andb_true_iff in X; destruct X as [X ?]) end;
    repeat split; lia. Qed.

(* MUC (one entry per FEC card = base strip of 16): barrel part 1: 8 segments, 9 layers, base strip in {0,16,..,96};
   endcaps part 0/2: 4 segments, 8 layers, base strip in {0,16,32,48} *)
Definition muc_fields_b (v : Z) : bool :=
  let p := muc_id_to_part v in let s := muc_id_to_segment v in let l := muc_id_to_layer v in let c := muc_id_to_channel v in
  (0 <=? p) && (p <? 3) && (c mod 16 =? 0) &&
  (if p =? 1 then (s <? 8) && (l <? 9) && (c <? 112) else (s <? 4) && (l <? 8) && (c <? 64)) &&
  (get_muc_digi_id p s l c =? v).
Lemma muc_fields_checked : fields_ok muc_fields_b reid_muc.
Proof. apply fields_by_check. vm_cast_no_check (eq_refl true). Qed.

Lemma muc_fields_consistent : forall i, 0 <= i < 2048 -> tlookup reid_muc i <> INVALID_TEID ->
  let v := tlookup reid_muc i in
  let p := muc_id_to_part v in let s := muc_id_to_segment v in let l := muc_id_to_layer v in let c := muc_id_to_channel v in
  0 <= p < 3 /\ c mod 16 = 0 /\ (p = 1 -> s < 8 /\ l < 9 /\ c < 112) /\ (p <> 1 -> s < 4 /\ l < 8 /\ c < 64) /\
  get_muc_digi_id p s l c = v.
Proof. intros i Hi Hm. cbv zeta.
  assert (H : muc_fields_b (tlookup reid_muc i) = true)
    by (apply muc_fields_checked; [destruct reid_lengths as (_ & _ & _ & L4); rewrite L4; exact Hi|exact Hm]).
  revert H. generalize (tlookup reid_muc i). intro v. unfold muc_fields_b. cbv zeta. intro H.
  repeat (apply andb_true_iff in H; destruct H as [H ?]).
  destruct (muc_id_to_part v =? 1) eqn:E;
    match goal with X : (_ && _ && _) = true |- _ => repeat (apply andb_true_iff in X; destruct X as [X ?]) end;
    repeat split; lia. Qed.

(* ---- coverage: every real wire / crystal is the image of exactly one electronics id ---- *)
Definition exactly_one (t : list Z) (d : Z) : Prop :=
  exists i, (0 <= i < Z.of_nat (length t) /\ tlookup t i = d) /\
            forall j, 0 <= j < Z.of_nat (length t) /\ tlookup t j = d -> j = i.

(* the selected mapped entries are, as a multiset, exactly the identifiers ds (compared after sorting both) *)
Definition covers_b (P : Z -> bool) (t ds : list Z) : bool :=
  list_eqb Z.eqb (ZSort.sort (filter P (mapped t))) (ZSort.sort ds).

Lemma covers_in P t ds : covers_b P t ds = true -> forall d, In d ds -> In d t /\ d <> INVALID_TEID.
Proof. intros H d Hd. apply (list_eqb_sound Z.eqb zeqb_sound) in H.
  assert (Hs : In d (ZSort.sort ds)) by (eapply Permutation_in; [apply ZSort.Permuted_sort|exact Hd]).
  rewrite <- H in Hs.
  assert (Hf : In d (filter P (mapped t))) by (eapply Permutation_in; [apply Permutation_sym; apply ZSort.Permuted_sort|exact Hs]).
  apply filter_In in Hf. destruct Hf as [Hf _]. unfold mapped in Hf. apply filter_In in Hf. destruct Hf as [Hin Hm].
  split; [exact Hin|]. unfold is_mapped in Hm. apply negb_true_iff in Hm. apply Z.eqb_neq in Hm. exact Hm. Qed.

Lemma covered_exactly_one P t ds : injective_on_mapped t -> covers_b P t ds = true ->
  forall d, In d ds -> exactly_one t d.
Proof. intros Inj H d Hd. destruct (covers_in P t ds H d Hd) as [Hin Hm].
  destruct (in_tlookup t d Hin) as (i & Hi & Ei). exists i. split; [split; assumption|].
  intros j [Hj Ej]. symmetry. apply Inj; [exact Hi|exact Hj|rewrite Ei; exact Hm|congruence]. Qed.

Definition mdc_wire_id (c : Z * Z) : Z := get_mdc_digi_id (snd c) (fst c) (mdc_layer_to_is_stereo (fst c)).
Definition emc_crystal_id (c : Z * Z * Z) : Z := get_emc_digi_id (fst (fst c)) (snd (fst c)) (snd c).
(* MDC: the electronics map is a superset of the chamber; `real` = wire number below the layer's wire count *)
Definition mdc_is_real_b (v : Z) : bool := mdc_id_to_wire v <? tlookup mdc_wires_per_layer (mdc_id_to_layer v).

Lemma mdc_is_real_def : forall v : Z,
  mdc_is_real_b v = (mdc_id_to_wire v <? tlookup mdc_wires_per_layer (mdc_id_to_layer v)).
Proof. reflexivity. Qed.

Lemma mdc_cover_checked : covers_b mdc_is_real_b reid_mdc (map mdc_wire_id mdc_documented_order) = true.
Proof. vm_cast_no_check (eq_refl true). Qed.
Lemma emc_cover_checked : covers_b (fun _ => true) reid_emc (map emc_crystal_id emc_documented_order) = true.
Proof. vm_cast_no_check (eq_refl true). Qed.

Lemma mdc_cover l w : mdc_real l w ->
  exactly_one reid_mdc (get_mdc_digi_id w l (mdc_layer_to_is_stereo l)).
Proof. intro Hr. apply (covered_exactly_one _ _ _ reid_injective_mdc mdc_cover_checked).
  change (get_mdc_digi_id w l (mdc_layer_to_is_stereo l)) with (mdc_wire_id (l, w)). apply in_map. exact Hr. Qed.

Lemma emc_cover p t f : emc_real p t f -> exactly_one reid_emc (get_emc_digi_id p t f).
Proof. intro Hr. apply (covered_exactly_one _ _ _ reid_injective_emc emc_cover_checked).
  change (get_emc_digi_id p t f) with (emc_crystal_id (p, t, f)). apply in_map. exact Hr. Qed.

Lemma covers_onto P t ds : covers_b P t ds = true ->
  forall v, In v t -> v <> INVALID_TEID -> P v = true -> In v ds.
Proof. intros H v Hin Hm HP. apply (list_eqb_sound Z.eqb zeqb_sound) in H.
  eapply Permutation_in; [apply Permutation_sym; apply ZSort.Permuted_sort|]. rewrite <- H.
  eapply Permutation_in; [apply ZSort.Permuted_sort|]. apply filter_In. split; [|exact HP].
  apply filter_In. split; [exact Hin|]. unfold is_mapped. apply negb_true_iff. apply Z.eqb_neq. exact Hm. Qed.

(* EMC: every mapped entry is the identifier of a real crystal of the documented numbering, with no stray bits *)
Lemma emc_fields_consistent : forall i, 0 <= i < 8192 -> tlookup reid_emc i <> INVALID_TEID ->
  let v := tlookup reid_emc i in
  emc_real (emc_id_to_module v) (emc_id_to_theta v) (emc_id_to_phi v) /\
  get_emc_digi_id (emc_id_to_module v) (emc_id_to_theta v) (emc_id_to_phi v) = v.
Proof. intros i Hi Hm. cbv zeta.
  assert (Hin : In (tlookup reid_emc i) reid_emc)
    by (apply tlookup_in; destruct reid_lengths as (_ & _ & L3 & _); rewrite L3; exact Hi).
  pose proof (covers_onto _ _ _ emc_cover_checked _ Hin Hm eq_refl) as Hd.
  apply in_map_iff in Hd. destruct Hd as ([[p t] f] & E & Hr). unfold emc_crystal_id in E. cbn [fst snd] in E.
  rewrite <- E. change (In (p, t, f) emc_documented_order) with (emc_real p t f) in Hr.
  destruct (emc_fields_in_range p t f Hr) as (Hp & Ht & Hf).
  destruct (emc_decode_encode p t f) as (E1 & E2 & E3 & _). rewrite E1, E2, E3.
  rewrite !Z.mod_small by lia. split; [exact Hr|reflexivity]. Qed.

(* MDC: a mapped entry whose wire number is below its layer's wire count is the identifier of a real wire *)
Lemma mdc_real_entries : forall i, 0 <= i < 16384 -> tlookup reid_mdc i <> INVALID_TEID ->
  mdc_is_real_b (tlookup reid_mdc i) = true ->
  exists l w, mdc_real l w /\ tlookup reid_mdc i = get_mdc_digi_id w l (mdc_layer_to_is_stereo l).
Proof. intros i Hi Hm HP.
  assert (Hin : In (tlookup reid_mdc i) reid_mdc)
    by (apply tlookup_in; destruct reid_lengths as (L1 & _); rewrite L1; exact Hi).
  pose proof (covers_onto _ _ _ mdc_cover_checked _ Hin Hm HP) as Hd.
  apply in_map_iff in Hd. destruct Hd as ([l w] & E & Hr). exists l, w. split; [exact Hr|]. symmetry. exact E. Qed.

(* the EMC map is a bijection REID(mapped) <-> crystals: 6240 mapped entries, each a real crystal, each crystal hit once *)
Lemma mdc_wire_count : Z.of_nat (length mdc_documented_order) = 6796. Proof. vm_compute. reflexivity. Qed.
(* MDC: mapped entries that are not real wires (the electronics map is a superset of the 6796-wire chamber) *)
Lemma mdc_mapped_split :
  Z.of_nat (length (filter mdc_is_real_b (mapped reid_mdc))) = 6796 /\
  Z.of_nat (length (filter (fun v => negb (mdc_is_real_b v)) (mapped reid_mdc))) = 4131.
Proof. vm_compute. split; reflexivity. Qed.

(* ---------------------------------------------------------------------------------------------------------- *)
(* (e) pinned reference *)
Lemma reid_eq_reference_mdc : reid_mdc = ref_mdc. Proof. apply (list_eqb_sound Z.eqb zeqb_sound). vm_cast_no_check (eq_refl true). Qed.
Lemma reid_eq_reference_tof : reid_tof = ref_tof. Proof. apply (list_eqb_sound Z.eqb zeqb_sound). vm_cast_no_check (eq_refl true). Qed.
Lemma reid_eq_reference_emc : reid_emc = ref_emc. Proof. apply (list_eqb_sound Z.eqb zeqb_sound). vm_cast_no_check (eq_refl true). Qed.
Lemma reid_eq_reference_muc : reid_muc = ref_muc. Proof. apply (list_eqb_sound Z.eqb zeqb_sound). vm_cast_no_check (eq_refl true). Qed.

(* ---------------------------------------------------------------------------------------------------------- *)
(* (f) the conversion glue, instantiated with the regenerated tables *)
Definition REID : tables := {| t_mdc := reid_mdc; t_tof := reid_tof; t_emc := reid_emc; t_muc := reid_muc |}.

Lemma convert_only_ids d : wf REID d -> convert_reid_to_teid REID d = Some (image REID d).
Proof. apply convert_is_image. Qed.

Lemma convert_touches_nothing_else : forall (d : rawdict) (k : string),
  keys (image REID d) = keys d /\
  (table_for REID k = None -> lookup k (image REID d) = lookup k d) /\
  (forall t offs cols, table_for REID k = Some t -> lookup k d = Some (Digi offs cols) ->
     lookup k (image REID d) = Some (Digi offs (image_cols t cols)) /\
     keys (image_cols t cols) = keys cols /\
     (forall c, c <> "id"%string -> lookup c (image_cols t cols) = lookup c cols) /\
     lookup "id"%string (image_cols t cols) = option_map (map (tlookup t)) (lookup "id"%string cols)).
Proof. intros d k. split; [apply image_keys|]. split.
  - intro N. rewrite lookup_image, N. reflexivity.
  - intros t offs cols Tf L. split; [rewrite lookup_image, Tf, L; reflexivity|]. split; [apply image_cols_keys|]. split.
    + intros c Hc. rewrite lookup_image_cols. destruct (String.eqb c "id") eqn:E; [apply String.eqb_eq in E; contradiction|reflexivity].
    + rewrite lookup_image_cols. reflexivity.
Qed.

Lemma tables_by_subdetector :
  table_for REID "mdc" = Some reid_mdc /\ table_for REID "tof" = Some reid_tof /\ table_for REID "emc" = Some reid_emc /\
  table_for REID "muc" = Some reid_muc /\ table_for REID "trg" = None /\ table_for REID "ef" = None /\
  table_for REID "evt_header" = None.
Proof. repeat split. Qed.

Lemma arrays_decode_is_image : forall batches : list rawdict, Forall (wf REID) batches ->
  arrays_dicts REID false batches = Some batches /\ arrays_dicts REID true batches = Some (map (image REID) batches).
Proof. intros bs H. split; [apply arrays_no_decode|apply arrays_decode; exact H]. Qed.

(* id columns that come out of fill_digi always satisfy the index premise of wf *)
Lemma parser_ids_index_ok ws :
  take reid_mdc (map raw_id_mdc ws) = Some (map (tlookup reid_mdc) (map raw_id_mdc ws)) /\
  take reid_tof (map raw_id_tof ws) = Some (map (tlookup reid_tof) (map raw_id_tof ws)) /\
  take reid_emc (map raw_id_emc ws) = Some (map (tlookup reid_emc) (map raw_id_emc ws)) /\
  take reid_muc (map raw_id_muc ws) = Some (map (tlookup reid_muc) (map raw_id_muc ws)).
Proof. destruct (in_range_raw_ids ws) as (A & B & C & D). repeat split; apply take_ok; assumption. Qed.

(* a concrete dict in the shape read_bes_raw returns (non-vacuity of wf, and the model run on it) *)
Local Open Scope string_scope.
Definition demo_dict : rawdict :=
  [ ("evt_header", Header [("evt_no", [7]); ("run_no", [100])]);
    ("mdc", Digi [0; 3] [("id", [257; 0; 16383]); ("adc", [1; 2; 3]); ("tdc", [4; 5; 6]); ("overflow", [0; 1; 0])]);
    ("tof", Digi [0; 2] [("id", [129; 1023]); ("adc", [9; 9]); ("tdc", [8; 8]); ("overflow", [0; 0])]);
    ("emc", Digi [0; 1] [("id", [129]); ("adc", [5]); ("tdc", [6]); ("measure", [2])]);
    ("muc", Digi [0; 2] [("id", [0; 2047]); ("fec", [65535; 1])]);
    ("trg", Words [0; 2] [257; 129]);
    ("ef", Words [0; 1] [0]) ]%Z.
Local Close Scope string_scope.

Lemma demo_dict_wf : wf REID demo_dict.
Proof. apply wf_b_sound. vm_cast_no_check (eq_refl true). Qed.
