(* C12 — the regenerated Jacobian entries are the partial derivatives of the pivot-change parameter map.
   Method: general lemmas for the derivative of a norm and of a continuous angle branch (Coquelicot), a smooth local
   version (drL, phiL, dzL) of the parameter map that coincides with the regenerated code at the point and describes the same
   helix for all nearby parameters, and trigonometric identities turning the derivatives into the code's closed forms. *)
From Coq Require Import Reals Lra Lia ZArith.
From Coquelicot Require Import Coquelicot.
From PV.Lib Require Import RealAux.
From PV.Model Require Import HelixSpec.
From PV.Gen Require Import HelixCode.
From PV.Props Require Import HelixCommon.
Local Open Scope R_scope.

Lemma norm_derive (u1 u2 : R -> R) t0 d1 d2 :
  is_derive u1 t0 d1 -> is_derive u2 t0 d2 -> 0 < u1 t0 * u1 t0 + u2 t0 * u2 t0 ->
  is_derive (fun t => sqrt (u1 t * u1 t + u2 t * u2 t)) t0 ((u1 t0 * d1 + u2 t0 * d2) / sqrt (u1 t0 * u1 t0 + u2 t0 * u2 t0)).
Proof.
  intros H1 H2 Hp. auto_derive.
  - repeat split; try (eexists; eassumption); auto.
  - replace (Derive (fun x : R => u1 x) t0) with d1 by (symmetry; apply is_derive_unique; exact H1).
    replace (Derive (fun x : R => u2 x) t0) with d2 by (symmetry; apply is_derive_unique; exact H2).
    assert (0 < sqrt (u1 t0 * u1 t0 + u2 t0 * u2 t0)) by (apply sqrt_lt_R0; exact Hp).
    field. lra.
Qed.

(* a differentiable branch of the polar angle of u(t) around t0, anchored at th0 *)
Definition angle_lift (u1 u2 : R -> R) (t0 th0 : R) (t : R) : R :=
  th0 + atan ((u1 t0 * u2 t - u2 t0 * u1 t) / (u1 t0 * u1 t + u2 t0 * u2 t)).

Lemma angle_derive (u1 u2 : R -> R) t0 d1 d2 th0 :
  is_derive u1 t0 d1 -> is_derive u2 t0 d2 -> 0 < u1 t0 * u1 t0 + u2 t0 * u2 t0 ->
  is_derive (angle_lift u1 u2 t0 th0) t0 ((u1 t0 * d2 - u2 t0 * d1) / (u1 t0 * u1 t0 + u2 t0 * u2 t0)).
Proof.
  intros H1 H2 Hp. unfold angle_lift. auto_derive.
  - repeat split; try (eexists; eassumption); auto. lra.
  - replace (Derive (fun x : R => u1 x) t0) with d1 by (symmetry; apply is_derive_unique; exact H1).
    replace (Derive (fun x : R => u2 x) t0) with d2 by (symmetry; apply is_derive_unique; exact H2).
    set (D := u1 t0 * u1 t0 + u2 t0 * u2 t0) in *.
    replace (u1 t0 * u2 t0 - u2 t0 * u1 t0) with 0 by ring.
    field. split; [lra|]. replace (u1 t0 * u2 t0 + - (u2 t0 * u1 t0)) with 0 by ring. nra.
Qed.

Lemma angle_lift_at (u1 u2 : R -> R) t0 th0 : angle_lift u1 u2 t0 th0 t0 = th0.
Proof. unfold angle_lift. replace (u1 t0 * u2 t0 - u2 t0 * u1 t0) with 0 by ring. unfold Rdiv. rewrite Rmult_0_l, atan_0. ring. Qed.

(* the lift IS a polar angle of u(t) wherever u(t) stays in the half plane around u(t0) *)
Lemma angle_lift_polar (u1 u2 : R -> R) t0 th0 rho0 t :
  0 < rho0 -> u1 t0 = rho0 * cos th0 -> u2 t0 = rho0 * sin th0 ->
  0 < u1 t0 * u1 t + u2 t0 * u2 t ->
  u1 t = sqrt (u1 t * u1 t + u2 t * u2 t) * cos (angle_lift u1 u2 t0 th0 t) /\
  u2 t = sqrt (u1 t * u1 t + u2 t * u2 t) * sin (angle_lift u1 u2 t0 th0 t).
Proof.
  intros Hr E1 E2 Hd. unfold angle_lift.
  set (a := u1 t0) in *. set (b := u2 t0) in *. set (p := u1 t) in *. set (q := u2 t) in *.
  set (cr := a * q - b * p). set (dt := a * p + b * q) in *.
  set (T := cr / dt).
  assert (L : cr * cr + dt * dt = (a * a + b * b) * (p * p + q * q)) by (unfold cr, dt; ring).
  assert (N0 : a * a + b * b = rho0 * rho0).
  { rewrite E1, E2. pose proof (sin2_cos2 th0) as S. unfold Rsqr in S.
    transitivity (rho0 * rho0 * (sin th0 * sin th0 + cos th0 * cos th0)); [ring | rewrite S; ring]. }
  assert (Pp : 0 < p * p + q * q).
  { destruct (Rle_lt_dec (p * p + q * q) 0) as [Hle|Hlt]; [|exact Hlt]. exfalso.
    pose proof (Rle_0_sqr p) as Sp. pose proof (Rle_0_sqr q) as Sq. unfold Rsqr in Sp, Sq.
    assert (Zp : p = 0) by (apply Rsqr_0_uniq; unfold Rsqr; lra).
    assert (Zq : q = 0) by (apply Rsqr_0_uniq; unfold Rsqr; lra).
    unfold dt in Hd. rewrite Zp, Zq in Hd. lra. }
  set (n := sqrt (p * p + q * q)). assert (Hn : 0 < n) by (apply sqrt_lt_R0; exact Pp).
  assert (Hn2 : n * n = p * p + q * q) by (apply sqrt_sqrt; lra).
  assert (S1 : sqrt (1 + T * T) = rho0 * n / dt).
  { apply sqrt_lem_1; [nra | apply Rlt_le; apply Rdiv_lt_0_compat; nra |].
    unfold T. field_simplify_eq; [|lra]. nra. }
  rewrite cos_plus, sin_plus, cos_atan_pos, sin_atan_pos, S1.
  assert (C0 : cos th0 = a / rho0) by (rewrite E1; field; lra).
  assert (S0 : sin th0 = b / rho0) by (rewrite E2; field; lra).
  rewrite C0, S0. unfold T.
  assert (H1 : a * dt - b * cr = rho0 * rho0 * p) by (rewrite <- N0; unfold cr, dt; ring).
  assert (H2 : b * dt + a * cr = rho0 * rho0 * q) by (rewrite <- N0; unfold cr, dt; ring).
  split.
  - transitivity (n * ((a * dt - b * cr) / (rho0 * rho0 * n))); [rewrite H1; field; lra | field; repeat split; lra].
  - transitivity (n * ((b * dt + a * cr) / (rho0 * rho0 * n))); [rewrite H2; field; lra | field; repeat split; lra].
Qed.

Section Jac.
Variable atan2 : R -> R -> R.
Hypothesis A2 : atan2_spec atan2.
Variables dr0 phi00 kappa0 dz0 tanl0 x0 y0 z0 x1 y1 z1 : R.
Hypothesis Hk : kappa0 <> 0.
Hypothesis Hoff : X dr0 phi00 kappa0 x0 x1 <> 0 \/ Y dr0 phi00 kappa0 y0 y1 <> 0.

Let s0 := sg kappa0.
Let th0 := nphi0 atan2 dr0 phi00 kappa0 dz0 tanl0 x0 y0 z0 x1 y1 z1.
Let dl0 := dphi atan2 dr0 phi00 kappa0 dz0 tanl0 x0 y0 z0 x1 y1 z1.
Let rho0 := rho dr0 phi00 kappa0 x0 y0 x1 y1.
Let r0 := r kappa0.

(* smooth local form of the map *)
Definition Xf (dr phi0 kappa : R) : R := x0 + (dr + alpha / kappa) * cos phi0 - x1.
Definition Yf (dr phi0 kappa : R) : R := y0 + (dr + alpha / kappa) * sin phi0 - y1.
Definition drL (dr phi0 kappa : R) : R :=
  s0 * sqrt (s0 * Xf dr phi0 kappa * (s0 * Xf dr phi0 kappa) + s0 * Yf dr phi0 kappa * (s0 * Yf dr phi0 kappa)) - alpha / kappa.
Definition phiL_dr (t : R) := angle_lift (fun t => s0 * Xf t phi00 kappa0) (fun t => s0 * Yf t phi00 kappa0) dr0 th0 t.
Definition phiL_phi (t : R) := angle_lift (fun t => s0 * Xf dr0 t kappa0) (fun t => s0 * Yf dr0 t kappa0) phi00 th0 t.
Definition phiL_kap (t : R) := angle_lift (fun t => s0 * Xf dr0 phi00 t) (fun t => s0 * Yf dr0 phi00 t) kappa0 th0 t.
(* dz' with the turning angle measured along the lifted branch: dl0 - (th0 - phi00) is the whole-turn offset fixed at the point *)
Definition dzL (ang phi0 kappa dz tanl : R) : R := z0 + dz - alpha / kappa * tanl * (ang - phi0 + (dl0 - (th0 - phi00))) - z1.

Lemma XY0 : Xf dr0 phi00 kappa0 = X dr0 phi00 kappa0 x0 x1 /\ Yf dr0 phi00 kappa0 = Y dr0 phi00 kappa0 y0 y1.
Proof. unfold Xf, Yf, X, Y, CX, CY, centre_x, centre_y, rsigned. split; reflexivity. Qed.

Lemma s0_sq : s0 * s0 = 1. Proof. apply sg_sq. exact Hk. Qed.
Lemma rho0_pos : 0 < rho0. Proof. apply rho_pos. exact Hoff. Qed.

Lemma U_polar : s0 * Xf dr0 phi00 kappa0 = rho0 * cos th0 /\ s0 * Yf dr0 phi00 kappa0 = rho0 * sin th0.
Proof. destruct XY0 as [EX EY]. rewrite EX, EY. destruct (nphi0_trig atan2 A2 dr0 phi00 kappa0 dz0 tanl0 x0 y0 z0 x1 y1 z1 Hk Hoff) as [HC HS].
  split; symmetry; assumption. Qed.

Lemma U_norm : s0 * Xf dr0 phi00 kappa0 * (s0 * Xf dr0 phi00 kappa0) + s0 * Yf dr0 phi00 kappa0 * (s0 * Yf dr0 phi00 kappa0) = rho0 * rho0.
Proof. destruct U_polar as [E1 E2]. rewrite E1, E2. pose proof (sin2_cos2 th0) as S. unfold Rsqr in S.
  transitivity (rho0 * rho0 * (sin th0 * sin th0 + cos th0 * cos th0)); [ring | rewrite S; ring]. Qed.

Lemma U_norm_pos : 0 < s0 * Xf dr0 phi00 kappa0 * (s0 * Xf dr0 phi00 kappa0) + s0 * Yf dr0 phi00 kappa0 * (s0 * Yf dr0 phi00 kappa0).
Proof. rewrite U_norm. pose proof rho0_pos. nra. Qed.

Lemma sqrt_U : sqrt (s0 * Xf dr0 phi00 kappa0 * (s0 * Xf dr0 phi00 kappa0) + s0 * Yf dr0 phi00 kappa0 * (s0 * Yf dr0 phi00 kappa0)) = rho0.
Proof. rewrite U_norm. apply sqrt_square. pose proof rho0_pos. lra. Qed.

(* trigonometry of the turning angle *)
Lemma cos_sin_dl0 : cos dl0 = cos (th0 - phi00) /\ sin dl0 = sin (th0 - phi00).
Proof. destruct (dphi_cong atan2 dr0 phi00 kappa0 dz0 tanl0 x0 y0 z0 x1 y1 z1) as [k E]. fold dl0 th0 in E. rewrite E.
  rewrite cos_period_Z, sin_period_Z. split; reflexivity. Qed.

(* the closed forms of the regenerated code at the point *)
Definition P (f : R -> R -> R -> R -> R -> R -> R -> R -> R -> R -> R -> R -> R) : R :=
  f (rin dr0 phi00 kappa0 dz0 tanl0 x0 y0 z0) dr0 phi00 dz0 kappa0 tanl0 x0 y0 z0 x1 y1 z1.

Lemma code_cos_sin : P (cp_obj_cos_dphi atan2) = cos dl0 /\ P (cp_obj_sin_dphi atan2) = sin dl0.
Proof. split; reflexivity. Qed.
Lemma code_rdr : P cp_obj_rdr = r0 + dr0.
Proof. unfold P, cp_obj_rdr. rewrite code_radius_signed by exact Hk. reflexivity. Qed.
Lemma code_rdrpr : P cp_obj_rdrpr = 1 / (s0 * rho0).
Proof. unfold P, cp_obj_rdrpr. rewrite code_radius_signed by exact Hk.
  change (cp_obj_new_dr (rin dr0 phi00 kappa0 dz0 tanl0 x0 y0 z0) dr0 phi00 dz0 kappa0 tanl0 x0 y0 z0 x1 y1 z1) with (ndr dr0 phi00 kappa0 dz0 tanl0 x0 y0 z0 x1 y1 z1).
  rewrite (Rplus_comm (r kappa0)), (ndr_plus_r _ _ _ _ _ _ _ _ _ _ _ Hk). reflexivity. Qed.
Lemma code_r : P cp_obj_r = r0.
Proof. unfold P. apply code_radius_signed. exact Hk. Qed.

(* ---- partial derivatives of X, Y ---- *)
Lemma dX_dr : is_derive (fun t => s0 * Xf t phi00 kappa0) dr0 (s0 * cos phi00).
Proof. unfold Xf. auto_derive; [exact I | ring]. Qed.
Lemma dY_dr : is_derive (fun t => s0 * Yf t phi00 kappa0) dr0 (s0 * sin phi00).
Proof. unfold Yf. auto_derive; [exact I | ring]. Qed.
Lemma dX_phi : is_derive (fun t => s0 * Xf dr0 t kappa0) phi00 (s0 * (- (dr0 + r0) * sin phi00)).
Proof. unfold Xf, r0, r, rsigned. auto_derive; [exact I | ring]. Qed.
Lemma dY_phi : is_derive (fun t => s0 * Yf dr0 t kappa0) phi00 (s0 * ((dr0 + r0) * cos phi00)).
Proof. unfold Yf, r0, r, rsigned. auto_derive; [exact I | ring]. Qed.
Lemma dX_kap : is_derive (fun t => s0 * Xf dr0 phi00 t) kappa0 (s0 * (- (r0 / kappa0) * cos phi00)).
Proof. unfold Xf, r0, r, rsigned. auto_derive; [exact Hk | field; exact Hk]. Qed.
Lemma dY_kap : is_derive (fun t => s0 * Yf dr0 phi00 t) kappa0 (s0 * (- (r0 / kappa0) * sin phi00)).
Proof. unfold Yf, r0, r, rsigned. auto_derive; [exact Hk | field; exact Hk]. Qed.

Lemma is_derive_eq (f : R -> R) (x l l' : R) : is_derive f x l -> l = l' -> is_derive f x l'.
Proof. intros H E. rewrite <- E. exact H. Qed.

Lemma code_cos : P (cp_obj_cos_dphi atan2) = cos dl0. Proof. reflexivity. Qed.
Lemma code_sin : P (cp_obj_sin_dphi atan2) = sin dl0. Proof. reflexivity. Qed.
Lemma code_dphi : P (cp_obj_dphi_2 atan2) = dl0. Proof. reflexivity. Qed.

Ltac usecode L := let H := fresh in pose proof L as H; unfold P in H; rewrite ?H; clear H.
Ltac codechars := usecode code_cos; usecode code_sin; usecode code_dphi; usecode code_rdr; usecode code_rdrpr; usecode code_r.

Lemma J_chars :
  P (cp_obj_J00 atan2) = cos dl0 /\ P (cp_obj_J01 atan2) = (r0 + dr0) * sin dl0 /\
  P (cp_obj_J02 atan2) = r0 / kappa0 * (1 - cos dl0) /\
  P (cp_obj_J10 atan2) = - (1 / (s0 * rho0)) * sin dl0 /\ P (cp_obj_J11 atan2) = (r0 + dr0) * (1 / (s0 * rho0)) * cos dl0 /\
  P (cp_obj_J12 atan2) = r0 / kappa0 * (1 / (s0 * rho0)) * sin dl0 /\
  P (cp_obj_J30 atan2) = r0 * (1 / (s0 * rho0)) * tanl0 * sin dl0 /\
  P (cp_obj_J31 atan2) = r0 * tanl0 * (1 - (r0 + dr0) * (1 / (s0 * rho0)) * cos dl0) /\
  P (cp_obj_J32 atan2) = r0 / kappa0 * tanl0 * (dl0 - r0 * (1 / (s0 * rho0)) * sin dl0) /\
  P (cp_obj_J34 atan2) = - r0 * dl0.
Proof.
  unfold P, cp_obj_J00, cp_obj_J01, cp_obj_J02, cp_obj_J10, cp_obj_J11, cp_obj_J12, cp_obj_J30, cp_obj_J31, cp_obj_J32, cp_obj_J34.
  codechars. repeat split; reflexivity.
Qed.

Lemma J_consts :
  P cp_obj_J03 = 0 /\ P cp_obj_J04 = 0 /\ P cp_obj_J13 = 0 /\ P cp_obj_J14 = 0 /\
  P cp_obj_J20 = 0 /\ P cp_obj_J21 = 0 /\ P cp_obj_J22 = 1 /\ P cp_obj_J23 = 0 /\ P cp_obj_J24 = 0 /\ P cp_obj_J33 = 1 /\
  P cp_obj_J40 = 0 /\ P cp_obj_J41 = 0 /\ P cp_obj_J42 = 0 /\ P cp_obj_J43 = 0 /\ P cp_obj_J44 = 1.
Proof. repeat split; reflexivity. Qed.

(* generic derivative of  s0 * |u(t)| - g(t)  *)
Lemma drL_gen (u1 u2 g : R -> R) t0 d1 d2 dg :
  is_derive u1 t0 d1 -> is_derive u2 t0 d2 -> is_derive g t0 dg -> 0 < u1 t0 * u1 t0 + u2 t0 * u2 t0 ->
  is_derive (fun t => s0 * sqrt (u1 t * u1 t + u2 t * u2 t) - g t) t0
            (s0 * ((u1 t0 * d1 + u2 t0 * d2) / sqrt (u1 t0 * u1 t0 + u2 t0 * u2 t0)) - dg).
Proof.
  intros H1 H2 Hg Hp. auto_derive.
  - repeat split; try (eexists; eassumption); auto.
  - replace (Derive (fun x : R => u1 x) t0) with d1 by (symmetry; apply is_derive_unique; exact H1).
    replace (Derive (fun x : R => u2 x) t0) with d2 by (symmetry; apply is_derive_unique; exact H2).
    replace (Derive (fun x : R => g x) t0) with dg by (symmetry; apply is_derive_unique; exact Hg).
    assert (0 < sqrt (u1 t0 * u1 t0 + u2 t0 * u2 t0)) by (apply sqrt_lt_R0; exact Hp).
    field. lra.
Qed.

Ltac trigfacts := destruct U_polar as [E1 E2]; destruct cos_sin_dl0 as [CD SD]; pose proof s0_sq as S2; pose proof rho0_pos as RP;
  pose proof sqrt_U as SU; pose proof U_norm as UN.

Lemma s0_nz : s0 <> 0. Proof. intro Z. pose proof s0_sq as S. rewrite Z in S. lra. Qed.
Lemma inv_s0rho : 1 / (s0 * rho0) = s0 / rho0.
Proof. pose proof s0_sq as S2. pose proof rho0_pos as RP. pose proof s0_nz as SN.
  apply (Rmult_eq_reg_l (s0 * rho0)); [|apply Rmult_integral_contrapositive_currified; lra].
  transitivity 1; [field; split; lra|]. transitivity (s0 * s0); [lra | field; lra]. Qed.

(* ---- row 0: dr' ---- *)
Lemma J00_ok : is_derive (fun t => drL t phi00 kappa0) dr0 (P (cp_obj_J00 atan2)).
Proof.
  destruct J_chars as (C & _). rewrite C. unfold drL.
  apply (is_derive_eq _ _ _ _ (drL_gen _ _ (fun _ => alpha / kappa0) dr0 _ _ 0 dX_dr dY_dr (is_derive_const _ _) U_norm_pos)).
  trigfacts. rewrite SU, E1, E2, CD, cos_minus.
  transitivity ((s0 * s0) * (cos th0 * cos phi00 + sin th0 * sin phi00)); [field; lra | rewrite S2; ring].
Qed.

Lemma J01_ok : is_derive (fun t => drL dr0 t kappa0) phi00 (P (cp_obj_J01 atan2)).
Proof.
  destruct J_chars as (_ & C & _). rewrite C. unfold drL.
  apply (is_derive_eq _ _ _ _ (drL_gen _ _ (fun _ => alpha / kappa0) phi00 _ _ 0 dX_phi dY_phi (is_derive_const _ _) U_norm_pos)).
  trigfacts. rewrite SU, E1, E2, SD, sin_minus.
  transitivity ((s0 * s0) * ((r0 + dr0) * (sin th0 * cos phi00 - cos th0 * sin phi00))); [field; lra | rewrite S2; ring].
Qed.

Lemma d_alpha_kap : is_derive (fun t => alpha / t) kappa0 (- (r0 / kappa0)).
Proof. unfold r0, r, rsigned. auto_derive; [exact Hk | field; exact Hk]. Qed.

Lemma J02_ok : is_derive (fun t => drL dr0 phi00 t) kappa0 (P (cp_obj_J02 atan2)).
Proof.
  destruct J_chars as (_ & _ & C & _). rewrite C. unfold drL.
  apply (is_derive_eq _ _ _ _ (drL_gen _ _ (fun t => alpha / t) kappa0 _ _ _ dX_kap dY_kap d_alpha_kap U_norm_pos)).
  trigfacts. rewrite SU, E1, E2, CD, cos_minus.
  transitivity ((s0 * s0) * (- (r0 / kappa0)) * (cos th0 * cos phi00 + sin th0 * sin phi00) + r0 / kappa0); [field; split; [exact Hk | lra] | rewrite S2; ring].
Qed.

(* ---- row 1: phi0' along the differentiable branch ---- *)
Lemma J10_ok : is_derive phiL_dr dr0 (P (cp_obj_J10 atan2)).
Proof.
  destruct J_chars as (_ & _ & _ & C & _). rewrite C, inv_s0rho. unfold phiL_dr.
  apply (is_derive_eq _ _ _ _ (angle_derive _ _ dr0 _ _ th0 dX_dr dY_dr U_norm_pos)).
  trigfacts. rewrite UN, E1, E2, SD, sin_minus. field. lra.
Qed.

Lemma J11_ok : is_derive phiL_phi phi00 (P (cp_obj_J11 atan2)).
Proof.
  destruct J_chars as (_ & _ & _ & _ & C & _). rewrite C, inv_s0rho. unfold phiL_phi.
  apply (is_derive_eq _ _ _ _ (angle_derive _ _ phi00 _ _ th0 dX_phi dY_phi U_norm_pos)).
  trigfacts. rewrite UN, E1, E2, CD, cos_minus. field. lra.
Qed.

Lemma J12_ok : is_derive phiL_kap kappa0 (P (cp_obj_J12 atan2)).
Proof.
  destruct J_chars as (_ & _ & _ & _ & _ & C & _). rewrite C, inv_s0rho. unfold phiL_kap.
  apply (is_derive_eq _ _ _ _ (angle_derive _ _ kappa0 _ _ th0 dX_kap dY_kap U_norm_pos)).
  trigfacts. rewrite UN, E1, E2, SD, sin_minus. field. repeat split; first [lra | exact Hk].
Qed.

(* ---- row 3: dz' with the turning angle along the lifted branch ---- *)
Lemma dz_gen (ang : R -> R) t0 dang (g ph : R -> R) dg dph tl :
  is_derive ang t0 dang -> is_derive g t0 dg -> is_derive ph t0 dph ->
  is_derive (fun t => z0 + dz0 - g t * tl * (ang t - ph t + (dl0 - (th0 - phi00))) - z1) t0
            (- (dg * tl * (ang t0 - ph t0 + (dl0 - (th0 - phi00))) + g t0 * tl * (dang - dph))).
Proof.
  intros Ha Hg Hp. auto_derive.
  - repeat split; try (eexists; eassumption); auto.
  - replace (Derive (fun x : R => ang x) t0) with dang by (symmetry; apply is_derive_unique; exact Ha).
    replace (Derive (fun x : R => g x) t0) with dg by (symmetry; apply is_derive_unique; exact Hg).
    replace (Derive (fun x : R => ph x) t0) with dph by (symmetry; apply is_derive_unique; exact Hp).
    ring.
Qed.

Lemma J30_ok : is_derive (fun t => dzL (phiL_dr t) phi00 kappa0 dz0 tanl0) dr0 (P (cp_obj_J30 atan2)).
Proof.
  destruct J_chars as (_ & _ & _ & C1 & _ & _ & C & _). rewrite C. unfold dzL.
  apply (is_derive_eq _ _ _ _ (dz_gen phiL_dr dr0 _ (fun _ => alpha / kappa0) (fun _ => phi00) 0 0 tanl0 J10_ok (is_derive_const _ _) (is_derive_const _ _))).
  rewrite C1. unfold r0, r, rsigned. ring.
Qed.

Lemma J31_ok : is_derive (fun t => dzL (phiL_phi t) t kappa0 dz0 tanl0) phi00 (P (cp_obj_J31 atan2)).
Proof.
  destruct J_chars as (_ & _ & _ & _ & C1 & _ & _ & C & _). rewrite C. unfold dzL.
  apply (is_derive_eq _ _ _ _ (dz_gen phiL_phi phi00 _ (fun _ => alpha / kappa0) (fun t => t) 0 1 tanl0 J11_ok (is_derive_const _ _) (is_derive_id _))).
  rewrite C1. unfold r0, r, rsigned. ring.
Qed.

Lemma J32_ok : is_derive (fun t => dzL (phiL_kap t) phi00 t dz0 tanl0) kappa0 (P (cp_obj_J32 atan2)).
Proof.
  destruct J_chars as (_ & _ & _ & _ & _ & C1 & _ & _ & C & _). rewrite C. unfold dzL.
  apply (is_derive_eq _ _ _ _ (dz_gen phiL_kap kappa0 _ (fun t => alpha / t) (fun _ => phi00) _ 0 tanl0 J12_ok d_alpha_kap (is_derive_const _ _))).
  rewrite C1. unfold phiL_kap. rewrite angle_lift_at. unfold r0, r, rsigned. pose proof rho0_pos. pose proof s0_nz. field. repeat split; first [lra | assumption].
Qed.

Lemma J33_ok : is_derive (fun t => dzL th0 phi00 kappa0 t tanl0) dz0 (P cp_obj_J33).
Proof. destruct J_consts as (_ & _ & _ & _ & _ & _ & _ & _ & _ & C & _). rewrite C. unfold dzL. auto_derive; [exact I | ring]. Qed.

Lemma J34_ok : is_derive (fun t => dzL th0 phi00 kappa0 dz0 t) tanl0 (P (cp_obj_J34 atan2)).
Proof. destruct J_chars as (_ & _ & _ & _ & _ & _ & _ & _ & _ & C). rewrite C. unfold dzL. auto_derive; [exact I | unfold r0, r, rsigned; ring]. Qed.

(* ---- the smooth local form coincides with the regenerated code at the point ... ---- *)
Lemma local_form_at_point :
  drL dr0 phi00 kappa0 = ndr dr0 phi00 kappa0 dz0 tanl0 x0 y0 z0 x1 y1 z1 /\
  phiL_dr dr0 = th0 /\ phiL_phi phi00 = th0 /\ phiL_kap kappa0 = th0 /\
  dzL th0 phi00 kappa0 dz0 tanl0 = ndz atan2 dr0 phi00 kappa0 dz0 tanl0 x0 y0 z0 x1 y1 z1.
Proof.
  split; [|split; [|split; [|split]]].
  - unfold drL. rewrite sqrt_U. rewrite (ndr_char _ _ _ _ _ _ _ _ _ _ _ Hk). reflexivity.
  - apply angle_lift_at.
  - apply angle_lift_at.
  - apply angle_lift_at.
  - unfold dzL. rewrite (ndz_char atan2 _ _ _ _ _ _ _ _ _ _ _ Hk). fold dl0. unfold r, rsigned. ring.
Qed.

(* ... equals the code's dr' for every parameter value with the same charge ... *)
Lemma drL_is_code dr phi0 kappa : kappa <> 0 -> sg kappa = s0 ->
  drL dr phi0 kappa = ndr dr phi0 kappa dz0 tanl0 x0 y0 z0 x1 y1 z1.
Proof.
  intros Hk' Hs. unfold drL. rewrite (ndr_char _ _ _ _ _ _ _ _ _ _ _ Hk'). rewrite Hs. unfold rho, r, rsigned. f_equal. f_equal.
  f_equal. pose proof s0_sq as S2.
  transitivity ((s0 * s0) * (Xf dr phi0 kappa * Xf dr phi0 kappa + Yf dr phi0 kappa * Yf dr phi0 kappa)); [ring|].
  rewrite S2. unfold Xf, Yf, X, Y, CX, CY, centre_x, centre_y, rsigned. ring.
Qed.

(* ... and the lifted angle is a polar angle of the code's direction sg*(centre - p') wherever it stays in the half plane
   around the direction at the point, hence congruent to the code's phi0' modulo 2 pi there *)
Lemma phiL_is_polar_angle (u1 u2 : R -> R) t0 t :
  u1 t0 = s0 * Xf dr0 phi00 kappa0 -> u2 t0 = s0 * Yf dr0 phi00 kappa0 ->
  0 < u1 t0 * u1 t + u2 t0 * u2 t ->
  u1 t = sqrt (u1 t * u1 t + u2 t * u2 t) * cos (angle_lift u1 u2 t0 th0 t) /\
  u2 t = sqrt (u1 t * u1 t + u2 t * u2 t) * sin (angle_lift u1 u2 t0 th0 t).
Proof.
  intros E1 E2 Hd. destruct U_polar as [P1 P2].
  apply (angle_lift_polar u1 u2 t0 th0 rho0 t rho0_pos); [rewrite E1; exact P1 | rewrite E2; exact P2 | exact Hd].
Qed.

(* ---- move to the same pivot on a canonical helix: the Jacobian is the identity ---- *)
Lemma J_identity_when_nothing_moves : dl0 = 0 -> ndr dr0 phi00 kappa0 dz0 tanl0 x0 y0 z0 x1 y1 z1 = dr0 ->
  P (cp_obj_J00 atan2) = 1 /\ P (cp_obj_J01 atan2) = 0 /\ P (cp_obj_J02 atan2) = 0 /\
  P (cp_obj_J10 atan2) = 0 /\ P (cp_obj_J11 atan2) = 1 /\ P (cp_obj_J12 atan2) = 0 /\
  P (cp_obj_J30 atan2) = 0 /\ P (cp_obj_J31 atan2) = 0 /\ P (cp_obj_J32 atan2) = 0 /\ P (cp_obj_J34 atan2) = 0.
Proof.
  intros Z Ed. destruct J_chars as (C0 & C1 & C2 & C3 & C4 & C5 & C6 & C7 & C8 & C9).
  rewrite C0, C1, C2, C3, C4, C5, C6, C7, C8, C9, Z, cos_0, sin_0.
  assert (E : (r0 + dr0) * (1 / (s0 * rho0)) = 1).
  { pose proof (ndr_plus_r dr0 phi00 kappa0 dz0 tanl0 x0 y0 z0 x1 y1 z1 Hk) as N. rewrite Ed in N. fold r0 s0 rho0 in N.
    rewrite (Rplus_comm r0), N. pose proof rho0_pos. pose proof s0_nz. field. split; lra. }
  repeat split; try ring. 
  - rewrite Rmult_1_r. exact E.
  - rewrite Rmult_1_r, E. ring.
Qed.

End Jac.

(* ---------------- J E J^T: symmetric and positive semi-definite for ANY Jacobian J and symmetric PSD E ---------------- *)
Definition sum5 (f : nat -> R) : R := f 0%nat + f 1%nat + f 2%nat + f 3%nat + f 4%nat.
Definition mmul (A B : nat -> nat -> R) i j := sum5 (fun k => A i k * B k j).
Definition mtr (A : nat -> nat -> R) i j := A j i.
Definition JEJt J E := mmul (mmul J E) (mtr J).
Definition quad (x : nat -> R) (M : nat -> nat -> R) := sum5 (fun i => sum5 (fun j => x i * M i j * x j)).
Definition psd (M : nat -> nat -> R) : Prop := forall x, 0 <= quad x M.
Definition mid (i j : nat) : R := if Nat.eqb i j then 1 else 0.

Lemma quad_JEJt J E x : quad x (JEJt J E) = quad (fun k => sum5 (fun i => x i * J i k)) E.
Proof. unfold quad, JEJt, mmul, mtr, sum5. ring. Qed.

Lemma JEJt_psd J E : psd E -> psd (JEJt J E).
Proof. intros H x. rewrite quad_JEJt. apply H. Qed.

Lemma JEJt_sym J E : (forall i j, E i j = E j i) -> forall i j, JEJt J E i j = JEJt J E j i.
Proof. intros S i j. unfold JEJt, mmul, mtr, sum5.
  rewrite (S 1%nat 0%nat), (S 2%nat 0%nat), (S 3%nat 0%nat), (S 4%nat 0%nat), (S 2%nat 1%nat), (S 3%nat 1%nat), (S 4%nat 1%nat),
    (S 3%nat 2%nat), (S 4%nat 2%nat), (S 4%nat 3%nat). ring. Qed.

Lemma JEJt_identity E i j : (i < 5)%nat -> (j < 5)%nat -> JEJt mid E i j = E i j.
Proof.
  intros Hi Hj. unfold JEJt, mmul, mtr, sum5, mid.
  do 5 (destruct i as [|i]; [do 5 (destruct j as [|j]; [cbn [Nat.eqb]; ring|]); exfalso; lia|]). exfalso; lia.
Qed.

Lemma mid_psd : psd (fun i j => mid i j).
Proof. intro x. unfold quad, sum5, mid. cbn [Nat.eqb].
  assert (forall a, 0 <= a * a) by (intro a; apply Rle_0_sqr).
  pose proof (H (x 0%nat)); pose proof (H (x 1%nat)); pose proof (H (x 2%nat)); pose proof (H (x 3%nat)); pose proof (H (x 4%nat)). nra. Qed.

Lemma jacobian_all atan2 (A2 : atan2_spec atan2) dr0 phi00 kappa0 dz0 tanl0 x0 y0 z0 x1 y1 z1 (Hk : kappa0 <> 0)
  (Hoff : X dr0 phi00 kappa0 x0 x1 <> 0 \/ Y dr0 phi00 kappa0 y0 y1 <> 0) :
  let J f := P dr0 phi00 kappa0 dz0 tanl0 x0 y0 z0 x1 y1 z1 f in
  let th0 := nphi0 atan2 dr0 phi00 kappa0 dz0 tanl0 x0 y0 z0 x1 y1 z1 in
  is_derive (fun t => drL kappa0 x0 y0 x1 y1 t phi00 kappa0) dr0 (J (cp_obj_J00 atan2)) /\
  is_derive (fun t => drL kappa0 x0 y0 x1 y1 dr0 t kappa0) phi00 (J (cp_obj_J01 atan2)) /\
  is_derive (fun t => drL kappa0 x0 y0 x1 y1 dr0 phi00 t) kappa0 (J (cp_obj_J02 atan2)) /\
  J cp_obj_J03 = 0 /\ J cp_obj_J04 = 0 /\
  is_derive (phiL_dr atan2 dr0 phi00 kappa0 dz0 tanl0 x0 y0 z0 x1 y1 z1) dr0 (J (cp_obj_J10 atan2)) /\
  is_derive (phiL_phi atan2 dr0 phi00 kappa0 dz0 tanl0 x0 y0 z0 x1 y1 z1) phi00 (J (cp_obj_J11 atan2)) /\
  is_derive (phiL_kap atan2 dr0 phi00 kappa0 dz0 tanl0 x0 y0 z0 x1 y1 z1) kappa0 (J (cp_obj_J12 atan2)) /\
  J cp_obj_J13 = 0 /\ J cp_obj_J14 = 0 /\
  J cp_obj_J20 = 0 /\ J cp_obj_J21 = 0 /\ J cp_obj_J22 = 1 /\ J cp_obj_J23 = 0 /\ J cp_obj_J24 = 0 /\
  is_derive (fun t => dzL atan2 dr0 phi00 kappa0 dz0 tanl0 x0 y0 z0 x1 y1 z1 (phiL_dr atan2 dr0 phi00 kappa0 dz0 tanl0 x0 y0 z0 x1 y1 z1 t) phi00 kappa0 dz0 tanl0) dr0 (J (cp_obj_J30 atan2)) /\
  is_derive (fun t => dzL atan2 dr0 phi00 kappa0 dz0 tanl0 x0 y0 z0 x1 y1 z1 (phiL_phi atan2 dr0 phi00 kappa0 dz0 tanl0 x0 y0 z0 x1 y1 z1 t) t kappa0 dz0 tanl0) phi00 (J (cp_obj_J31 atan2)) /\
  is_derive (fun t => dzL atan2 dr0 phi00 kappa0 dz0 tanl0 x0 y0 z0 x1 y1 z1 (phiL_kap atan2 dr0 phi00 kappa0 dz0 tanl0 x0 y0 z0 x1 y1 z1 t) phi00 t dz0 tanl0) kappa0 (J (cp_obj_J32 atan2)) /\
  is_derive (fun t => dzL atan2 dr0 phi00 kappa0 dz0 tanl0 x0 y0 z0 x1 y1 z1 th0 phi00 kappa0 t tanl0) dz0 (J cp_obj_J33) /\
  is_derive (fun t => dzL atan2 dr0 phi00 kappa0 dz0 tanl0 x0 y0 z0 x1 y1 z1 th0 phi00 kappa0 dz0 t) tanl0 (J (cp_obj_J34 atan2)) /\
  J cp_obj_J40 = 0 /\ J cp_obj_J41 = 0 /\ J cp_obj_J42 = 0 /\ J cp_obj_J43 = 0 /\ J cp_obj_J44 = 1.
Proof.
  cbv zeta.
  destruct (J_consts dr0 phi00 kappa0 dz0 tanl0 x0 y0 z0 x1 y1 z1) as (K03 & K04 & K13 & K14 & K20 & K21 & K22 & K23 & K24 & K33 & K40 & K41 & K42 & K43 & K44).
  split; [apply J00_ok; assumption|]. split; [apply J01_ok; assumption|]. split; [apply J02_ok; assumption|].
  split; [exact K03|]. split; [exact K04|].
  split; [apply J10_ok; assumption|]. split; [apply J11_ok; assumption|]. split; [apply J12_ok; assumption|].
  split; [exact K13|]. split; [exact K14|]. split; [exact K20|]. split; [exact K21|]. split; [exact K22|]. split; [exact K23|]. split; [exact K24|].
  split; [apply J30_ok; assumption|]. split; [apply J31_ok; assumption|]. split; [apply J32_ok; assumption|].
  split; [apply J33_ok; assumption|]. split; [apply J34_ok; assumption|].
  split; [exact K40|]. split; [exact K41|]. split; [exact K42|]. split; [exact K43|]. exact K44.
Qed.

Lemma local_form_ok atan2 (A2 : atan2_spec atan2) dr0 phi00 kappa0 dz0 tanl0 x0 y0 z0 x1 y1 z1 (Hk : kappa0 <> 0)
  (Hoff : X dr0 phi00 kappa0 x0 x1 <> 0 \/ Y dr0 phi00 kappa0 y0 y1 <> 0) :
  (drL kappa0 x0 y0 x1 y1 dr0 phi00 kappa0 = ndr dr0 phi00 kappa0 dz0 tanl0 x0 y0 z0 x1 y1 z1 /\
   phiL_dr atan2 dr0 phi00 kappa0 dz0 tanl0 x0 y0 z0 x1 y1 z1 dr0 = nphi0 atan2 dr0 phi00 kappa0 dz0 tanl0 x0 y0 z0 x1 y1 z1 /\
   phiL_phi atan2 dr0 phi00 kappa0 dz0 tanl0 x0 y0 z0 x1 y1 z1 phi00 = nphi0 atan2 dr0 phi00 kappa0 dz0 tanl0 x0 y0 z0 x1 y1 z1 /\
   phiL_kap atan2 dr0 phi00 kappa0 dz0 tanl0 x0 y0 z0 x1 y1 z1 kappa0 = nphi0 atan2 dr0 phi00 kappa0 dz0 tanl0 x0 y0 z0 x1 y1 z1 /\
   dzL atan2 dr0 phi00 kappa0 dz0 tanl0 x0 y0 z0 x1 y1 z1 (nphi0 atan2 dr0 phi00 kappa0 dz0 tanl0 x0 y0 z0 x1 y1 z1) phi00 kappa0 dz0 tanl0
     = ndz atan2 dr0 phi00 kappa0 dz0 tanl0 x0 y0 z0 x1 y1 z1) /\
  (forall dr phi0 kappa, kappa <> 0 -> sg kappa = sg kappa0 ->
     drL kappa0 x0 y0 x1 y1 dr phi0 kappa = ndr dr phi0 kappa dz0 tanl0 x0 y0 z0 x1 y1 z1).
Proof.
  split; [apply local_form_at_point; assumption|].
  intros dr phi0 kappa Hk' Hs. apply drL_is_code; assumption.
Qed.
