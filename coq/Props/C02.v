(* C02 — ROOT reads are invariant under entry ranges, chunking and basket layout.
   Statements only (proofs in C02Proofs.v).  Models: PV.Model.AwkList (list-offset arrays), PV.Model.BasketRead
   (uproot's basket selection, uproot_custom AsCustom.final_array, Bes3Interpretation.final_array, the two C++ readers).
   [bs : list (list Ev)] is ANY distribution of a branch's events over consecutive baskets; [dec] the (stateless) decoding of one
   event into its collection elements; all statements are for every number of events, baskets and elements (induction). *)
From Coq Require Import String ZArith Lia Bool List.
Import ListNotations.
From PV.Model Require Import AwkList BasketRead.
From PV.Props Require Import C02Proofs.
Local Open Scope Z_scope.

(* per-basket decoding (offsets restart at 0 in every basket) followed by concatenation with offset re-basing
   = decoding the whole stream with one reader *)
Theorem C02_decode_concat : forall (Ev El : Type) (dec : Ev -> list El) (bs : list (list Ev)),
  bs <> [] -> n_elems dec (concat bs) < 4294967296 ->
  loa_concat_list (map (read_basket dec) bs) = Some (read_basket dec (concat bs)).
Proof. exact @decode_concat. Qed.
Print Assumptions C02_decode_concat.

(* a basket's array is the canonical list-offset array of its events (zero-based offsets = prefix sums of the counts) *)
Theorem C02_read_basket_canonical : forall (Ev El : Type) (dec : Ev -> list El) (evs : list Ev),
  n_elems dec evs < 4294967296 -> read_basket dec evs = of_lists (map dec evs) /\ to_lists (read_basket dec evs) = map dec evs.
Proof. intros. split; [apply read_basket_canonical; assumption|apply full_read_lists; assumption]. Qed.
Print Assumptions C02_read_basket_canonical.

(* every non-empty interval of every basket partition: uproot decodes the overlapping baskets, AsCustom.final_array picks
   basket_start_idx..basket_end_idx, concatenates and trims — the result is the slice [a:b] of the full read *)
Theorem C02_final_array_slice : forall (Ev El : Type) (dec : Ev -> list El) (bs : list (list Ev)) (a b : nat),
  n_elems dec (concat bs) < 4294967296 -> (a < b <= length (concat bs))%nat ->
  exists x, read_range dec bs a b = Some x /\
            to_lists x = firstn (b - a) (skipn a (to_lists (full_read dec (concat bs)))).
Proof. exact @final_array_slice. Qed.
Print Assumptions C02_final_array_slice.

(* final_array never asks for a basket uproot did not decode (no KeyError), for every partition and interval *)
Theorem C02_only_loaded_baskets_used : forall (sizes : list nat) (a b si ei : nat),
  (a < b <= nsum sizes)%nat ->
  basket_range (Z.of_nat a) (Z.of_nat b) (entry_offsets sizes) = Some (si, ei) ->
  (si <= ei < length sizes)%nat /\
  forall i, (si <= i <= ei)%nat -> loaded (entry_offsets sizes) (Z.of_nat a) (Z.of_nat b) i = true.
Proof.
  intros sizes a b si ei Hab Er. split.
  - destruct (basket_range_spec sizes (a := a) (b := b) Hab) as (si' & ei' & Er' & Hse & _).
    rewrite Er in Er'. injection Er' as <- <-. exact Hse.
  - apply (range_loaded sizes (a := a) (b := b) (si := si) (ei := ei) Hab Er).
Qed.
Print Assumptions C02_only_loaded_baskets_used.

(* the result does not depend on how the events are distributed over baskets *)
Theorem C02_basket_layout_independent : forall (Ev El : Type) (dec : Ev -> list El) (bs1 bs2 : list (list Ev)) (a b : nat),
  concat bs1 = concat bs2 -> n_elems dec (concat bs1) < 4294967296 -> (a < b <= length (concat bs1))%nat ->
  exists x1 x2, read_range dec bs1 a b = Some x1 /\ read_range dec bs2 a b = Some x2 /\ to_lists x1 = to_lists x2.
Proof. exact @basket_layout_independent. Qed.
Print Assumptions C02_basket_layout_independent.

(* TTree.iterate(step_size): chunks of any size >= 1 concatenate to the full read *)
Theorem C02_chunks_concat : forall (Ev El : Type) (dec : Ev -> list El) (bs : list (list Ev)) (step : nat),
  n_elems dec (concat bs) < 4294967296 -> (1 <= step)%nat ->
  exists xs, mapM (fun r => read_range dec bs (fst r) (snd r)) (iterate_ranges step (length (concat bs))) = Some xs /\
             concat (map (@to_lists El) xs) = to_lists (full_read dec (concat bs)).
Proof. exact @chunks_concat. Qed.
Print Assumptions C02_chunks_concat.

(* uproot.concatenate over any ordered list of files = the individual full reads, in order *)
Theorem C02_files_concat : forall (Ev El : Type) (dec : Ev -> list El) (files : list (list (list Ev))),
  Forall (fun bs => n_elems dec (concat bs) < 4294967296 /\ (0 < length (concat bs))%nat) files ->
  exists xs, mapM (fun bs => read_range dec bs 0 (length (concat bs))) files = Some xs /\
             concat (map (@to_lists El) xs) = map dec (concat (map (@concat Ev) files)) /\
             Forall2 (fun bs x => to_lists x = to_lists (full_read dec (concat bs))) files xs.
Proof. exact @files_concat. Qed.
Print Assumptions C02_files_concat.

(* Bes3Interpretation.final_array post-processes AFTER trimming; an element-wise post-processing commutes with the trimming *)
Theorem C02_postprocess_commutes_with_slice :
  forall (Ev El El2 : Type) (dec : Ev -> list El) (g : El -> El2) (bs : list (list Ev)) (a b : nat),
  n_elems dec (concat bs) < 4294967296 -> (a < b <= length (concat bs))%nat ->
  let offsets := entry_offsets (map (@length Ev) bs) in
  exists y, bes3_final_array (loa_map g) (basket_dict (map (read_basket dec) bs) offsets (Z.of_nat a) (Z.of_nat b))
                             (Z.of_nat a) (Z.of_nat b) offsets = Some y /\
            to_lists y = firstn (b - a) (skipn a (to_lists (loa_map g (full_read dec (concat bs))))) /\
            to_lists y = map (map g) (firstn (b - a) (skipn a (to_lists (full_read dec (concat bs))))).
Proof. intros Ev El El2 dec g. exact (@postprocess_commutes_with_slice Ev El dec El2 g). Qed.
Print Assumptions C02_postprocess_commutes_with_slice.

(* the digi flattening (process_digi_subbranch) only re-arranges columns: flattening the columns and zipping them into rows
   = zipping and flattening every row; hence it is an element-wise map in the sense of the previous theorem *)
Theorem C02_digi_flatten_columnwise : forall (n : nat) (cs : list (string * member column)),
  zip_members n (digi_flatten cs) = map (@digi_flatten Z) (zip_members n cs).
Proof. exact digi_flatten_columnwise. Qed.
Print Assumptions C02_digi_flatten_columnwise.

(* concatenating baskets column by column = appending their rows *)
Theorem C02_columns_concat_rowwise : forall n1 n2 c1 c2,
  map fst c1 = map fst c2 -> Forall (fun kd => length (snd kd) = n1) c1 ->
  zip_cols (n1 + n2) (cols_app c1 c2) = zip_cols n1 c1 ++ zip_cols n2 c2.
Proof. exact zip_cols_app. Qed.
Print Assumptions C02_columns_concat_rowwise.

(* reading a subset of branches gives the same columns (each branch is read by its own interpretation) *)
Theorem C02_branch_subset_same_columns : forall (B V : Type) (read : B -> V) (want : string -> bool) (tree : list (string * B)) k,
  want k = true -> assoc k (tree_arrays read want tree) = assoc k (tree_arrays read (fun _ => true) tree).
Proof. exact @branch_subset_same_columns. Qed.
Print Assumptions C02_branch_subset_same_columns.

(* CGEM cluster reader (sticky version flag): positive statement under the guard the code needs — the class version
   without m_recPositionY (fNBytes 88), or no basket consisting solely of empty events *)
Theorem C02_cgem_partition_ok : forall nb (bs : list (list (list cluster))) (a b : nat),
  (nb = 88 \/ (nb = 96 /\ Forall (fun bk => has_cl bk = true) bs)) ->
  homogeneous nb (concat bs) -> zsum (lens (concat bs)) < 4294967296 -> (a < b <= length (concat bs))%nat ->
  exists x full, cg_read_range bs a b = Some (CgRec (cg_has_y full), x) /\
                 cg_read_basket (concat bs) = Some full /\
                 to_lists x = firstn (b - a) (skipn a (to_lists (cg_arr full))).
Proof. exact cgem_partition_ok. Qed.
Print Assumptions C02_cgem_partition_ok.

(* ... and without the guard the property FAILS on the faithful model (the defect, F9): 2 empty + 3 real events stored as
   baskets 2+3 — values equal the full read, the type is a union instead of the record with m_recPositionY *)
Theorem C02_cgem_partition_refuted :
  exists (bs : list (list (list cluster))) (a b : nat) ty x full,
    homogeneous 96 (concat bs) /\ (a < b <= length (concat bs))%nat /\
    cg_read_range bs a b = Some (ty, x) /\ cg_read_basket (concat bs) = Some full /\
    to_lists x = firstn (b - a) (skipn a (to_lists (cg_arr full))) /\
    ty <> CgRec (cg_has_y full) /\ ty = CgUnion [false; true].
Proof. exact cgem_partition_refuted. Qed.
Print Assumptions C02_cgem_partition_refuted.

Theorem C02_cgem_interval_refuted :
  exists x full, cg_read_range wit_partition 0 2 = Some (CgRec false, x) /\
                 cg_read_basket (concat wit_partition) = Some full /\ cg_has_y full = true /\
                 to_lists x = firstn 2 (to_lists (cg_arr full)).
Proof. exact cgem_interval_refuted. Qed.
Print Assumptions C02_cgem_interval_refuted.

(* ---------------------------------------------------------------- non-vacuity *)
(* 7 events with element counts 2,0,3,1,0,0,2 in baskets of 3+1+3 events; interval [2,6) touches all three baskets *)
Example C02_ex_interval :
  let dec := fun c : Z => map (fun k => c * 10 + Z.of_nat k) (seq 0 (Z.to_nat c)) in
  let bs := [[2; 0; 3]; [1]; [0; 0; 2]] in
  n_elems dec (concat bs) < 4294967296 /\
  option_map (@to_lists Z) (read_range dec bs 2 6) = Some [[30; 31; 32]; [10]; []; []] /\
  basket_range 2 6 (entry_offsets [3; 1; 3]%nat) = Some (0%nat, 2%nat) /\
  offs (read_basket dec [0; 0; 2]) = [0; 0; 0; 2].
Proof. vm_compute. repeat split; try reflexivity. Qed.

Example C02_ex_iterate : iterate_ranges 4 10 = [(0, 4); (4, 8); (8, 10)]%nat.
Proof. reflexivity. Qed.

(* the guard of C02_cgem_partition_ok is satisfiable with the version that has m_recPositionY, and gives a record WITH the field *)
Example C02_ex_cgem_guard :
  let bs := [[[wit_cluster 1]; []]; [[]; [wit_cluster 2; wit_cluster 3]]] in
  Forall (fun bk => has_cl bk = true) bs /\ homogeneous 96 (concat bs) /\
  option_map fst (cg_read_range bs 1 4) = Some (CgRec true).
Proof. split; [repeat constructor|]. split; [repeat constructor|vm_compute; reflexivity]. Qed.

(* the digi flattening on a concrete record of columns *)
Example C02_ex_digi_flatten :
  digi_flatten [("TRawData", inr [("m_intId", [1; 2]); ("m_timeChannel", [3; 4])]); ("m_overflow", inl [5; 6])]%string
  = [("m_intId", inl [1; 2]); ("m_timeChannel", inl [3; 4]); ("m_overflow", inl [5; 6])]%string.
Proof. reflexivity. Qed.
