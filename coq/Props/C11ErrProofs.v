(* C11 / C12 — the error matrix is part of "the same result": the REGENERATED Jacobian of the pivot change obeys the chain rule.
   J(h -> p2) = J(h1 -> p2) * J(h -> p1) whenever the two turning angles add up inside half a turn, hence moving an error matrix
   through an intermediate pivot gives the matrix of the direct move; and by induction for every finite sequence of pivots. *)
From Coq Require Import Reals Lra Lia ZArith List.
From PV.Lib Require Import RealAux.
From PV.Model Require Import HelixSpec.
From PV.Gen Require Import HelixCode.
From PV.Props Require Import HelixCommon HelixLaws C12Proofs.
Import ListNotations.
Local Open Scope R_scope.

(* the Jacobian as a function of what it depends on: signed radius, kappa, tanl, r + dr (old), 1 / (r + dr') (new), turning angle *)
Definition Jabs (rr kap tl rdr irdr dl : R) (i j : nat) : R :=
  match i, j with
  | 0%nat, 0%nat => cos dl | 0%nat, 1%nat => rdr * sin dl | 0%nat, 2%nat => rr / kap * (1 - cos dl)
  | 1%nat, 0%nat => - irdr * sin dl | 1%nat, 1%nat => rdr * irdr * cos dl | 1%nat, 2%nat => rr / kap * irdr * sin dl
  | 2%nat, 2%nat => 1
  | 3%nat, 0%nat => rr * irdr * tl * sin dl | 3%nat, 1%nat => rr * tl * (1 - rdr * irdr * cos dl)
  | 3%nat, 2%nat => rr / kap * tl * (dl - rr * irdr * sin dl) | 3%nat, 3%nat => 1 | 3%nat, 4%nat => - rr * dl
  | 4%nat, 4%nat => 1
  | _, _ => 0
  end.

(* the code's matrix (entries of the regenerated cp_obj_J.. evaluated with r = HelixObject.radius) *)
Definition Jcode (atan2 : R -> R -> R) (dr phi0 kappa dz tanl x0 y0 z0 x1 y1 z1 : R) (i j : nat) : R :=
  let Pc := P dr phi0 kappa dz tanl x0 y0 z0 x1 y1 z1 in
  match i, j with
  | 0%nat, 0%nat => Pc (cp_obj_J00 atan2) | 0%nat, 1%nat => Pc (cp_obj_J01 atan2) | 0%nat, 2%nat => Pc (cp_obj_J02 atan2) | 0%nat, 3%nat => Pc cp_obj_J03 | 0%nat, 4%nat => Pc cp_obj_J04
  | 1%nat, 0%nat => Pc (cp_obj_J10 atan2) | 1%nat, 1%nat => Pc (cp_obj_J11 atan2) | 1%nat, 2%nat => Pc (cp_obj_J12 atan2) | 1%nat, 3%nat => Pc cp_obj_J13 | 1%nat, 4%nat => Pc cp_obj_J14
  | 2%nat, 0%nat => Pc cp_obj_J20 | 2%nat, 1%nat => Pc cp_obj_J21 | 2%nat, 2%nat => Pc cp_obj_J22 | 2%nat, 3%nat => Pc cp_obj_J23 | 2%nat, 4%nat => Pc cp_obj_J24
  | 3%nat, 0%nat => Pc (cp_obj_J30 atan2) | 3%nat, 1%nat => Pc (cp_obj_J31 atan2) | 3%nat, 2%nat => Pc (cp_obj_J32 atan2) | 3%nat, 3%nat => Pc cp_obj_J33 | 3%nat, 4%nat => Pc (cp_obj_J34 atan2)
  | 4%nat, 0%nat => Pc cp_obj_J40 | 4%nat, 1%nat => Pc cp_obj_J41 | 4%nat, 2%nat => Pc cp_obj_J42 | 4%nat, 3%nat => Pc cp_obj_J43 | 4%nat, 4%nat => Pc cp_obj_J44
  | _, _ => 0
  end.

Lemma Jcode_is_Jabs atan2 dr phi0 kappa dz tanl x0 y0 z0 x1 y1 z1 : kappa <> 0 -> forall i j,
  Jcode atan2 dr phi0 kappa dz tanl x0 y0 z0 x1 y1 z1 i j =
  Jabs (r kappa) kappa tanl (r kappa + dr) (1 / (sg kappa * rho dr phi0 kappa x0 y0 x1 y1))
       (dphi atan2 dr phi0 kappa dz tanl x0 y0 z0 x1 y1 z1) i j.
Proof.
  intros Hk i j.
  destruct (J_chars atan2 dr phi0 kappa dz tanl x0 y0 z0 x1 y1 z1 Hk) as (C00 & C01 & C02 & C10 & C11 & C12 & C30 & C31 & C32 & C34).
  destruct (J_consts dr phi0 kappa dz tanl x0 y0 z0 x1 y1 z1) as (K03 & K04 & K13 & K14 & K20 & K21 & K22 & K23 & K24 & K33 & K40 & K41 & K42 & K43 & K44).
  destruct i as [|[|[|[|[|i]]]]]; destruct j as [|[|[|[|[|j]]]]]; cbn [Jcode Jabs]; try assumption; try reflexivity.
Qed.

(* ---- the chain rule on the abstract form: pure trigonometry (addition formulas), given (r + dr_mid) * 1/(r + dr_mid) = 1 *)
Lemma Jabs_chain rr kap tl rdr1 rdr2 irdr3 d12 d23 : kap <> 0 -> rdr2 <> 0 -> forall i j, (i < 5)%nat -> (j < 5)%nat ->
  mmul (Jabs rr kap tl rdr2 irdr3 d23) (Jabs rr kap tl rdr1 (1 / rdr2) d12) i j = Jabs rr kap tl rdr1 irdr3 (d12 + d23) i j.
Proof.
  intros Hkap Hn i j Hi Hj.
  destruct i as [|[|[|[|[|i]]]]]; [| | | | |lia]; (destruct j as [|[|[|[|[|j]]]]]; [| | | | |lia]);
    unfold mmul, sum5; cbn [Jabs]; rewrite ?sin_plus, ?cos_plus; field; repeat split; assumption.
Qed.

(* (A (B E B^T) A^T) = (A B) E (A B)^T, entry by entry *)
Lemma JEJt_compose A B E i j : JEJt A (JEJt B E) i j = JEJt (mmul A B) E i j.
Proof. unfold JEJt, mmul, mtr, sum5. ring. Qed.

Lemma JEJt_ext J J' E : (forall i j, (i < 5)%nat -> (j < 5)%nat -> J i j = J' i j) ->
  forall i j, (i < 5)%nat -> (j < 5)%nat -> JEJt J E i j = JEJt J' E i j.
Proof.
  intros H i j Hi Hj. unfold JEJt, mmul, mtr, sum5.
  rewrite !(H i) by lia. rewrite !(H j) by lia. reflexivity.
Qed.

Lemma last_default_irrelevant {A} (l : list A) : forall a d d', last (a :: l) d = last (a :: l) d'.
Proof. induction l as [|b l IH]; intros a d d'; [reflexivity|]. change (last (b :: l) d = last (b :: l) d'). apply IH. Qed.
Lemma last_shift {A} (l : list A) p q : last (p :: l) q = last l p.
Proof. destruct l as [|a l]; [reflexivity|]. change (last (a :: l) q = last (a :: l) p). apply last_default_irrelevant. Qed.

Section Chain.
Variable atan2 : R -> R -> R.
Hypothesis A2 : atan2_spec atan2.
Variables kappa tanl : R.
Hypothesis Hk : kappa <> 0.

Definition Jmove (h : hstate) (p : R * R * R) : nat -> nat -> R :=
  let '(x1, y1, z1) := p in Jcode atan2 (h_dr h) (h_phi0 h) kappa (h_dz h) tanl (h_x h) (h_y h) (h_z h) x1 y1 z1.
Definition turn (h : hstate) (p : R * R * R) : R :=
  let '(x1, y1, z1) := p in dphi atan2 (h_dr h) (h_phi0 h) kappa (h_dz h) tanl (h_x h) (h_y h) (h_z h) x1 y1 z1.
Definition rho_of (h : hstate) (p : R * R * R) : R :=
  let '(x1, y1, z1) := p in rho (h_dr h) (h_phi0 h) kappa (h_x h) (h_y h) x1 y1.

Lemma rho_by_centre h h' p : hcx kappa h = hcx kappa h' -> hcy kappa h = hcy kappa h' -> rho_of h p = rho_of h' p.
Proof.
  destruct p as [[x1 y1] z1]. unfold hcx, hcy, rho_of, rho, X, Y, CX, CY. intros EX EY. rewrite EX, EY. reflexivity.
Qed.

(* within half a turn the turning angles add up exactly (the congruence of HelixLaws pinned down by the range of dphi) *)
Lemma turns_add h p1 p2 : off_centre kappa h p1 ->
  - PI < turn h p1 + turn (move atan2 kappa tanl h p1) p2 < PI ->
  turn h p2 = turn h p1 + turn (move atan2 kappa tanl h p1) p2.
Proof.
  intros Ho Hs. destruct p1 as [[x1 y1] z1], p2 as [[x2 y2] z2].
  destruct (move_centre atan2 A2 kappa tanl Hk h (x1, y1, z1) Ho) as [EX EY].
  destruct (move_dr_phi_by_centre atan2 kappa tanl Hk (move atan2 kappa tanl h (x1, y1, z1)) h (x2, y2, z2) EX EY) as [_ EP].
  destruct h as [dr phi0 dz x0 y0 z0]. unfold turn in *. cbn [move h_dr h_phi0 h_dz h_x h_y h_z] in *.
  set (D01 := dphi atan2 dr phi0 kappa dz tanl x0 y0 z0 x1 y1 z1) in *.
  set (d1 := ndr dr phi0 kappa dz tanl x0 y0 z0 x1 y1 z1) in *.
  set (f1 := nphi0 atan2 dr phi0 kappa dz tanl x0 y0 z0 x1 y1 z1) in *.
  set (z1' := ndz atan2 dr phi0 kappa dz tanl x0 y0 z0 x1 y1 z1) in *.
  set (D12 := dphi atan2 d1 f1 kappa z1' tanl x1 y1 z1 x2 y2 z2) in *.
  set (D02 := dphi atan2 dr phi0 kappa dz tanl x0 y0 z0 x2 y2 z2).
  destruct (dphi_cong atan2 dr phi0 kappa dz tanl x0 y0 z0 x1 y1 z1) as [k1 H1]. fold D01 f1 in H1.
  destruct (dphi_cong atan2 dr phi0 kappa dz tanl x0 y0 z0 x2 y2 z2) as [k3 H3]. fold D02 in H3.
  destruct (dphi_cong atan2 d1 f1 kappa z1' tanl x1 y1 z1 x2 y2 z2) as [k2 H2]. fold D12 in H2.
  pose proof (dphi_range atan2 dr phi0 kappa dz tanl x0 y0 z0 x2 y2 z2) as R3. fold D02 in R3.
  assert (ES : D01 + D12 = D02 + 2 * IZR (k1 + k2 - k3) * PI).
  { rewrite minus_IZR, plus_IZR. rewrite H1, H2, H3. rewrite EP. ring. }
  assert (K : (k1 + k2 - k3 = 0)%Z).
  { apply IZR_small. pose proof PI_RGT_0. split; apply (Rmult_lt_reg_r (2 * PI)); lra. }
  rewrite K in ES. simpl in ES. lra.
Qed.

(* chain rule for the regenerated code: one intermediate pivot *)
Lemma jacobian_chain_2 h p1 p2 : off_centre kappa h p1 ->
  - PI < turn h p1 + turn (move atan2 kappa tanl h p1) p2 < PI ->
  forall i j, (i < 5)%nat -> (j < 5)%nat ->
  mmul (Jmove (move atan2 kappa tanl h p1) p2) (Jmove h p1) i j = Jmove h p2 i j.
Proof.
  intros Ho Hs i j Hi Hj.
  pose proof (turns_add h p1 p2 Ho Hs) as ET.
  destruct (move_centre atan2 A2 kappa tanl Hk h p1 Ho) as [EX EY].
  pose proof (rho_by_centre (move atan2 kappa tanl h p1) h p2 EX EY) as ER.
  destruct p1 as [[x1 y1] z1], p2 as [[x2 y2] z2]. destruct h as [dr phi0 dz x0 y0 z0].
  unfold Jmove, turn, rho_of in *. cbn [move h_dr h_phi0 h_dz h_x h_y h_z] in *.
  assert (Hoff : X dr phi0 kappa x0 x1 <> 0 \/ Y dr phi0 kappa y0 y1 <> 0) by exact Ho.
  pose proof (rho_pos dr phi0 kappa x0 y0 x1 y1 Hoff) as RP.
  pose proof (ndr_plus_r dr phi0 kappa dz tanl x0 y0 z0 x1 y1 z1 Hk) as NR.
  pose proof (sg_sq kappa Hk) as SS.
  assert (SN : sg kappa * rho dr phi0 kappa x0 y0 x1 y1 <> 0) by (intro Z; assert (sg kappa * sg kappa * rho dr phi0 kappa x0 y0 x1 y1 = 0) by (rewrite Rmult_assoc, Z; ring); rewrite SS in *; lra).
  unfold mmul, sum5. rewrite !Jcode_is_Jabs by exact Hk.
  replace (r kappa + ndr dr phi0 kappa dz tanl x0 y0 z0 x1 y1 z1) with (sg kappa * rho dr phi0 kappa x0 y0 x1 y1) by lra.
  rewrite ER, ET.
  exact (Jabs_chain (r kappa) kappa tanl (r kappa + dr) (sg kappa * rho dr phi0 kappa x0 y0 x1 y1) _ _ _ Hk SN i j Hi Hj).
Qed.

(* the propagated matrix: through an intermediate pivot = directly *)
Lemma error_path_independent_2 h p1 p2 E : off_centre kappa h p1 ->
  - PI < turn h p1 + turn (move atan2 kappa tanl h p1) p2 < PI ->
  forall i j, (i < 5)%nat -> (j < 5)%nat ->
  JEJt (Jmove (move atan2 kappa tanl h p1) p2) (JEJt (Jmove h p1) E) i j = JEJt (Jmove h p2) E i j.
Proof.
  intros Ho Hs i j Hi Hj. rewrite JEJt_compose.
  apply JEJt_ext; [|assumption|assumption]. intros a b Ha Hb. apply jacobian_chain_2; assumption.
Qed.

(* ---- everything above reads a state only through dr, phi0 and the pivot: two states that differ in dz alone behave alike ---- *)
Definition same_but_dz (h h' : hstate) : Prop :=
  h_dr h = h_dr h' /\ h_phi0 h = h_phi0 h' /\ h_x h = h_x h' /\ h_y h = h_y h' /\ h_z h = h_z h'.

Lemma dphi_no_dz dr phi0 dz dz' x0 y0 z0 x1 y1 z1 :
  dphi atan2 dr phi0 kappa dz tanl x0 y0 z0 x1 y1 z1 = dphi atan2 dr phi0 kappa dz' tanl x0 y0 z0 x1 y1 z1.
Proof. rewrite !(dphi_char atan2). cbv zeta. rewrite !(nphi0_char atan2 _ _ _ _ _ _ _ _ _ _ _ Hk). reflexivity. Qed.

Lemma same_turn h h' p : same_but_dz h h' -> turn h p = turn h' p.
Proof.
  destruct p as [[x1 y1] z1]. destruct h as [dr phi0 dz x0 y0 z0], h' as [dr' phi0' dz' x0' y0' z0'].
  unfold same_but_dz, turn. cbn [h_dr h_phi0 h_dz h_x h_y h_z]. intros (-> & -> & -> & -> & ->). apply dphi_no_dz.
Qed.

Lemma same_Jmove h h' p : same_but_dz h h' -> forall i j, Jmove h p i j = Jmove h' p i j.
Proof.
  intros S i j. pose proof (same_turn h h' p S) as ET.
  destruct p as [[x1 y1] z1]. destruct h as [dr phi0 dz x0 y0 z0], h' as [dr' phi0' dz' x0' y0' z0'].
  unfold same_but_dz, Jmove, turn in *. cbn [h_dr h_phi0 h_dz h_x h_y h_z] in *. destruct S as (-> & -> & -> & -> & ->).
  rewrite !Jcode_is_Jabs by exact Hk. rewrite ET. reflexivity.
Qed.

Lemma same_off_centre h h' p : same_but_dz h h' -> off_centre kappa h p -> off_centre kappa h' p.
Proof.
  destruct h as [dr phi0 dz x0 y0 z0], h' as [dr' phi0' dz' x0' y0' z0'].
  unfold same_but_dz, off_centre, hcx, hcy. cbn [h_dr h_phi0 h_dz h_x h_y h_z]. intros (-> & -> & -> & -> & ->) H. exact H.
Qed.

Lemma same_move h h' p : same_but_dz h h' -> same_but_dz (move atan2 kappa tanl h p) (move atan2 kappa tanl h' p).
Proof.
  destruct p as [[x1 y1] z1]. destruct h as [dr phi0 dz x0 y0 z0], h' as [dr' phi0' dz' x0' y0' z0'].
  unfold same_but_dz. cbn [move h_dr h_phi0 h_dz h_x h_y h_z]. intros (-> & -> & -> & -> & ->).
  split; [rewrite !(ndr_char _ _ _ _ _ _ _ _ _ _ _ Hk); reflexivity|].
  split; [rewrite !(nphi0_char atan2 _ _ _ _ _ _ _ _ _ _ _ Hk); reflexivity|].
  split; [reflexivity|]. split; reflexivity.
Qed.

Lemma same_sym h h' : same_but_dz h h' -> same_but_dz h' h.
Proof. unfold same_but_dz. intros (A & B & C & D & F). repeat split; symmetry; assumption. Qed.

(* the move through an intermediate pivot ends in the state of the direct move, dz apart (HelixLaws.path_independent_2) *)
Lemma two_moves_same h p1 p2 : off_centre kappa h p1 ->
  same_but_dz (move atan2 kappa tanl (move atan2 kappa tanl h p1) p2) (move atan2 kappa tanl h p2).
Proof.
  intro Ho. destruct (path_independent_2 atan2 A2 kappa tanl Hk h p1 p2 Ho) as (ED & EP & EXYZ & _).
  unfold same_but_dz. injection EXYZ as E1 E2 E3. repeat split; assumption.
Qed.

(* ---- there and back: the matrix returns to itself (canonical start, turning angle not the half turn) ---- *)
Lemma turn_to_own_pivot h : canonical kappa h -> turn h (h_x h, h_y h, h_z h) = 0.
Proof.
  intro Hc. pose proof (pivot_identity atan2 A2 kappa tanl Hk h Hc) as Id.
  assert (EP : h_phi0 (move atan2 kappa tanl h (h_x h, h_y h, h_z h)) = h_phi0 h) by (rewrite Id; reflexivity).
  destruct h as [dr phi0 dz x0 y0 z0]. unfold turn. cbn [move h_dr h_phi0 h_dz h_x h_y h_z] in *.
  destruct (dphi_cong atan2 dr phi0 kappa dz tanl x0 y0 z0 x0 y0 z0) as [k Hk'].
  pose proof (dphi_range atan2 dr phi0 kappa dz tanl x0 y0 z0 x0 y0 z0) as Rg.
  rewrite EP in Hk'. replace (phi0 - phi0 + 2 * IZR k * PI) with (2 * IZR k * PI) in Hk' by ring.
  assert (K : k = 0%Z).
  { apply IZR_small. pose proof PI_RGT_0. split; apply (Rmult_lt_reg_r (2 * PI)); lra. }
  rewrite K in Hk'. simpl in Hk'. lra.
Qed.

Lemma canonical_off_own_pivot h : canonical kappa h -> off_centre kappa h (h_x h, h_y h, h_z h).
Proof.
  intros [C1 _]. destruct h as [dr phi0 dz x0 y0 z0]. unfold off_centre, hcx, hcy, centre_x, centre_y. cbn [h_dr h_phi0 h_x h_y fst snd] in *.
  assert (Hc : dr + rsigned kappa <> 0).
  { intro Z. unfold r in C1. rewrite Z in C1. lra. }
  destruct (Req_dec (cos phi0) 0) as [C|C]; [right|left].
  - pose proof (sin2_cos2 phi0) as E. unfold Rsqr in E. rewrite C in E. assert (sin phi0 <> 0) by nra. nra.
  - nra.
Qed.

Lemma Jmove_own_pivot_is_identity h : canonical kappa h -> off_centre kappa h (h_x h, h_y h, h_z h) ->
  forall i j, (i < 5)%nat -> (j < 5)%nat -> Jmove h (h_x h, h_y h, h_z h) i j = mid i j.
Proof.
  intros Hc Ho i j Hi Hj. pose proof (turn_to_own_pivot h Hc) as T0.
  pose proof (pivot_identity atan2 A2 kappa tanl Hk h Hc) as Id.
  assert (ED : h_dr (move atan2 kappa tanl h (h_x h, h_y h, h_z h)) = h_dr h) by (rewrite Id; reflexivity).
  destruct h as [dr phi0 dz x0 y0 z0]. unfold turn, Jmove in *. cbn [move h_dr h_phi0 h_dz h_x h_y h_z] in *.
  assert (Hoff : X dr phi0 kappa x0 x0 <> 0 \/ Y dr phi0 kappa y0 y0 <> 0) by exact Ho.
  destruct (J_identity_when_nothing_moves atan2 dr phi0 kappa dz tanl x0 y0 z0 x0 y0 z0 Hk Hoff T0 ED)
    as (I00 & I01 & I02 & I10 & I11 & I12 & I30 & I31 & I32 & I34).
  destruct (J_consts dr phi0 kappa dz tanl x0 y0 z0 x0 y0 z0) as (K03 & K04 & K13 & K14 & K20 & K21 & K22 & K23 & K24 & K33 & K40 & K41 & K42 & K43 & K44).
  destruct i as [|[|[|[|[|i]]]]]; [| | | | |lia]; (destruct j as [|[|[|[|[|j]]]]]; [| | | | |lia]);
    cbn [Jcode mid Nat.eqb]; assumption.
Qed.

Lemma error_there_and_back h p E : canonical kappa h -> off_centre kappa h p -> turn h p <> PI ->
  forall i j, (i < 5)%nat -> (j < 5)%nat ->
  JEJt (Jmove (move atan2 kappa tanl h p) (h_x h, h_y h, h_z h)) (JEJt (Jmove h p) E) i j = E i j.
Proof.
  intros Hc Ho Hne i j Hi Hj. pose proof (canonical_off_own_pivot h Hc) as Ho0.
  set (p0 := (h_x h, h_y h, h_z h)) in *.
  (* the two turning angles are congruent to the direct one (0) and each lies in (-pi, pi]: their sum is 0 unless both are pi *)
  assert (S0 : turn h p + turn (move atan2 kappa tanl h p) p0 = 0).
  { pose proof (turn_to_own_pivot h Hc) as T0. fold p0 in T0.
    destruct (move_centre atan2 A2 kappa tanl Hk h p Ho) as [EX EY].
    destruct (move_dr_phi_by_centre atan2 kappa tanl Hk (move atan2 kappa tanl h p) h p0 EX EY) as [_ EP].
    destruct p as [[x1 y1] z1]. subst p0. destruct h as [dr phi0 dz x0 y0 z0]. unfold turn in *.
    cbn [move h_dr h_phi0 h_dz h_x h_y h_z] in *.
    set (D01 := dphi atan2 dr phi0 kappa dz tanl x0 y0 z0 x1 y1 z1) in *.
    set (d1 := ndr dr phi0 kappa dz tanl x0 y0 z0 x1 y1 z1) in *.
    set (f1 := nphi0 atan2 dr phi0 kappa dz tanl x0 y0 z0 x1 y1 z1) in *.
    set (z1' := ndz atan2 dr phi0 kappa dz tanl x0 y0 z0 x1 y1 z1) in *.
    set (D12 := dphi atan2 d1 f1 kappa z1' tanl x1 y1 z1 x0 y0 z0) in *.
    set (D02 := dphi atan2 dr phi0 kappa dz tanl x0 y0 z0 x0 y0 z0) in *.
    destruct (dphi_cong atan2 dr phi0 kappa dz tanl x0 y0 z0 x1 y1 z1) as [k1 H1]. fold D01 f1 in H1.
    destruct (dphi_cong atan2 dr phi0 kappa dz tanl x0 y0 z0 x0 y0 z0) as [k3 H3]. fold D02 in H3.
    destruct (dphi_cong atan2 d1 f1 kappa z1' tanl x1 y1 z1 x0 y0 z0) as [k2 H2]. fold D12 in H2.
    pose proof (dphi_range atan2 dr phi0 kappa dz tanl x0 y0 z0 x1 y1 z1) as R1. fold D01 in R1.
    pose proof (dphi_range atan2 d1 f1 kappa z1' tanl x1 y1 z1 x0 y0 z0) as R2. fold D12 in R2.
    assert (ES : D01 + D12 = D02 + 2 * IZR (k1 + k2 - k3) * PI).
    { rewrite minus_IZR, plus_IZR. rewrite H1, H2, H3. rewrite EP. ring. }
    rewrite T0 in ES. pose proof PI_RGT_0.
    assert (KK : (k1 + k2 - k3 = 0)%Z).
    { assert (D01 < PI) by lra.       (* D01 <= pi and D01 <> pi: so D01 + D12 < 2 pi *)
      apply IZR_small. split; apply (Rmult_lt_reg_r (2 * PI)); lra. }
    rewrite KK in ES. simpl in ES. lra. }
  assert (Hs : - PI < turn h p + turn (move atan2 kappa tanl h p) p0 < PI) by (rewrite S0; pose proof PI_RGT_0; lra).
  rewrite (error_path_independent_2 h p p0 E Ho Hs i j Hi Hj). subst p0.
  rewrite (JEJt_ext (Jmove h (h_x h, h_y h, h_z h)) (fun a b => mid a b) E (Jmove_own_pivot_is_identity h Hc Ho0) i j Hi Hj).
  apply JEJt_identity; assumption.
Qed.

(* ---- any finite sequence of pivots ---- *)
Fixpoint carry (h : hstate) (ps : list (R * R * R)) (E : nat -> nat -> R) : nat -> nat -> R :=
  match ps with [] => E | p :: rest => carry (move atan2 kappa tanl h p) rest (JEJt (Jmove h p) E) end.

(* the accumulated turning angle stays inside half a turn at every step *)
Fixpoint turns_within (h : hstate) (acc : R) (ps : list (R * R * R)) : Prop :=
  match ps with
  | [] => True
  | p :: rest => - PI < acc + turn h p < PI /\ turns_within (move atan2 kappa tanl h p) (acc + turn h p) rest
  end.

Lemma carry_ext ps : forall h E E', (forall i j, (i < 5)%nat -> (j < 5)%nat -> E i j = E' i j) ->
  forall i j, (i < 5)%nat -> (j < 5)%nat -> carry h ps E i j = carry h ps E' i j.
Proof.
  induction ps as [|p rest IH]; intros h E E' H i j Hi Hj; cbn [carry]; [apply H; assumption|].
  apply IH; [|assumption|assumption]. intros a b Ha Hb. unfold JEJt, mmul, mtr, sum5.
  rewrite !H by lia. reflexivity.
Qed.

Lemma JEJt_ext2 J J' E E' : (forall i j, J i j = J' i j) -> (forall i j, (i < 5)%nat -> (j < 5)%nat -> E i j = E' i j) ->
  forall i j, JEJt J E i j = JEJt J' E' i j.
Proof. intros HJ HE i j. unfold JEJt, mmul, mtr, sum5. rewrite !HJ. rewrite !HE by lia. reflexivity. Qed.

(* invariant: having come from h0 directly to pivot q (state h up to dz) with accumulated angle turn h0 q, carrying the directly
   moved matrix on through ps gives the matrix of the direct move from h0 to the last pivot *)
Lemma error_path_independent_gen ps : forall h0 q h E,
  same_but_dz h (move atan2 kappa tanl h0 q) -> off_centre kappa h0 q ->
  turns_within h (turn h0 q) ps -> all_off_centre atan2 kappa tanl h ps ->
  forall i j, (i < 5)%nat -> (j < 5)%nat ->
  carry h ps (JEJt (Jmove h0 q) E) i j = JEJt (Jmove h0 (last ps q)) E i j.
Proof.
  induction ps as [|p rest IH]; intros h0 q h E S Hq TW AO i j Hi Hj; [reflexivity|].
  cbn [carry]. destruct TW as [T1 TW]. destruct AO as [O1 AO].
  pose proof (same_turn h _ p S) as ETp. rewrite ETp in T1.
  assert (Hstep : forall a b, (a < 5)%nat -> (b < 5)%nat ->
            JEJt (Jmove h p) (JEJt (Jmove h0 q) E) a b = JEJt (Jmove h0 p) E a b).
  { intros a b Ha Hb.
    rewrite (JEJt_ext2 (Jmove h p) (Jmove (move atan2 kappa tanl h0 q) p) _ (JEJt (Jmove h0 q) E) (same_Jmove h _ p S) (fun _ _ _ _ => eq_refl)).
    apply error_path_independent_2; assumption. }
  rewrite (carry_ext rest _ _ (JEJt (Jmove h0 p) E) Hstep i j Hi Hj).
  assert (O0 : off_centre kappa h0 p).
  { destruct (move_centre atan2 A2 kappa tanl Hk h0 q Hq) as [EX EY].
    pose proof (same_off_centre h _ p S O1) as O1'. unfold off_centre in *. rewrite <- EX, <- EY. exact O1'. }
  assert (ET : turn h0 p = turn h0 q + turn h p).
  { rewrite ETp. apply turns_add; assumption. }
  assert (S' : same_but_dz (move atan2 kappa tanl h p) (move atan2 kappa tanl h0 p)).
  { pose proof (same_move h _ p S) as M1. pose proof (two_moves_same h0 q p Hq) as M2.
    unfold same_but_dz in *. destruct M1 as (A1 & B1 & C1 & D1 & F1), M2 as (A2' & B2 & C2 & D2 & F2).
    repeat split; etransitivity; eassumption. }
  rewrite <- ET in TW.
  rewrite last_shift.
  exact (IH h0 p (move atan2 kappa tanl h p) E S' O0 TW AO i j Hi Hj).
Qed.

(* C11 for the error matrix: any finite sequence of pivots = the direct move to the last one *)
Theorem error_path_independent h q ps E : off_centre kappa h q ->
  turns_within (move atan2 kappa tanl h q) (turn h q) ps -> all_off_centre atan2 kappa tanl (move atan2 kappa tanl h q) ps ->
  forall i j, (i < 5)%nat -> (j < 5)%nat ->
  carry h (q :: ps) E i j = JEJt (Jmove h (last ps q)) E i j.
Proof.
  intros Hq TW AO i j Hi Hj. cbn [carry].
  apply error_path_independent_gen; try assumption.
  unfold same_but_dz. repeat split; reflexivity.
Qed.

End Chain.

(* the hypotheses are satisfiable: a concrete helix and two pivots (computed with the constructive atan2 of RealAux) *)
Definition hex : hstate := {| h_dr := 1; h_phi0 := 1; h_dz := 0; h_x := 0; h_y := 0; h_z := 0 |}.
Lemma chain_hyps_example :
  off_centre 2 hex (0, 0, 0) /\
  turns_within atan2_c 2 1 (move atan2_c 2 1 hex (0, 0, 0)) (turn atan2_c 2 1 hex (0, 0, 0)) [(0, 0, 0)] /\
  all_off_centre atan2_c 2 1 (move atan2_c 2 1 hex (0, 0, 0)) [(0, 0, 0)].
Proof.
  assert (K2 : (2 : R) <> 0) by lra.
  pose proof canonical_example as CE. change (canonical 2 hex) in CE.
  pose proof (pivot_identity atan2_c atan2_c_spec 2 1 K2 hex CE) as PI0.
  change (move atan2_c 2 1 hex (0, 0, 0) = hex) in PI0.
  assert (R2 : r 2 <> 0).
  { unfold r, rsigned, alpha. intro Z. assert (0 < 1000 / (299792458 / 100000000)) by (apply Rdiv_lt_0_compat; lra).
    unfold Rdiv in *. nra. }
  assert (T0 : turn atan2_c 2 1 hex (0, 0, 0) = 0).
  { assert (EZ : h_dz (move atan2_c 2 1 hex (0, 0, 0)) = h_dz hex) by (rewrite PI0; reflexivity).
    unfold turn. unfold hex in *. cbn [move h_dr h_phi0 h_dz h_x h_y h_z] in *.
    rewrite (ndz_char atan2_c _ _ _ _ _ _ _ _ _ _ _ K2) in EZ.
    set (D := dphi atan2_c 1 1 2 0 1 0 0 0 0 0 0) in *. nra. }
  assert (OC : off_centre 2 hex (0, 0, 0)).
  { destruct CE as [C1 _]. unfold off_centre, hcx, hcy, centre_x, centre_y, hex in *. cbn [h_dr h_phi0 h_x h_y fst snd] in *.
    assert (Hc : (1 + rsigned 2) <> 0).
    { intro Z. unfold r in C1. rewrite Z in C1. lra. }
    destruct (Req_dec (cos 1) 0) as [C|C]; [right|left].
    - pose proof (sin2_cos2 1) as E. unfold Rsqr in E. rewrite C in E. assert (sin 1 <> 0) by nra. nra.
    - nra. }
  split; [exact OC|]. rewrite PI0. cbn [turns_within all_off_centre]. rewrite ?PI0, T0.
  pose proof PI_RGT_0. repeat split; try lra; exact OC.
Qed.
