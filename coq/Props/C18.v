(* C18 — Lazy (dask) reading yields the same arrays as eager reading.
   Statements only (proofs in C18Proofs.v).  Models: PV.Model.AwkList (forms / contents), PV.Model.LazyForm (factory trees,
   make_awkward_form vs make_awkward_content, process_digi_subbranch, uproot.dask's buffer re-labelling).
   PV.Gen.C18Trees is REGENERATED on every run from the working tree: the real factory trees, the real announced forms, the forms
   of the real contents and eager arrays, and real raw-data samples of every fixture branch. *)
From Coq Require Import String ZArith Lia Bool List.
Import ListNotations.
From PV.Model Require Import AwkList LazyForm BasketRead.
From PV.Gen Require Import C18Trees.
From PV.Props Require Import C18Proofs.
Local Open Scope Z_scope.

(* for every factory tree of the modelled kinds (TObjArray of AnyClass / Base / primitive / C-array / STL sequence, map, string,
   TArray, TObject, symmetric-matrix member with inner_shape [n,n], Empty) and every raw data of the readers' shape:
   the type of the built content is the announced form *)
Theorem C18_form_matches_content : forall f r c fm,
  raw_ok f r = true -> content_of f r = Some c -> form_of f = Some fm -> type_of c = fm.
Proof. exact form_matches_content. Qed.
Print Assumptions C18_form_matches_content.

(* ak.from_buffers (form of x) (ak.to_buffers x) = x : re-labelling buffers against the array's own form is the identity *)
Theorem C18_buffers_roundtrip : forall c rest, from_buffers (type_of c) (to_buffers c ++ rest) = Some (c, rest).
Proof. exact buffers_roundtrip. Qed.
Print Assumptions C18_buffers_roundtrip.

(* process_digi_subbranch changes the type exactly as its form-level counterpart does *)
Theorem C18_type_of_process_digi : forall c c', process_digi c = Some c' -> process_digi_form (type_of c) = Some (type_of c').
Proof. exact type_of_process_digi. Qed.
Print Assumptions C18_type_of_process_digi.

(* post-processing applied in neither path (is_digi = false) or in both (announced form post-processed too):
   the lazily computed array IS the eager array, and the type announced before computing is its type *)
Theorem C18_lazy_eq_eager : forall is_digi f r c,
  raw_ok f r = true -> form_of f <> None -> eager is_digi f r = Some c ->
  lazy is_digi (preprocess_form is_digi) f r = Some c /\
  announced (preprocess_form is_digi) f = Some (type_of c).
Proof. exact lazy_eq_eager. Qed.
Print Assumptions C18_lazy_eq_eager.

(* a branch without a form (Bes3CgemClusterColFactory) does not support lazy reading: nothing announced, nothing computed *)
Theorem C18_no_form_no_lazy : forall is_digi announce f r,
  form_of f = None -> lazy is_digi announce f r = None /\ announced announce f = None.
Proof. exact no_form_no_lazy. Qed.
Print Assumptions C18_no_form_no_lazy.

(* the code under study announces the UNprocessed form while compute() goes through final_array's post-processing:
   for a digi collection the lazy array differs from the eager one (the defect, F7) *)
Theorem C18_lazy_digi_refuted :
  exists f r ce cl,
    raw_ok f r = true /\ eager true f r = Some ce /\
    lazy true (fun fm => Some fm) f r = Some cl /\
    announced (fun fm => Some fm) f = Some (type_of cl) /\
    to_buffers cl = to_buffers ce /\ type_of cl <> type_of ce /\ cl <> ce.
Proof. exact lazy_digi_refuted. Qed.
Print Assumptions C18_lazy_digi_refuted.

(* ---------------------------------------------------------------- the fixtures (regenerated data, complete finite check) *)
(* for every distinct real factory tree: the model's form_of IS what the real make_awkward_form returns (None = raises
   NotImplementedError); where a form exists it IS the form of the real basket content; and the model's preprocess_form of the
   real content form IS the form of the real eager array *)
Definition tree_ok (t : fac * option form * form * bool * form) : Prop :=
  let '(f, fm, cfm, digi, final) := t in
  form_of f = fm /\ match fm with Some g => g = cfm | None => True end /\ preprocess_form digi cfm = Some final.
Theorem C18_fixture_trees : Forall tree_ok trees.
Proof. repeat (constructor; [vm_compute; repeat split; reflexivity|]). constructor. Qed.
Print Assumptions C18_fixture_trees.

(* on a real raw-data sample of every distinct tree: the readers deliver what raw_ok demands, and the model's content_of builds
   exactly the buffers and the form of the real make_awkward_content *)
Definition sample_ok (s : fac * raw * list buf * form) : Prop :=
  let '(f, r, bufs, cfm) := s in
  raw_ok f r = true /\ option_map to_buffers (content_of f r) = Some bufs /\ option_map type_of (content_of f r) = Some cfm.
Theorem C18_fixture_samples : Forall sample_ok samples.
Proof. repeat (constructor; [vm_compute; repeat split; reflexivity|]). constructor. Qed.
Print Assumptions C18_fixture_samples.

(* what Bes3Interpretation.awkward_form announces on the fixtures is the factory form, either unchanged (the code under study)
   or post-processed like the eager array (a repaired tree) — and the ONLY way it differs from the form of the eager array is
   the unprocessed announcement of a TDigiEvent collection with a TRawData base (the scope of the defect) *)
Definition has_rawdata_elem (g : form) : bool := match g with FList _ (FRecord fs) => has_rawdata fs | _ => false end.
Definition announcement_ok (ta : (fac * option form * form * bool * form) * option form) : Prop :=
  let '((f, fm, cfm, digi, final), an) := ta in
  match fm, an with
  | None, None => True
  | Some g, Some a =>
      (a = g \/ Some a = preprocess_form digi g) /\
      (a = final \/ (digi && has_rawdata_elem g = true /\ a = g /\ a <> final))
  | _, _ => False
  end.
Theorem C18_fixture_announcements : Forall announcement_ok announcements.
Proof.
  repeat (constructor;
          [vm_compute;
           first [exact I
                 | split; [first [left; reflexivity | right; reflexivity]
                          | first [left; reflexivity
                                  | right; split; [reflexivity|split; [reflexivity|intro H; discriminate H]]]]]|]).
  constructor.
Qed.
Print Assumptions C18_fixture_announcements.

(* the CGEM cluster collection (no form, hence not lazy-capable): the real content form on the fixtures is the record WITH
   m_recPositionY that C02's reader model (PV.Model.BasketRead.cg_form) names *)
Definition cgem_tree_ok (t : fac * option form * form * bool * form) : Prop :=
  let '(f, fm, cfm, digi, final) := t in
  match f with FacCgem _ => fm = None /\ cfm = cg_form true /\ final = cg_form true | _ => True end.
Theorem C18_fixture_cgem_content_form : Forall cgem_tree_ok trees.
Proof. repeat (constructor; [vm_compute; first [exact I | repeat split; reflexivity]|]). constructor. Qed.
Print Assumptions C18_fixture_cgem_content_form.

(* ---------------------------------------------------------------- non-vacuity *)
Example C18_ex_content :
  raw_ok mdc_digi_fac mdc_digi_raw = true /\
  option_map type_of (content_of mdc_digi_fac mdc_digi_raw) = form_of mdc_digi_fac /\
  form_of mdc_digi_fac = Some (FList false (FRecord
     [("TRawData", FRecord [("m_intId", FNumpy DU32 []); ("m_timeChannel", FNumpy DU32 []); ("m_chargeChannel", FNumpy DU32 []);
                            ("m_trackIndex", FNumpy DI32 [])]); ("m_overflow", FNumpy DU32 [])]%string)).
Proof. vm_compute. repeat split; reflexivity. Qed.

Example C18_ex_sym :
  let f := FacTObjArray "c" (FacGroup "T" [FacPrim "id" DI32; FacSym "m_err" 2]) in
  let r := RTup [RArr DU32 [0; 1]; RTup [RArr DI32 [7]; RArr DF64 [1; 2; 2; 3]]] in
  raw_ok f r = true /\ eager false f r = lazy false (preprocess_form false) f r /\
  announced (preprocess_form false) f = Some (FList false (FRecord [("id", FNumpy DI32 []); ("m_err", FRegular 2 (FRegular 2 (FNumpy DF64 [])))]%string)).
Proof. vm_compute. repeat split; reflexivity. Qed.

Example C18_ex_digi_both :
  lazy true (preprocess_form true) mdc_digi_fac mdc_digi_raw = eager true mdc_digi_fac mdc_digi_raw /\
  eager true mdc_digi_fac mdc_digi_raw <> None.
Proof. split; [vm_compute; reflexivity|vm_compute; discriminate]. Qed.
