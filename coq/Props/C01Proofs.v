(* C01 — proofs, part 2: collection readers (mirrors of root_io.hh), entry loop, ListOffset reconstruction, CGEM reader,
   digi flattening, factory selection. *)
From Coq Require Import ZArith List Lia Bool ZifyBool.
Import ListNotations.
From PV.Model Require Import RootStream RootSchema RootGlue.
From PV.Model Require SymMatrix.
From PV.Props Require Import C01Codec.
Local Open Scope Z_scope.


(* ---------------------------------------------------------------- collection header *)
Lemma skip_be n v rest : skip n (be_enc n v ++ rest) = Some rest.
Proof. rewrite <- (be_enc_length n v) at 1. apply skip_app. Qed.
Lemma skip1 b rest : skip 1 (b :: rest) = Some rest.
Proof. reflexivity. Qed.

Lemma read_colhdr_enc h n rest : colhdr_wf h -> u32_wf n -> read_colhdr (colhdr_enc h n ++ rest) = Some (n, rest).
Proof.
  intros (W1 & W2 & W3 & W4 & W5 & W6 & W7) Wn. unfold read_colhdr, colhdr_enc. rewrite <- !app_assoc.
  rewrite read_nbytes_enc by assumption. cbn [bind].
  rewrite !skip_be. cbn [bind]. rewrite !skip_be. cbn [bind]. rewrite !skip_be. cbn [bind]. rewrite !skip_be. cbn [bind].
  cbn [app]. rewrite skip1. cbn [bind]. rewrite be4 by assumption. cbn [bind]. rewrite skip_be. reflexivity.
Qed.

Lemma objhdr_enc_pos h : (1 <= length (objhdr_enc h))%nat.
Proof. destruct h; cbn [objhdr_enc]; rewrite app_length, nbytes_enc_length; lia. Qed.

(* ---------------------------------------------------------------- one TObjArray *)
Section tobjarray.
  Context {V : Type} (elem_read : bytes -> option (V * bytes)) (elem_enc : V -> bytes) (P : V -> Prop).
  Hypothesis codec : forall v rest, P v -> elem_read (elem_enc v ++ rest) = Some (v, rest).

  Definition obj_ok (ho : objhdr * V) : Prop := objhdr_wf (fst ho) /\ P (snd ho).
  Definition ev_ok (ev : colhdr * list (objhdr * V)) : Prop :=
    colhdr_wf (fst ev) /\ u32_wf (zlen (snd ev)) /\ Forall obj_ok (snd ev).
  Definition ev_objs (ev : colhdr * list (objhdr * V)) : list V := map snd (snd ev).
  Definition ev_count (ev : colhdr * list (objhdr * V)) : Z := zlen (snd ev).

  Lemma tobjarray_read_enc ev offsets rest : ev_ok ev ->
    tobjarray_read elem_read offsets (event_enc elem_enc ev ++ rest) =
    Some ((offsets ++ [u32w (last offsets 0 + ev_count ev)], ev_objs ev), rest).
  Proof.
    destruct ev as [h objs]. unfold ev_ok, ev_objs, ev_count. cbn [fst snd]. intros (Wh & Wn & Wo).
    unfold tobjarray_read, event_enc. cbn [fst snd]. rewrite <- app_assoc.
    rewrite read_colhdr_enc by assumption. cbn [bind].
    set (enc1 := fun ho : objhdr * V => objhdr_enc (fst ho) ++ elem_enc (snd ho)).
    assert (Hpos : forall ho, obj_ok ho -> (1 <= length (enc1 ho))%nat).
    { intros ho _. unfold enc1. rewrite app_length. pose proof (objhdr_enc_pos (fst ho)). lia. }
    pose proof (concat_min_length enc1 obj_ok Hpos objs Wo) as L.
    assert (zlen (concat (map enc1 objs) ++ rest) <? zlen objs = false) as ->.
    { unfold zlen. rewrite app_length. apply Z.ltb_ge. apply Nat2Z.inj_le. eapply Nat.le_trans; [exact L|apply Nat.le_add_r]. }
    unfold zlen at 1. rewrite Nat2Z.id.
    rewrite (rep_enc _ enc1 snd obj_ok); [reflexivity| |assumption].
    intros [ho v] r [Wh' Wv]. unfold enc1. cbn [fst snd] in *. rewrite <- app_assoc.
    rewrite skip_obj_header_enc by assumption. cbn [bind]. apply codec, Wv.
  Qed.

  (* ---- entries *)
  Lemma slices_cons a b offs data :
    slices (a :: b :: offs) data =
    if b <? a then None else '(ev, data) <- take (Z.to_nat (b - a)) data ;; evs <- slices (b :: offs) data ;; Some (ev :: evs).
  Proof. reflexivity. Qed.
  Lemma slices_concat (evs : list bytes) : forall a, 0 <= a ->
    slices (a :: prefix_sums a (map zlen evs)) (concat evs) = Some evs.
  Proof.
    induction evs as [|ev evs IH]; intros a Ha; [reflexivity|].
    cbn [map prefix_sums concat]. rewrite slices_cons.
    assert (a + zlen ev <? a = false) as -> by (unfold zlen; lia).
    replace (Z.to_nat (a + zlen ev - a)) with (length ev) by (unfold zlen; lia).
    rewrite take_app. cbn [bind]. rewrite IH by (unfold zlen; lia). reflexivity.
  Qed.

  Definition offsets_after (offsets : list Z) (counts : list Z) : list Z := offsets ++ prefix_sums (last offsets 0) counts.

  Lemma last_snoc {A} (l : list A) x d : last (l ++ [x]) d = x.
  Proof. induction l as [|y l IH]; [reflexivity|]. cbn [app]. destruct (l ++ [x]) eqn:E; [destruct l; discriminate|]. exact IH. Qed.

  Lemma prefix_sums_bound acc counts : Forall (fun c => 0 <= c) counts -> 0 <= acc ->
    Forall (fun s => acc <= s <= acc + fold_right Z.add 0 counts) (prefix_sums acc counts).
  Proof.
    revert acc. induction counts as [|c r IH]; intros acc H Ha; [constructor|]. inversion H; subst.
    cbn [prefix_sums fold_right]. constructor.
    - assert (0 <= fold_right Z.add 0 r) by (clear - H3; induction H3; simpl; lia). lia.
    - specialize (IH (acc + c) H3 ltac:(lia)). eapply Forall_impl; [|exact IH]. simpl. intros s Hs. lia.
  Qed.

  Lemma read_entries_enc (evs : list (colhdr * list (objhdr * V))) : forall offsets,
    Forall ev_ok evs -> 0 <= last offsets 0 -> last offsets 0 + fold_right Z.add 0 (map ev_count evs) < 4294967296 ->
    read_entries (tobjarray_read elem_read) offsets (map (event_enc elem_enc) evs) =
    Some (offsets_after offsets (map ev_count evs), concat (map ev_objs evs)).
  Proof.
    induction evs as [|ev evs IH]; intros offsets W H0 Hs.
    - cbn. unfold offsets_after. cbn. now rewrite app_nil_r.
    - inversion W; subst. cbn [map read_entries]. cbn [fold_right map] in Hs.
      rewrite <- (app_nil_r (event_enc elem_enc ev)). rewrite tobjarray_read_enc by assumption.
      cbn [all_consumed bind].
      assert (Hc : 0 <= ev_count ev) by (unfold ev_count, zlen; lia).
      assert (Hr : 0 <= fold_right Z.add 0 (map ev_count evs)).
      { clear. induction evs; simpl; [lia|]. unfold ev_count at 1, zlen. lia. }
      assert (U : u32w (last offsets 0 + ev_count ev) = last offsets 0 + ev_count ev).
      { unfold u32w. apply Z.mod_small. lia. }
      rewrite U. rewrite IH; [| assumption | rewrite last_snoc; lia | rewrite last_snoc; lia].
      cbn [bind]. f_equal. f_equal.
      unfold offsets_after. rewrite last_snoc. cbn [map prefix_sums]. rewrite <- app_assoc. reflexivity.
  Qed.

  Theorem read_branch_enc (evs : list (colhdr * list (objhdr * V))) :
    Forall ev_ok evs -> fold_right Z.add 0 (map ev_count evs) < 4294967296 ->
    let stored := map (event_enc elem_enc) evs in
    read_branch elem_read (concat stored) (0 :: prefix_sums 0 (map zlen stored)) =
    Some (0 :: prefix_sums 0 (map ev_count evs), concat (map ev_objs evs)).
  Proof.
    intros W Hs. cbv zeta. unfold read_branch. rewrite Z.eqb_refl. rewrite slices_concat by lia. cbn [bind].
    rewrite read_entries_enc; [reflexivity|assumption|simpl; lia|simpl; lia].
  Qed.
End tobjarray.

(* ---------------------------------------------------------------- ListOffsetArray reconstruction *)
Lemma list_offset_prefix {A} (evs : list (list A)) : forall (pre : list A),
  list_offset (zlen pre :: prefix_sums (zlen pre) (map zlen evs)) (pre ++ concat evs) = evs.
Proof.
  induction evs as [|ev evs IH]; intros pre; [reflexivity|].
  cbn [map prefix_sums concat list_offset].
  replace (Z.to_nat (zlen pre + zlen ev - zlen pre)) with (length ev) by (unfold zlen; lia).
  replace (Z.to_nat (zlen pre)) with (length pre) by (unfold zlen; lia).
  rewrite skipn_app, Nat.sub_diag, skipn_all. cbn [skipn app].
  rewrite firstn_app, Nat.sub_diag, firstn_all, firstn_O, app_nil_r. f_equal.
  specialize (IH (pre ++ ev)).
  replace (zlen (pre ++ ev)) with (zlen pre + zlen ev) in IH by (unfold zlen; rewrite app_length; lia).
  rewrite <- app_assoc in IH. exact IH.
Qed.
Lemma list_offset_counts {A} (evs : list (list A)) :
  list_offset (0 :: prefix_sums 0 (map zlen evs)) (concat evs) = evs.
Proof. exact (list_offset_prefix evs []). Qed.

(* ---------------------------------------------------------------- CGEM cluster collection *)
Lemma concat_prim_length p (l : list Z) : length (concat (map (prim_enc p) l)) = (length l * prim_size p)%nat.
Proof. induction l as [|x l IH]; [reflexivity|]. cbn [map concat length]. rewrite app_length, prim_enc_length, IH. lia. Qed.

Definition cg_ver (c : cgem) : Z := match cg_posy c with Some _ => 0 | None => 1 end.
Definition cgobj := (objhdr * (Z * tobject * cgem))%type.
Definition cg_of (x : cgobj) : cgem := snd (snd x).
Definition cg_tobj (x : cgobj) : tobject := snd (fst (snd x)).
Definition cgobj_ok (cv : Z) (x : cgobj) : Prop :=
  objhdr_wf (fst x) /\ u16_wf (fst (fst (snd x))) /\ tobject_wf (cg_tobj x) /\ cgem_wf (cg_of x) /\ cg_ver (cg_of x) = cv.
(* the sticky flag is either still unknown or already the file's class version; the byte counts 96/98 (version 0, TObject
   without / with pidf) and 88/90 (version 1) are pairwise distinct, so the first object determines it in every case *)
Definition start_ok (cv mver : Z) (objs : list cgobj) : Prop := mver = cv \/ mver = -1.
Definition ver_after (cv mver : Z) (objs : list cgobj) : Z := match objs with [] => mver | _ => cv end.

Lemma cgem_body_length c : cgem_wf c -> zlen (cgem_body_enc c) = match cg_posy c with Some _ => 84 | None => 76 end.
Proof.
  intros (L1 & _ & L2 & _ & _ & L3 & _ & L4 & _ & L5 & _). unfold cgem_body_enc, zlen.
  rewrite !app_length, !concat_prim_length, L1, L2, L3, L4, L5. destruct (cg_posy c); rewrite ?prim_enc_length; reflexivity.
Qed.

Lemma cgem_obj_read_enc cv x mver rest : cgobj_ok cv x ->
  (mver = cv \/ mver = -1) ->
  cgem_obj_read mver (cgem_obj_enc x ++ rest) = Some ((cv, cg_of x), rest).
Proof.
  destruct x as [h [[ver o] c]]. unfold cgobj_ok, cg_of, cg_tobj. cbn [fst snd]. intros (Wh & Wv & Wo & Wc & Hcv) Hm.
  unfold cgem_obj_enc, cgem_obj_read. cbv zeta. rewrite <- !app_assoc.
  rewrite skip_obj_header_enc by assumption. cbn [bind].
  set (payload := be_enc 2 ver ++ tobject_enc o ++ cgem_body_enc c).
  assert (Lp : zlen payload = 2 + (if is_referenced (to_bits o) then 12 else 10) + match cg_posy c with Some _ => 84 | None => 76 end).
  { unfold payload. pose proof (cgem_body_length c Wc) as B. unfold zlen in *. rewrite !app_length, be_enc_length, tobject_enc_length.
    destruct (is_referenced (to_bits o)); lia. }
  rewrite read_nbytes_enc by (unfold nbytes_wf, kByteCountMask; rewrite Lp; destruct (is_referenced (to_bits o)), (cg_posy c); lia).
  cbn [bind]. rewrite skip_be. cbn [bind].
  assert (Hver : (if mver =? -1
                  then if (zlen payload =? 96) || (zlen payload =? 98) then Some 0
                       else if (zlen payload =? 88) || (zlen payload =? 90) then Some 1 else None
                  else Some mver) = Some cv).
  { unfold cg_ver in Hcv. destruct Hm as [-> | ->].
    - destruct (cv =? -1) eqn:E; [|reflexivity]. destruct (cg_posy c); lia.
    - cbn [Z.eqb]. rewrite Lp. destruct (is_referenced (to_bits o)), (cg_posy c); subst cv; reflexivity. }
  rewrite Hver. cbn [bind]. unfold skip_tobject. rewrite read_tobject_enc by assumption. cbn [bind].
  destruct Wc as (L1 & F1 & L2 & F2 & Fy & L3 & F3 & L4 & F4 & L5 & F5).
  unfold cgem_body_enc. rewrite <- !app_assoc.
  rewrite <- L1 at 1. rewrite (rep_enc_id _ (prim_enc PI32) (prim_wf PI32)) by auto using prim_dec_enc. cbn [bind].
  rewrite <- L2 at 1. rewrite (rep_enc_id _ (prim_enc PF64) (prim_wf PF64)) by auto using prim_dec_enc. cbn [bind].
  unfold cg_ver in Hcv. destruct c as [ints d1 posy d2 fl st]. cbn [cg_ints cg_d1 cg_posy cg_d2 cg_flag cg_strip] in *.
  destruct posy as [y|]; subst cv.
  - cbn [Z.eqb]. rewrite prim_dec_enc by assumption. cbn [bind].
    rewrite <- L3 at 1. rewrite (rep_enc_id _ (prim_enc PF64) (prim_wf PF64)) by auto using prim_dec_enc. cbn [bind].
    rewrite <- L4 at 1. rewrite (rep_enc_id _ (prim_enc PI32) (prim_wf PI32)) by auto using prim_dec_enc. cbn [bind].
    rewrite <- L5 at 1. rewrite (rep_enc_id _ (prim_enc PI32) (prim_wf PI32)) by auto using prim_dec_enc. reflexivity.
  - cbn [Z.eqb app]. cbn [bind].
    rewrite <- L3 at 1. rewrite (rep_enc_id _ (prim_enc PF64) (prim_wf PF64)) by auto using prim_dec_enc. cbn [bind].
    rewrite <- L4 at 1. rewrite (rep_enc_id _ (prim_enc PI32) (prim_wf PI32)) by auto using prim_dec_enc. cbn [bind].
    rewrite <- L5 at 1. rewrite (rep_enc_id _ (prim_enc PI32) (prim_wf PI32)) by auto using prim_dec_enc. reflexivity.
Qed.

Lemma cgem_objs_read_enc cv : forall (objs : list cgobj) mver rest, Forall (cgobj_ok cv) objs -> start_ok cv mver objs ->
  rep_state cgem_obj_read (length objs) mver (concat (map cgem_obj_enc objs) ++ rest) =
  Some ((ver_after cv mver objs, map cg_of objs), rest).
Proof.
  induction objs as [|x objs IH]; intros mver rest W S; [reflexivity|].
  inversion W; subst. cbn [length map concat rep_state]. rewrite <- app_assoc.
  rewrite (cgem_obj_read_enc cv); [|assumption|exact S].
  cbn [bind]. rewrite IH; [|assumption|left; reflexivity]. cbn [bind].
  unfold ver_after. destruct objs; reflexivity.
Qed.

Definition cgev := (objhdr * colhdr * list cgobj)%type.
Definition cgev_objs (ev : cgev) : list cgobj := snd ev.
Definition cgev_ok (cv : Z) (ev : cgev) : Prop :=
  objhdr_wf (fst (fst ev)) /\ colhdr_wf (snd (fst ev)) /\ u32_wf (zlen (snd ev)) /\ Forall (cgobj_ok cv) (snd ev).

Lemma cgem_obj_enc_pos x : (1 <= length (cgem_obj_enc x))%nat.
Proof. destruct x as [h [[ver o] c]]. unfold cgem_obj_enc. cbv zeta. rewrite app_length. pose proof (objhdr_enc_pos h). lia. Qed.

Lemma cgem_read_enc cv ev mver offsets rest : cgev_ok cv ev -> start_ok cv mver (cgev_objs ev) ->
  cgem_read (mver, offsets) (cgem_event_enc ev ++ rest) =
  Some (((ver_after cv mver (cgev_objs ev), offsets ++ [u32w (last offsets 0 + zlen (cgev_objs ev))]), map cg_of (cgev_objs ev)), rest).
Proof.
  destruct ev as [[h ch] objs]. unfold cgev_ok, cgev_objs. cbn [fst snd]. intros (Wh & Wc & Wn & Wo) S.
  unfold cgem_read, cgem_event_enc. rewrite <- !app_assoc. rewrite skip_obj_header_enc by assumption. cbn [bind].
  rewrite read_colhdr_enc by assumption. cbn [bind].
  assert (L : (length objs <= length (concat (map cgem_obj_enc objs)))%nat).
  { apply (concat_min_length cgem_obj_enc (fun _ => True)); [intros; apply cgem_obj_enc_pos|]. clear. induction objs; constructor; auto. }
  match goal with |- (if ?c then _ else _) = _ => assert (c = false) as -> end.
  { unfold zlen. rewrite app_length. apply Z.ltb_ge. apply Nat2Z.inj_le. eapply Nat.le_trans; [exact L|apply Nat.le_add_r]. }
  unfold zlen at 1. rewrite Nat2Z.id. rewrite (cgem_objs_read_enc cv) by assumption. reflexivity.
Qed.

Lemma start_ok_app cv mver (a b : list cgobj) : start_ok cv mver (a ++ b) ->
  start_ok cv mver a /\ start_ok cv (ver_after cv mver a) b.
Proof.
  unfold start_ok, ver_after. intros [S|S].
  - split; [left; exact S|]. destruct a; [left; exact S|left; reflexivity].
  - split; [right; exact S|]. destruct a; [right; exact S|left; reflexivity].
Qed.

Lemma cgem_entries_enc cv (evs : list cgev) : forall mver offsets,
  Forall (cgev_ok cv) evs -> start_ok cv mver (concat (map cgev_objs evs)) ->
  0 <= last offsets 0 -> last offsets 0 + fold_right Z.add 0 (map (fun ev => zlen (cgev_objs ev)) evs) < 4294967296 ->
  read_entries cgem_read (mver, offsets) (map cgem_event_enc evs) =
  Some ((ver_after cv mver (concat (map cgev_objs evs)),
         offsets ++ prefix_sums (last offsets 0) (map (fun ev => zlen (cgev_objs ev)) evs)),
        concat (map (fun ev => map cg_of (cgev_objs ev)) evs)).
Proof.
  induction evs as [|ev evs IH]; intros mver offsets W S H0 Hs.
  - cbn. now rewrite app_nil_r.
  - inversion W; subst. cbn [map concat] in S. apply start_ok_app in S. destruct S as [S1 S2].
    cbn [map read_entries]. cbn [fold_right map] in Hs.
    rewrite <- (app_nil_r (cgem_event_enc ev)). rewrite (cgem_read_enc cv) by assumption. cbn [all_consumed bind].
    assert (Hc : 0 <= zlen (cgev_objs ev)) by (unfold zlen; lia).
    assert (Hr : 0 <= fold_right Z.add 0 (map (fun ev => zlen (cgev_objs ev)) evs)).
    { clear. induction evs; simpl; [lia|]. unfold zlen at 1. lia. }
    assert (U : u32w (last offsets 0 + zlen (cgev_objs ev)) = last offsets 0 + zlen (cgev_objs ev)).
    { unfold u32w. apply Z.mod_small. lia. }
    rewrite U. rewrite IH; [| assumption | assumption | rewrite last_snoc; lia | rewrite last_snoc; lia].
    cbn [bind]. f_equal. f_equal. f_equal.
    + cbn [map concat]. unfold ver_after. destruct (cgev_objs ev); [reflexivity|]. cbn [app].
      destruct (concat (map cgev_objs evs)); reflexivity.
    + rewrite last_snoc. cbn [map prefix_sums]. rewrite <- app_assoc. reflexivity.
Qed.

Theorem cgem_branch_enc cv (evs : list cgev) :
  Forall (cgev_ok cv) evs -> start_ok cv (-1) (concat (map cgev_objs evs)) ->
  fold_right Z.add 0 (map (fun ev => zlen (cgev_objs ev)) evs) < 4294967296 ->
  let stored := map cgem_event_enc evs in
  cgem_branch (concat stored) (0 :: prefix_sums 0 (map zlen stored)) =
  Some ((ver_after cv (-1) (concat (map cgev_objs evs)), 0 :: prefix_sums 0 (map (fun ev => zlen (cgev_objs ev)) evs)),
        concat (map (fun ev => map cg_of (cgev_objs ev)) evs)).
Proof.
  intros W S Hs. cbv zeta. unfold cgem_branch. rewrite Z.eqb_refl. rewrite slices_concat by lia. cbn [bind].
  rewrite (cgem_entries_enc cv); [reflexivity|assumption|assumption|simpl; lia|simpl; lia].
Qed.

(* ---------------------------------------------------------------- digi flattening *)
Lemma beq_eq a : forall b, beq a b = true <-> a = b.
Proof.
  induction a as [|x a IH]; destruct b as [|y b]; cbn [beq]; split; intros H; try discriminate; try reflexivity.
  - apply andb_true_iff in H. destruct H as [H1 H2]. apply Z.eqb_eq in H1. apply IH in H2. now subst.
  - inversion H; subst. apply andb_true_iff. split; [apply Z.eqb_refl|now apply IH].
Qed.
Lemma beq_neq a b : beq a b = false <-> a <> b.
Proof. split; intros H. - intros E. apply beq_eq in E. congruence. - destruct (beq a b) eqn:E; [apply beq_eq in E; contradiction|reflexivity]. Qed.

Lemma dict_set_fresh k v d : ~ In k (map fst d) -> dict_set k v d = d ++ [(k, v)].
Proof.
  induction d as [|[k' v'] d IH]; intros H; [reflexivity|]. cbn [dict_set map fst In] in *.
  assert (beq k k' = false) as -> by (apply beq_neq; intros ->; apply H; auto).
  cbn [app]. rewrite IH by tauto. reflexivity.
Qed.
Lemma fold_set_fresh sub : forall d, NoDup (map fst d ++ map fst sub) ->
  fold_left (fun d kv' => dict_set (fst kv') (snd kv') d) sub d = d ++ sub.
Proof.
  induction sub as [|[k v] sub IH]; intros d H; cbn [fold_left]; [now rewrite app_nil_r|].
  cbn [map fst snd] in *. apply NoDup_remove in H as H'. destruct H' as [H1 H2].
  rewrite dict_set_fresh by (intros I; apply H2; apply in_or_app; auto).
  rewrite IH.
  - now rewrite <- app_assoc.
  - rewrite map_app. cbn [map fst]. rewrite <- app_assoc. exact H.
Qed.

Lemma NoDup_app_l {A} (a b : list A) : NoDup (a ++ b) -> NoDup a.
Proof. induction a as [|x a IH]; intros H; [constructor|]. inversion H; subst. constructor; [intros I; apply H2; apply in_or_app; auto|auto]. Qed.
Lemma flatten_fold fields : forall d, NoDup (map fst d ++ map fst (splice fields)) ->
  fold_left (fun d kv => if beq (fst kv) RAW
                         then match snd kv with
                              | PRec sub => fold_left (fun d kv' => dict_set (fst kv') (snd kv') d) sub d
                              | _ => d
                              end
                         else dict_set (fst kv) (snd kv) d) fields d = d ++ splice fields.
Proof.
  induction fields as [|[k v] fields IH]; intros d H; cbn [fold_left]; [cbn; now rewrite app_nil_r|].
  unfold splice in *. cbn [flat_map fst snd] in *. destruct (beq k RAW) eqn:E.
  - destruct v as [| | |sub].
    1-3: (cbn [app] in *; apply IH; exact H).
    rewrite map_app in H. rewrite app_assoc in H.
    rewrite fold_set_fresh by (eapply NoDup_app_l; exact H).
    rewrite IH by (rewrite map_app; exact H). now rewrite <- app_assoc.
  - cbn [app map fst] in H. apply NoDup_remove in H as H'. destruct H' as [H1 H2].
    rewrite dict_set_fresh by (intros I; apply H2; apply in_or_app; auto).
    rewrite IH.
    + rewrite <- app_assoc. reflexivity.
    + rewrite map_app. cbn [map fst]. rewrite <- app_assoc. exact H.
Qed.

Theorem flatten_fields_splice fields : NoDup (map fst (splice fields)) -> flatten_fields fields = splice fields.
Proof. intros H. unfold flatten_fields. now rewrite flatten_fold. Qed.

Lemma splice_In fields kv : In kv (splice fields) <->
  (In kv fields /\ fst kv <> RAW) \/ (exists sub, In (RAW, PRec sub) fields /\ In kv sub).
Proof.
  unfold splice. rewrite in_flat_map. split.
  - intros ([k v] & Hin & H). cbn [fst snd] in H. destruct (beq k RAW) eqn:E.
    + apply beq_eq in E. subst k. destruct v; try contradiction. right. exists fields0. auto.
    + apply beq_neq in E. destruct H as [<-|[]]. left. auto.
  - intros [[Hin Hne]|(sub & Hin & Hs)].
    + exists kv. split; [exact Hin|]. apply beq_neq in Hne. rewrite Hne. left. reflexivity.
    + exists (RAW, PRec sub). split; [exact Hin|]. cbn [fst snd]. assert (beq RAW RAW = true) as -> by (now apply beq_eq). exact Hs.
Qed.

Theorem digi_flatten_lossless fields : fields <> [] -> In RAW (map fst fields) -> NoDup (map fst (splice fields)) ->
  flatten_digi (PRec fields) = Some (PRec (splice fields)).
Proof.
  intros Hne Hraw Hnd. unfold flatten_digi. destruct fields as [|f fields]; [congruence|].
  assert (existsb (fun kv => beq (fst kv) RAW) (f :: fields) = true) as ->.
  { apply existsb_exists. apply in_map_iff in Hraw. destruct Hraw as (kv & E & Hin). exists kv. split; [exact Hin|]. now apply beq_eq. }
  now rewrite flatten_fields_splice.
Qed.

(* ---------------------------------------------------------------- factory selection *)
Definition req_consistent (r : req) : Prop :=
  (prim_ftype (r_ftype r) = true -> r_top r = TPrimName) /\ (r_target_item r = true -> r_top r = TPrimName).

Lemma matches_excl r f g : req_consistent r -> prio f = prio g -> matches f r = true -> matches g r = true -> f = g.
Proof.
  intros [C1 C2] Hp Hf Hg.
  destruct f, g; try reflexivity; cbn [prio] in Hp; try discriminate; cbn [matches] in Hf, Hg;
    repeat match goal with H : _ && _ = true |- _ => apply andb_true_iff in H; destruct H end;
    repeat match goal with H : _ || _ = true |- _ => apply orb_true_iff in H; destruct H end;
    try (rewrite C2 in * by assumption); try (rewrite C1 in * by assumption);
    try (destruct (r_top r); discriminate); try lia.
Qed.

Lemma find_first {A} (p : A -> bool) l x : find p l = Some x -> exists l1 l2, l = l1 ++ x :: l2 /\ p x = true /\ forall y, In y l1 -> p y = false.
Proof.
  induction l as [|a l IH]; [discriminate|]. cbn [find]. destruct (p a) eqn:E.
  - intros H. inversion H; subst. exists [], l. repeat split; auto. intros y [].
  - intros H. destruct (IH H) as (l1 & l2 & -> & Hx & Hl). exists (a :: l1), l2. repeat split; auto.
    intros y [<-|Hy]; auto.
Qed.
Definition prio_sorted (l : list fac) : Prop := forall l1 x l2 y, l = l1 ++ x :: l2 -> In y l2 -> prio y <= prio x.

Theorem select_order_irrelevant r order : req_consistent r -> (forall f, In f order) -> prio_sorted order ->
  select_in order r = select r.
Proof.
  intros C Hall Hs.
  assert (S0 : prio_sorted fac_order).
  { intros l1 x l2 y E Hy. unfold fac_order in E.
    repeat (destruct l1 as [|? l1]; [inversion E; subst; cbn in Hy; intuition (subst; cbn; lia)|inversion E; subst; clear E; rename H1 into E]).
    all: try (destruct l1; discriminate). }
  assert (Hall0 : forall f, In f fac_order) by (intros f; destruct f; cbn; tauto).
  assert (K : forall o, (forall f, In f o) -> prio_sorted o -> exists f, select_in o r = Some f /\ matches f r = true /\
               forall g, matches g r = true -> prio g <= prio f).
  { intros o Ho So. unfold select_in. destruct (find (fun f => matches f r) o) as [f|] eqn:E.
    - exists f. destruct (find_first _ _ _ E) as (l1 & l2 & -> & Hm & Hb). repeat split; auto.
      intros g Hg. specialize (Ho g). apply in_app_or in Ho. destruct Ho as [Hi|[<-|Hi]].
      + rewrite (Hb g Hi) in Hg. discriminate.
      + lia.
      + exact (So l1 f l2 g eq_refl Hi).
    - exfalso. pose proof (find_none _ _ E FAnyClass (Ho FAnyClass)) as N. discriminate. }
  destruct (K order Hall Hs) as (f & E1 & M1 & B1). destruct (K fac_order Hall0 S0) as (g & E2 & M2 & B2).
  unfold select. rewrite E1, E2. f_equal. apply (matches_excl r); auto. specialize (B1 g M2). specialize (B2 f M1). lia.
Qed.

Lemma select_collection r : r_top r = TTObjArray -> r_registered r = true ->
  r_cgem_path r && negb (r_has_tcgemcluster r) = false -> select r = Some FTObjArray.
Proof. intros H1 H2 H3. unfold select, select_in, fac_order. cbn [find matches]. rewrite H3, H1, H2. reflexivity. Qed.
Lemma select_cgem r : r_cgem_path r = true -> r_has_tcgemcluster r = false -> select r = Some FCgem.
Proof. intros H1 H2. unfold select, select_in, fac_order. cbn [find matches]. rewrite H1, H2. reflexivity. Qed.
Lemma select_base r : r_top r = TBASE -> r_ftype r = 0 -> r_in_bes3 r = true -> r_target_item r = false ->
  r_cgem_path r && negb (r_has_tcgemcluster r) = false -> select r = Some FBes3Base.
Proof. intros H1 H2 H3 H4 H5. unfold select, select_in, fac_order. cbn [find matches]. rewrite H5, H1, H4, H2, H3. reflexivity. Qed.
Lemma select_sym r : r_target_item r = true -> r_top r = TPrimName ->
  r_cgem_path r && negb (r_has_tcgemcluster r) = false -> select r = Some FSym.
Proof. intros H1 H2 H3. unfold select, select_in, fac_order. cbn [find matches]. rewrite H3, H2, H1. reflexivity. Qed.

(* ---------------------------------------------------------------- statements of C01.v that need more than `exact` *)
Lemma c01_tobjarray_read_pf : forall (V : Type) (elem_read : bytes -> option (V * bytes)) (elem_enc : V -> bytes) (P : V -> Prop),
  (forall v rest, P v -> elem_read (elem_enc v ++ rest) = Some (v, rest)) ->
  forall (ev : colhdr * list (objhdr * V)) (offsets : list Z) (rest : bytes),
  colhdr_wf (fst ev) -> u32_wf (zlen (snd ev)) -> Forall (fun ho => objhdr_wf (fst ho) /\ P (snd ho)) (snd ev) ->
  tobjarray_read elem_read offsets (event_enc elem_enc ev ++ rest) =
  Some ((offsets ++ [u32w (last offsets 0 + zlen (snd ev))], map snd (snd ev)), rest).
Proof.
  intros V er ee P H ev offsets rest W1 W2 W3. apply (tobjarray_read_enc er ee P H). exact (conj W1 (conj W2 W3)).
Qed.
Lemma c01_tobjarray_roundtrip_pf : forall (V : Type) (elem_read : bytes -> option (V * bytes)) (elem_enc : V -> bytes) (P : V -> Prop),
  (forall v rest, P v -> elem_read (elem_enc v ++ rest) = Some (v, rest)) ->
  forall evs : list (colhdr * list (objhdr * V)),
  Forall (fun ev => colhdr_wf (fst ev) /\ u32_wf (zlen (snd ev)) /\ Forall (fun ho => objhdr_wf (fst ho) /\ P (snd ho)) (snd ev)) evs ->
  fold_right Z.add 0 (map (fun ev => zlen (snd ev)) evs) < 4294967296 ->
  let stored := map (event_enc elem_enc) evs in
  let objects := map (fun ev => map snd (snd ev)) evs in
  exists offsets content,
    read_branch elem_read (concat stored) (0 :: prefix_sums 0 (map zlen stored)) = Some (offsets, content) /\
    offsets = 0 :: prefix_sums 0 (map zlen objects) /\ content = concat objects /\
    list_offset offsets content = objects.
Proof.
  intros V er ee P H evs W Hs. cbv zeta.
  exists (0 :: prefix_sums 0 (map zlen (map (fun ev => map snd (snd ev)) evs))), (concat (map (fun ev => map snd (snd ev)) evs)).
  assert (E : map zlen (map (fun ev : colhdr * list (objhdr * V) => map snd (snd ev)) evs) = map (fun ev => zlen (snd ev)) evs).
  { rewrite map_map. apply map_ext. intros ev. unfold zlen. now rewrite map_length. }
  split; [|split; [reflexivity|split; [reflexivity|apply list_offset_counts]]].
  rewrite E. apply (read_branch_enc er ee P H evs); assumption.
Qed.
Lemma c01_collection_of_class_pf : forall (cls : mty) (evs : list (colhdr * list (objhdr * val))),
  Forall (fun ev => colhdr_wf (fst ev) /\ u32_wf (zlen (snd ev)) /\ Forall (fun ho => objhdr_wf (fst ho) /\ mwf cls (snd ho)) (snd ev)) evs ->
  fold_right Z.add 0 (map (fun ev => zlen (snd ev)) evs) < 4294967296 ->
  let stored := map (event_enc (menc cls)) evs in
  let objects := map (fun ev => map snd (snd ev)) evs in
  exists offsets content,
    read_branch (mdec cls) (concat stored) (0 :: prefix_sums 0 (map zlen stored)) = Some (offsets, content) /\
    list_offset offsets content = objects.
Proof.
  intros cls evs W Hs. cbv zeta.
  destruct (c01_tobjarray_roundtrip_pf val (mdec cls) (menc cls) (mwf cls) (mdec_menc cls) evs W Hs) as (o & c & H1 & _ & _ & H4).
  exists o, c. split; assumption.
Qed.
Lemma c01_cgem_roundtrip_pf : forall (cv : Z) (evs : list (objhdr * colhdr * list (objhdr * (Z * tobject * cgem)))),
  Forall (cgev_ok cv) evs ->
  fold_right Z.add 0 (map (fun ev => zlen (cgev_objs ev)) evs) < 4294967296 ->
  let stored := map cgem_event_enc evs in
  let clusters := map (fun ev => map cg_of (cgev_objs ev)) evs in
  exists mver offsets content,
    cgem_branch (concat stored) (0 :: prefix_sums 0 (map zlen stored)) = Some ((mver, offsets), content) /\
    mver = ver_after cv (-1) (concat (map cgev_objs evs)) /\
    content = concat clusters /\ list_offset offsets content = clusters.
Proof.
  intros cv evs W Hs. cbv zeta. assert (S : start_ok cv (-1) (concat (map cgev_objs evs))) by (right; reflexivity).
  exists (ver_after cv (-1) (concat (map cgev_objs evs))), (0 :: prefix_sums 0 (map (fun ev => zlen (cgev_objs ev)) evs)),
         (concat (map (fun ev => map cg_of (cgev_objs ev)) evs)).
  split; [apply (cgem_branch_enc cv evs W S Hs)|]. split; [reflexivity|]. split; [reflexivity|].
  assert (E : map (fun ev => zlen (cgev_objs ev)) evs = map zlen (map (fun ev => map cg_of (cgev_objs ev)) evs)).
  { rewrite map_map. apply map_ext. intros ev. unfold zlen. now rewrite map_length. }
  rewrite E. apply list_offset_counts.
Qed.
Definition cg_sample : cgem := {| cg_ints := [1; 2; 3; 4; 5]; cg_d1 := [6; 7]; cg_posy := Some 8; cg_d2 := [9; 10];
                                  cg_flag := [11; 12]; cg_strip := [13; 14; 15; 16] |}.
Definition cg_referenced_first : list (objhdr * colhdr * list (objhdr * (Z * tobject * cgem))) :=
  [ (HRef 200 2147483649,
     {| ch_nbytes := 190; ch_ver := 3; ch_tver := 1; ch_uid := 0; ch_bits := 33554432; ch_name := 0; ch_low := 0 |},
     [ (HNew 120 [84; 82; 101; 99; 67; 103; 101; 109; 67; 108; 117; 115; 116; 101; 114],
        (2, {| to_ver := 1; to_uid := 7; to_bits := 50331664; to_pidf := 9 |}, cg_sample)) ]) ].
Definition cg_sample1 : cgem := {| cg_ints := [-1; 2; -3; 4; -5]; cg_d1 := [6; 7]; cg_posy := None; cg_d2 := [9; 10];
                                   cg_flag := [11; -12]; cg_strip := [13; 14; 15; 16] |}.
Definition cg_referenced_first_v1 : list (objhdr * colhdr * list (objhdr * (Z * tobject * cgem))) :=
  [ (HRef 200 2147483649,
     {| ch_nbytes := 190; ch_ver := 3; ch_tver := 1; ch_uid := 0; ch_bits := 33554432; ch_name := 0; ch_low := 0 |}, []);
    (HRef 200 2147483649,
     {| ch_nbytes := 190; ch_ver := 3; ch_tver := 1; ch_uid := 0; ch_bits := 33554432; ch_name := 0; ch_low := 0 |},
     [ (HRef 120 2147483653, (1, {| to_ver := 1; to_uid := 7; to_bits := 50331664; to_pidf := 9 |}, cg_sample1));
       (HRef 120 2147483653, (1, {| to_ver := 1; to_uid := 8; to_bits := 50331648; to_pidf := 0 |}, cg_sample1)) ]) ].
Lemma cg_referenced_first_ok : Forall (cgev_ok 0) cg_referenced_first /\ Forall (cgev_ok 1) cg_referenced_first_v1.
Proof.
  split; repeat constructor; cbn; unfold nbytes_wf, u16_wf, u32_wf, kByteCountMask, kNewClassTag, prim_wf; cbn; try lia;
    repeat constructor; cbn; try lia.
Qed.
(* the stream on which the reader used to throw (first object of the basket referenced, fNBytes 98), and its version-1
   sibling (empty first event, then fNBytes 90 followed by an unreferenced 88) *)
Lemma c01_ex_cgem_referenced_first_pf :
  (Forall (cgev_ok 0) cg_referenced_first /\ Forall (cgev_ok 1) cg_referenced_first_v1) /\
  cgem_branch (concat (map cgem_event_enc cg_referenced_first)) (0 :: prefix_sums 0 (map zlen (map cgem_event_enc cg_referenced_first)))
    = Some ((0, [0; 1]), [cg_sample]) /\
  cgem_branch (concat (map cgem_event_enc cg_referenced_first_v1)) (0 :: prefix_sums 0 (map zlen (map cgem_event_enc cg_referenced_first_v1)))
    = Some ((1, [0; 0; 2]), [cg_sample1; cg_sample1]).
Proof. split; [exact cg_referenced_first_ok|]. split; vm_compute; reflexivity. Qed.

(* one stored cluster read with the version flag still unknown: ANY fBits (kIsReferenced set or not) *)
Lemma c01_cgem_first_object_any_bits_pf : forall (cv : Z) (x : objhdr * (Z * tobject * cgem)) (rest : bytes),
  cgobj_ok cv x -> cgem_obj_read (-1) (cgem_obj_enc x ++ rest) = Some ((cv, cg_of x), rest).
Proof. intros cv x rest W. apply (cgem_obj_read_enc cv); [exact W|right; reflexivity]. Qed.
Lemma c01_digi_flatten_lossless_pf : forall fields : list (bytes * pv),
  fields <> [] -> In RAW (map fst fields) -> NoDup (map fst (splice fields)) ->
  flatten_digi (PRec fields) = Some (PRec (splice fields)) /\
  (forall kv, In kv (splice fields) <->
     (In kv fields /\ fst kv <> RAW) \/ (exists sub, In (RAW, PRec sub) fields /\ In kv sub)).
Proof. intros fields H1 H2 H3. split; [apply digi_flatten_lossless; assumption|intros kv; apply splice_In]. Qed.
Lemma c01_select_pf : forall r : req,
  (r_top r = TTObjArray -> r_registered r = true -> r_cgem_path r && negb (r_has_tcgemcluster r) = false -> select r = Some FTObjArray) /\
  (r_cgem_path r = true -> r_has_tcgemcluster r = false -> select r = Some FCgem) /\
  (r_top r = TBASE -> r_ftype r = 0 -> r_in_bes3 r = true -> r_target_item r = false ->
   r_cgem_path r && negb (r_has_tcgemcluster r) = false -> select r = Some FBes3Base) /\
  (r_target_item r = true -> r_top r = TPrimName -> r_cgem_path r && negb (r_has_tcgemcluster r) = false -> select r = Some FSym).
Proof. intros r. repeat split; [apply select_collection|apply select_cgem|apply select_base|apply select_sym]. Qed.
