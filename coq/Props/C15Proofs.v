(* C15 — proofs about the parser model PV.Model.RawParser (both variants chk = false / true).
   1. termination: with fuel = length buf + 1 no loop of the model runs out of fuel (every iteration performs at least
      one successful read at a strictly larger cursor, and a read at or beyond the end is never successful);
   2. the bounds-checked variant (chk = true) never answers OOB, keeps 0 <= cursor <= len, and — exact guard —
      whenever it does not raise one of its two new errors, the unchecked variant computes the very same answer;
   3. the unchecked variant (the pinned tree) does leave the buffer: concrete witnesses, one per primitive. *)
From Coq Require Import ZArith List Lia Bool.
From PV.Model Require Import RawFormat RawParser.
Import ListNotations.
Local Open Scope Z_scope.

Lemma zlen_nonneg {A} (l : list A) : 0 <= zlen l.
Proof. unfold zlen; lia. Qed.

Lemma rd_ok buf i w : words buf -> rd buf i = Ok w -> word w /\ 0 <= i < zlen buf.
Proof.
  unfold rd, words. intros Hw. destruct (andb _ _) eqn:E; [|discriminate].
  intros H; inversion H; subst. apply andb_true_iff in E. destruct E as [E1 E2].
  apply Z.leb_le in E1. apply Z.ltb_lt in E2. split; [|lia].
  rewrite Forall_forall in Hw. apply Hw. apply nth_In. unfold zlen in E2. lia.
Qed.

(* ---- state updates never move the cursor *)
Lemma cur_set_col d c s : cur (set_col d c s) = cur s.
Proof. destruct d; reflexivity. Qed.
Lemma cur_fill_digi d ws s : cur (fill_digi d ws s) = cur s.
Proof. unfold fill_digi. apply cur_set_col. Qed.
Lemma cur_push_offset d s : cur (push_offset d s) = cur s.
Proof. unfold push_offset. apply cur_set_col. Qed.
Lemma cur_push_hdr h s : cur (push_hdr h s) = cur s.
Proof. reflexivity. Qed.
Lemma cur_fill_offsets sel s : cur (fill_offsets sel s) = cur s.
Proof.
  unfold fill_offsets. generalize all_dets. intros l. revert s.
  induction l as [|d l IH]; intros s; [reflexivity|].
  cbn [fold_left]. rewrite IH. destruct (sel d); [apply cur_push_offset|reflexivity].
Qed.

Lemma sub32_nonneg a b : 0 <= sub32 a b.
Proof. unfold sub32. apply Z.mod_pos_bound. reflexivity. Qed.

(* ================================================================ 1. termination *)
Section Termination.
Variable chk : bool.
Variable buf : list Z.
Variable sel : det -> bool.
Hypothesis Hbuf : words buf.
Variable F : nat.

Definition P (k : Z) {A} (m : M A) : Prop :=
  forall s, 0 <= cur s -> Z.max 0 (zlen buf - cur s) < Z.of_nat F ->
    match m s with
    | Ok (_, s') => cur s + k <= cur s' /\ (0 < k -> cur s < zlen buf)
    | OutOfFuel => False
    | _ => True
    end.

Lemma P_weaken {A} (m : M A) : P 1 m -> P 0 m.
Proof. intros H s H0 H1. specialize (H s H0 H1). destruct (m s) as [[a s']| | |]; auto. split; lia. Qed.

Lemma P0_bind {A B} (m : M A) (f : A -> M B) : P 0 m -> (forall a, P 0 (f a)) -> P 0 (bind m f).
Proof.
  intros Hm Hf s H0 H1. unfold bind. specialize (Hm s H0 H1).
  destruct (m s) as [[a s']| | |]; auto. destruct Hm as [Hm _].
  assert (H0' : 0 <= cur s') by lia. assert (H1' : Z.max 0 (zlen buf - cur s') < Z.of_nat F) by lia.
  specialize (Hf a s' H0' H1'). destruct (f a s') as [[b s'']| | |]; auto. split; lia.
Qed.

Lemma read_spec s :
  match read chk buf s with
  | Ok (w, s') => word w /\ cur s' = cur s + 1 /\ 0 <= cur s < zlen buf
  | OutOfFuel => False
  | _ => True
  end.
Proof.
  unfold read. destruct (chk && _); [exact I|].
  destruct (rd buf (cur s)) as [w| | |] eqn:E; auto.
  - apply rd_ok in E; auto. simpl. tauto.
  - unfold rd in E. destruct (andb _ _); discriminate.
Qed.

Lemma P1_read_bind {B} (f : Z -> M B) : (forall w, word w -> P 0 (f w)) -> P 1 (bind (read chk buf) f).
Proof.
  intros Hf s H0 H1. unfold bind. pose proof (read_spec s) as R.
  destruct (read chk buf s) as [[w s']| | |]; auto. destruct R as (Hw & Hc & Hr).
  assert (H0' : 0 <= cur s') by lia. assert (H1' : Z.max 0 (zlen buf - cur s') < Z.of_nat F) by lia.
  specialize (Hf w Hw s' H0' H1'). destruct (f w s') as [[b s'']| | |]; auto. split; lia.
Qed.
Lemma P0_read_bind {B} (f : Z -> M B) : (forall w, word w -> P 0 (f w)) -> P 0 (bind (read chk buf) f).
Proof. intros. apply P_weaken. apply P1_read_bind; assumption. Qed.

Lemma P0_read : P 0 (read chk buf).
Proof.
  intros s H0 H1. pose proof (read_spec s) as R. destruct (read chk buf s) as [[w s']| | |]; auto. split; lia.
Qed.
Lemma P0_skip n : 0 <= n -> P 0 (skip chk buf n).
Proof. intros Hn s H0 H1. unfold skip. destruct (chk && _); [exact I|]. simpl. split; lia. Qed.
Lemma P0_read_n n : 0 <= n -> P 0 (read_n chk buf n).
Proof.
  intros Hn s H0 H1. unfold read_n. destruct (chk && _); [exact I|].
  destruct (rdn buf (cur s) n) as [ws| | |] eqn:E; auto.
  - simpl. split; lia.
  - unfold rdn in E. destruct (n =? 0); [discriminate|]. destruct (andb _ _); discriminate.
Qed.
Lemma P0_ret {A} (a : A) : P 0 (ret a).
Proof. intros s H0 H1. simpl. split; lia. Qed.
Lemma P0_throw {A} e : P 0 (@throw A e).
Proof. intros s H0 H1. exact I. Qed.
Lemma P0_modify f : (forall s, cur (f s) = cur s) -> P 0 (modify f).
Proof. intros Hf s H0 H1. simpl. rewrite Hf. split; lia. Qed.
Lemma P0_erase_front l n : P 0 (erase_front chk l n).
Proof. unfold erase_front. destruct (n <=? zlen l); [apply P0_ret|]. destruct chk; [apply P0_throw|]. intros s _ _; exact I. Qed.
Lemma P0_erase_back l n : P 0 (erase_back chk l n).
Proof. unfold erase_back. destruct (n <=? zlen l); [apply P0_ret|]. destruct chk; [apply P0_throw|]. intros s _ _; exact I. Qed.

Lemma word_nonneg w : word w -> 0 <= w.
Proof. unfold word; lia. Qed.

Ltac p0 :=
  repeat match goal with
  | |- P 0 (bind (read _ _) _) => apply P0_read_bind; intros ? ?
  | |- P 0 (bind _ _) => apply P0_bind; [|intros ?]
  | |- P 0 (if ?c then _ else _) => destruct c
  | |- P 0 (throw _) => apply P0_throw
  | |- P 0 (read _ _) => apply P0_read
  | |- P 0 (ret _) => apply P0_ret
  | |- P 0 (skip _ _ _) => apply P0_skip; try (apply word_nonneg; assumption); try apply sub32_nonneg; try lia
  | |- P 0 (read_n _ _ _) => apply P0_read_n; try apply sub32_nonneg
  | |- P 0 (erase_front _ _ _) => apply P0_erase_front
  | |- P 0 (erase_back _ _ _) => apply P0_erase_back
  | |- P 0 (modify _) => apply P0_modify; intros; first [apply cur_fill_digi | apply cur_push_hdr | apply cur_fill_offsets]
  end.

Lemma P1_read_ROB d : P 1 (read_ROB chk buf d).
Proof. unfold read_ROB. apply P1_read_bind; intros ? ?. p0. Qed.

(* a size loop whose body strictly advances cannot run out of fuel *)
Lemma P0_size_loop (body : M Z) : P 1 body -> forall n, P 0 (size_loop F body n).
Proof.
  intros Hb.
  assert (G : forall fuel n s, (fuel <= F)%nat -> 0 <= cur s -> Z.max 0 (zlen buf - cur s) < Z.of_nat fuel ->
              match size_loop fuel body n s with
              | Ok (_, s') => cur s <= cur s' | OutOfFuel => False | _ => True end).
  { induction fuel as [|f IH]; intros n s Hle H0 H1.
    - lia.
    - simpl. destruct (n >? 0); [|simpl; lia].
      unfold bind. assert (H1F : Z.max 0 (zlen buf - cur s) < Z.of_nat F) by lia.
      specialize (Hb s H0 H1F). destruct (body s) as [[nr s']| | |]; auto.
      destruct Hb as [Hb1 Hb2]. specialize (Hb2 ltac:(lia)).
      assert (Hle' : (f <= F)%nat) by lia.
      assert (H0' : 0 <= cur s') by lia.
      assert (H1' : Z.max 0 (zlen buf - cur s') < Z.of_nat f) by lia.
      specialize (IH (sub32 n nr) s' Hle' H0' H1').
      destruct (size_loop f body (sub32 n nr) s') as [[u s'']| | |]; auto. lia. }
  intros n s H0 H1. specialize (G F n s (le_n _) H0 H1).
  destruct (size_loop F body n s) as [[u s']| | |]; auto. split; lia.
Qed.

Lemma P1_read_ROS d : P 1 (read_ROS chk buf F d).
Proof.
  unfold read_ROS. apply P1_read_bind; intros ? ?. p0.
  apply P0_size_loop. apply P1_read_ROB.
Qed.

Lemma P1_read_sub_detector : P 1 (read_sub_detector chk buf sel F).
Proof.
  unfold read_sub_detector. apply P1_read_bind; intros ? ?. p0.
  destruct (det_of_id _) as [d|]; [destruct (sel d)|]; p0.
  apply P0_size_loop. apply P1_read_ROS.
Qed.

Lemma P1_read_event : P 1 (read_event chk buf sel F).
Proof.
  unfold read_event, read_event_rest. apply P1_read_bind; intros ? ?. p0.
  apply P0_size_loop. apply P1_read_sub_detector.
Qed.

Lemma P0_event_loop : P 0 (event_loop chk buf sel F F).
Proof.
  assert (G : forall fuel s, (fuel <= F)%nat -> 0 <= cur s -> Z.max 0 (zlen buf - cur s) < Z.of_nat fuel ->
              match event_loop chk buf sel F fuel s with
              | Ok (_, s') => cur s <= cur s' | OutOfFuel => False | _ => True end).
  { induction fuel as [|f IH]; intros s Hle H0 H1.
    - lia.
    - simpl. destruct (cur s <? zlen buf) eqn:E; [|lia].
      unfold bind. assert (H1F : Z.max 0 (zlen buf - cur s) < Z.of_nat F) by lia.
      pose proof (P1_read_event s H0 H1F) as Hb. destruct (read_event chk buf sel F s) as [[u s']| | |]; auto.
      destruct Hb as [Hb1 Hb2]. specialize (Hb2 ltac:(lia)).
      assert (Hle' : (f <= F)%nat) by lia.
      assert (H0' : 0 <= cur s') by lia.
      assert (H1' : Z.max 0 (zlen buf - cur s') < Z.of_nat f) by lia.
      specialize (IH s' Hle' H0' H1').
      destruct (event_loop chk buf sel F f s') as [[u' s'']| | |]; auto. lia. }
  intros s H0 H1. specialize (G F s (le_n _) H0 H1).
  destruct (event_loop chk buf sel F F s) as [[u s']| | |]; auto. split; lia.
Qed.
End Termination.

Lemma parse_state_terminates chk buf sel : words buf -> parse_state chk buf sel (fuel_for buf) <> OutOfFuel.
Proof.
  intros Hw. unfold parse_state, bind, modify.
  pose proof (P0_event_loop chk buf sel Hw (fuel_for buf) (fill_offsets sel init_state)) as H.
  assert (E : cur (fill_offsets sel init_state) = 0) by (rewrite cur_fill_offsets; reflexivity).
  rewrite E in H.
  assert (H0 : 0 <= 0) by lia.
  assert (H1 : Z.max 0 (zlen buf - 0) < Z.of_nat (fuel_for buf)).
  { unfold fuel_for, zlen. lia. }
  specialize (H H0 H1).
  destruct (event_loop chk buf sel (fuel_for buf) (fuel_for buf) (fill_offsets sel init_state)) as [[u s]| | |];
    try discriminate. contradiction.
Qed.

Lemma parser_terminates chk names buf : words buf -> read_bes_raw_gen chk (fuel_for buf) names buf <> OutOfFuel.
Proof.
  intros Hw. unfold read_bes_raw_gen. destruct (existsb _ _); [discriminate|].
  unfold parse_gen. pose proof (parse_state_terminates chk buf) as H.
  match goal with |- context [parse_state chk buf ?s _] => specialize (H s Hw); destruct (parse_state chk buf s (fuel_for buf)) end;
    try discriminate. contradiction.
Qed.

(* ================================================================ 2. the checked variant *)
Definition new_error {A} (r : res A) : bool :=
  match r with Throw EEnd | Throw ERodRange => true | _ => false end.

Section Checked.
Variable buf : list Z.
Variable sel : det -> bool.
Hypothesis Hbuf : words buf.

(* Sim m1 m2: m2 is the checked program, m1 the unchecked one, started in the same state with 0 <= cursor <= len *)
Definition Sim {A} (m1 m2 : M A) : Prop :=
  forall s, 0 <= cur s <= zlen buf ->
    match m2 s with
    | Ok (a, s') => 0 <= cur s' <= zlen buf /\ m1 s = Ok (a, s')
    | Throw e => (e = EEnd \/ e = ERodRange) \/ m1 s = Throw e
    | OOB _ _ => False
    | OutOfFuel => m1 s = OutOfFuel
    end.

Lemma Sim_bind {A B} (m1 m2 : M A) (f1 f2 : A -> M B) :
  Sim m1 m2 -> (forall a, Sim (f1 a) (f2 a)) -> Sim (bind m1 f1) (bind m2 f2).
Proof.
  intros Hm Hf s Hs. specialize (Hm s Hs). unfold bind.
  destruct (m2 s) as [[a s']|e| |].
  - destruct Hm as [Hc ->]. apply Hf. exact Hc.
  - destruct Hm as [Hm| ->]; auto.
  - contradiction.
  - rewrite Hm. reflexivity.
Qed.

Lemma Sim_read_bind {B} (f1 f2 : Z -> M B) :
  (forall w, word w -> Sim (f1 w) (f2 w)) -> Sim (bind (read false buf) f1) (bind (read true buf) f2).
Proof.
  intros Hf s Hs. unfold bind, read. simpl.
  destruct ((0 <=? cur s) && (cur s <? zlen buf)) eqn:E; simpl; [|auto].
  destruct (rd buf (cur s)) as [w| | |] eqn:R.
  - pose proof (rd_ok _ _ _ Hbuf R) as [Hw Hr]. apply Hf; [exact Hw|]. simpl. lia.
  - unfold rd in R. rewrite E in R. discriminate.
  - unfold rd in R. rewrite E in R. discriminate.
  - unfold rd in R. rewrite E in R. discriminate.
Qed.
Lemma Sim_refl_pure {A} (m : M A) :
  (forall s, match m s with Ok (_, s') => cur s' = cur s | OOB _ _ => False | _ => True end) -> Sim m m.
Proof.
  intros H s Hs. specialize (H s). destruct (m s) as [[a s']|e| |]; auto. split; [lia|reflexivity].
Qed.
Lemma Sim_read : Sim (read false buf) (read true buf).
Proof.
  intros s Hs. unfold read. simpl.
  destruct ((0 <=? cur s) && (cur s <? zlen buf)) eqn:E; simpl; [|auto].
  unfold rd. rewrite E. simpl. apply andb_true_iff in E. destruct E as [_ E]. apply Z.ltb_lt in E. split; [lia|reflexivity].
Qed.
Lemma Sim_skip n : 0 <= n -> Sim (skip false buf n) (skip true buf n).
Proof.
  intros Hn s Hs. unfold skip. simpl.
  destruct ((0 <=? cur s) && (cur s + n <=? zlen buf)) eqn:E; simpl; [|auto].
  apply andb_true_iff in E. destruct E as [_ E]. apply Z.leb_le in E. split; [lia|reflexivity].
Qed.
Lemma Sim_read_n n : 0 <= n -> Sim (read_n false buf n) (read_n true buf n).
Proof.
  intros Hn s Hs. unfold read_n. simpl.
  destruct ((0 <=? cur s) && (cur s + n <=? zlen buf)) eqn:E; simpl; [|auto].
  unfold rdn. destruct (n =? 0) eqn:N.
  - simpl. apply Z.eqb_eq in N. split; [lia|reflexivity].
  - rewrite E. simpl. apply andb_true_iff in E. destruct E as [_ E]. apply Z.leb_le in E. split; [lia|reflexivity].
Qed.
Lemma Sim_ret {A} (a : A) : Sim (ret a) (ret a).
Proof. intros s Hs. simpl. auto. Qed.
Lemma Sim_throw {A} e : Sim (@throw A e) (@throw A e).
Proof. intros s Hs. simpl. auto. Qed.
Lemma Sim_modify f : (forall s, cur (f s) = cur s) -> Sim (modify f) (modify f).
Proof. intros Hf s Hs. simpl. rewrite Hf. auto. Qed.
Lemma Sim_erase_front l n : Sim (erase_front false l n) (erase_front true l n).
Proof. unfold erase_front. destruct (n <=? zlen l); [apply Sim_ret|]. intros s Hs. simpl. auto. Qed.
Lemma Sim_erase_back l n : Sim (erase_back false l n) (erase_back true l n).
Proof. unfold erase_back. destruct (n <=? zlen l); [apply Sim_ret|]. intros s Hs. simpl. auto. Qed.

Ltac sim :=
  repeat match goal with
  | |- Sim (bind (read _ _) _) (bind (read _ _) _) => apply Sim_read_bind; intros ? ?
  | |- Sim (bind _ _) (bind _ _) => apply Sim_bind; [|intros ?]
  | |- Sim (if ?c then _ else _) (if ?c then _ else _) => destruct c
  | |- Sim (throw _) (throw _) => apply Sim_throw
  | |- Sim (read _ _) (read _ _) => apply Sim_read
  | |- Sim (ret _) (ret _) => apply Sim_ret
  | |- Sim (skip _ _ _) (skip _ _ _) => apply Sim_skip; try (apply word_nonneg; assumption); try apply sub32_nonneg; try lia
  | |- Sim (read_n _ _ _) (read_n _ _ _) => apply Sim_read_n; try apply sub32_nonneg
  | |- Sim (erase_front _ _ _) (erase_front _ _ _) => apply Sim_erase_front
  | |- Sim (erase_back _ _ _) (erase_back _ _ _) => apply Sim_erase_back
  | |- Sim (modify _) (modify _) => apply Sim_modify; intros; first [apply cur_fill_digi | apply cur_push_hdr | apply cur_fill_offsets]
  end.

Lemma Sim_read_ROB d : Sim (read_ROB false buf d) (read_ROB true buf d).
Proof. unfold read_ROB. sim. Qed.

Lemma Sim_size_loop (b1 b2 : M Z) : Sim b1 b2 -> forall fuel n, Sim (size_loop fuel b1 n) (size_loop fuel b2 n).
Proof.
  intros Hb. induction fuel as [|f IH]; intros n; simpl.
  - destruct (n >? 0); [|apply Sim_ret]. intros s Hs. reflexivity.
  - destruct (n >? 0); [|apply Sim_ret]. apply Sim_bind; [exact Hb|]. intros nr. apply IH.
Qed.

Lemma Sim_read_ROS fuel d : Sim (read_ROS false buf fuel d) (read_ROS true buf fuel d).
Proof. unfold read_ROS. sim. apply Sim_size_loop. apply Sim_read_ROB. Qed.

Lemma Sim_read_sub_detector fuel : Sim (read_sub_detector false buf sel fuel) (read_sub_detector true buf sel fuel).
Proof.
  unfold read_sub_detector. sim.
  destruct (det_of_id _) as [d|]; [destruct (sel d)|]; sim.
  apply Sim_size_loop. apply Sim_read_ROS.
Qed.

Lemma Sim_read_event fuel : Sim (read_event false buf sel fuel) (read_event true buf sel fuel).
Proof. unfold read_event, read_event_rest. sim. apply Sim_size_loop. apply Sim_read_sub_detector. Qed.

Lemma Sim_event_loop fuel0 fuel : Sim (event_loop false buf sel fuel0 fuel) (event_loop true buf sel fuel0 fuel).
Proof.
  induction fuel as [|f IH]; intros s Hs; simpl.
  - destruct (cur s <? zlen buf); [reflexivity|]. auto.
  - destruct (cur s <? zlen buf); [|auto].
    apply (Sim_bind _ _ _ _ (Sim_read_event fuel0) (fun _ => IH) s Hs).
Qed.

Lemma Sim_parse_state fuel :
  match parse_state true buf sel fuel with
  | Ok s => parse_state false buf sel fuel = Ok s
  | Throw e => (e = EEnd \/ e = ERodRange) \/ parse_state false buf sel fuel = Throw e
  | OOB _ _ => False
  | OutOfFuel => parse_state false buf sel fuel = OutOfFuel
  end.
Proof.
  unfold parse_state.
  assert (H : Sim (bind (modify (fill_offsets sel)) (fun _ => event_loop false buf sel fuel fuel))
                  (bind (modify (fill_offsets sel)) (fun _ => event_loop true buf sel fuel fuel))).
  { apply Sim_bind; [apply Sim_modify; apply cur_fill_offsets|]. intros _. apply Sim_event_loop. }
  specialize (H init_state). simpl cur in H. specialize (H (conj (Z.le_refl 0) (zlen_nonneg buf))).
  destruct (bind (modify (fill_offsets sel)) (fun _ => event_loop true buf sel fuel fuel) init_state) as [[u s]|e| |].
  - destruct H as [_ ->]. reflexivity.
  - destruct H as [H| ->]; auto.
  - contradiction.
  - rewrite H. reflexivity.
Qed.
End Checked.

(* the bounds-checked variant never leaves the buffer *)
Lemma parser_memory_safe fuel names buf : words buf -> forall k i, read_bes_raw_gen true fuel names buf <> OOB k i.
Proof.
  intros Hw k i. unfold read_bes_raw_gen. destruct (existsb _ _); [discriminate|].
  unfold parse_gen.
  match goal with |- context [parse_state true buf ?s fuel] =>
    pose proof (Sim_parse_state buf s Hw fuel) as H; destruct (parse_state true buf s fuel) end;
    try discriminate. contradiction.
Qed.

(* exact guard: wherever the checked variant does not raise one of its two new errors, the unchecked parser (the pinned
   tree) computes the same answer — in particular it stays inside the buffer there *)
Lemma unchecked_exact_guard fuel names buf : words buf ->
  new_error (read_bes_raw_gen true fuel names buf) = false ->
  read_bes_raw_gen false fuel names buf = read_bes_raw_gen true fuel names buf.
Proof.
  intros Hw. unfold read_bes_raw_gen. destruct (existsb _ _); [reflexivity|].
  unfold parse_gen.
  match goal with |- context [parse_state true buf ?s fuel] =>
    pose proof (Sim_parse_state buf s Hw fuel) as H; destruct (parse_state true buf s fuel) as [st|e| |] end.
  - rewrite H. reflexivity.
  - intros Hne. destruct H as [[-> | ->]| ->]; try discriminate. reflexivity.
  - contradiction.
  - rewrite H. reflexivity.
Qed.

(* ================================================================ 3. the unchecked variant leaves the buffer *)
Definition mini_event (body : list Z) : list Z :=
  [FULL_EVENT; 17 + zlen body; 17; EVT_VERSION; 0; 0; 10; 1; 2; 3; 4; 0; 0; 5; 6; 7; 8] ++ body.
Definition mini_sub (id : Z) (body : list Z) : list Z :=
  [SUB_DETECTOR; 7 + zlen body; 7; 0; id * 65536; 0; 0] ++ body.
Definition mini_ros (body : list Z) : list Z :=
  [ROS_FLAG; 10 + zlen body; 10; 0; 0; 0; 3; 0; 0; 0] ++ body.
Definition mini_rob (total : Z) (body trailer : list Z) : list Z :=
  [ROB_FLAG; total; 7; 0; 0; 0; 0; ROD_FLAG; 9; 0; 0; 0; 0; 0; 0; 0] ++ body ++ trailer.

Definition wordsb (l : list Z) : bool := forallb (fun w => (0 <=? w) && (w <? 2^32)) l.
Lemma wordsb_ok l : wordsb l = true -> words l.
Proof.
  unfold wordsb, words. rewrite forallb_forall, Forall_forall. intros H x Hx. specialize (H x Hx).
  apply andb_true_iff in H. destruct H as [H1 H2]. apply Z.leb_le in H1. apply Z.ltb_lt in H2. split; assumption.
Qed.

(* (a) truncation: a well-formed event cut after its first 5 words *)
Definition witness_truncated : list Z := firstn 5 (mini_event []).
(* (b) size arithmetic: rob_total_size = 0 makes date_length = 0 - 7 - 9 - 3 wrap to 2^32 - 19 *)
Definition witness_date_length : list Z :=
  mini_event (mini_sub 0xA1 (mini_ros (mini_rob 0 [5] [0; 1; 0]))).
(* (c) rod_n_status larger than the words present, status first *)
Definition witness_erase_front : list Z :=
  mini_event (mini_sub 0xA1 (mini_ros (mini_rob 20 [5] [7; 1; 0]))).
(* (d) rod_n_data larger than the words present, status last *)
Definition witness_erase_back : list Z :=
  mini_event (mini_sub 0xA1 (mini_ros (mini_rob 20 [5] [0; 9; 1]))).
(* (e) a count word: event n_status = 2^32-1 moves the cursor 16 GiB past the end, the next read is out of bounds *)
Definition witness_n_status : list Z :=
  [FULL_EVENT; 17; 17; EVT_VERSION; 0; 4294967295; 10; 1; 2; 3; 4; 0; 0; 5; 6; 7; 8].

Lemma refuted_read : words witness_truncated /\ parse [Mdc] witness_truncated = OOB OobRead 5.
Proof. split; [apply wordsb_ok; vm_compute; reflexivity | vm_compute; reflexivity]. Qed.
Lemma refuted_bulk : words witness_date_length /\ parse [Mdc] witness_date_length = OOB OobBulk 54.
Proof. split; [apply wordsb_ok; vm_compute; reflexivity | vm_compute; reflexivity]. Qed.
Lemma refuted_erase_front : words witness_erase_front /\ parse [Mdc] witness_erase_front = OOB OobEraseFront 7.
Proof. split; [apply wordsb_ok; vm_compute; reflexivity | vm_compute; reflexivity]. Qed.
Lemma refuted_erase_back : words witness_erase_back /\ parse [Mdc] witness_erase_back = OOB OobEraseBack 9.
Proof. split; [apply wordsb_ok; vm_compute; reflexivity | vm_compute; reflexivity]. Qed.
Lemma refuted_count : words witness_n_status /\ parse [Mdc] witness_n_status = OOB OobRead 4294967301.
Proof. split; [apply wordsb_ok; vm_compute; reflexivity | vm_compute; reflexivity]. Qed.

(* the same buffers through the checked variant: an exception instead *)
Lemma fixed_on_witnesses :
  parse_gen true (fuel_for witness_truncated) [Mdc] witness_truncated = Throw EEnd /\
  parse_gen true (fuel_for witness_date_length) [Mdc] witness_date_length = Throw EEnd /\
  parse_gen true (fuel_for witness_erase_front) [Mdc] witness_erase_front = Throw ERodRange /\
  parse_gen true (fuel_for witness_erase_back) [Mdc] witness_erase_back = Throw ERodRange /\
  parse_gen true (fuel_for witness_n_status) [Mdc] witness_n_status = Throw EEnd.
Proof. repeat split; vm_compute; reflexivity. Qed.

(* a well-formed event with one MDC word: decoded identically by both variants *)
Definition witness_erase_ok : list Z :=
  mini_event (mini_sub 0xA1 (mini_ros (mini_rob 20 [5] [0; 1; 0]))).
Lemma both_decode :
  parse [Mdc] witness_erase_ok = parse_gen true (fuel_for witness_erase_ok) [Mdc] witness_erase_ok /\
  exists r, parse [Mdc] witness_erase_ok = Ok r /\ r_hdr r = [[1; 2; 3; 4; 5; 6; 7; 8]].
Proof. split; [vm_compute; reflexivity|]. eexists. split; [vm_compute; reflexivity|reflexivity]. Qed.
