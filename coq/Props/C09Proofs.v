(* C09 — geometry lookups vs published tables: proofs over the REGENERATED tables (exact dyadics) and kernels. *)
From Coq Require Import ZArith List Bool Reals Lia Lra ZifyBool.
Import ListNotations.
From PV.Lib Require Import Bits Tables RTables.
From PV.Gen Require Import TabMdcInt TabEmcInt GidMdc GidEmc TabPos PosCode.
From PV.Gen Require Import TabMdcPos_east_x TabMdcPos_east_y TabMdcPos_east_z TabMdcPos_west_x TabMdcPos_west_y TabMdcPos_west_z.
From PV.Gen Require Import TabEmcPos_0 TabEmcPos_1 TabEmcPos_2 TabEmcPos_3 TabEmcPos_4 TabEmcPos_5 TabEmcPos_6 TabEmcPos_7.

(* ---------------- accessors index the right column with the right index ---------------- *)
Lemma mdc_lookup_is_row g :
  mdc_gid_to_west_x g = rlookup mdc_pos_K mdc_west_x g /\ mdc_gid_to_west_y g = rlookup mdc_pos_K mdc_west_y g /\
  mdc_gid_to_west_z g = rlookup mdc_pos_K mdc_west_z g /\ mdc_gid_to_east_x g = rlookup mdc_pos_K mdc_east_x g /\
  mdc_gid_to_east_y g = rlookup mdc_pos_K mdc_east_y g /\ mdc_gid_to_east_z g = rlookup mdc_pos_K mdc_east_z g /\
  mdc_gid_to_layer g = tlookup mdc_layer g /\ mdc_gid_to_wire g = tlookup mdc_wire g /\
  mdc_gid_to_superlayer g = tlookup mdc_superlayer g /\ mdc_gid_to_stereo g = tlookup mdc_stereo g /\
  mdc_gid_to_is_stereo g = tlookup mdc_is_stereo g.
Proof. repeat split; reflexivity. Qed.

Lemma emc_lookup_is_row g k :
  emc_gid_to_center_x g = rlookup emc_pos_K emc_center_x g /\ emc_gid_to_center_y g = rlookup emc_pos_K emc_center_y g /\
  emc_gid_to_center_z g = rlookup emc_pos_K emc_center_z g /\
  emc_gid_to_front_center_x g = rlookup emc_pos_K emc_front_center_x g /\
  emc_gid_to_front_center_y g = rlookup emc_pos_K emc_front_center_y g /\
  emc_gid_to_front_center_z g = rlookup emc_pos_K emc_front_center_z g /\
  emc_gid_to_point_x g k = rlookup2 emc_pos_K emc_points_x g k /\ emc_gid_to_point_y g k = rlookup2 emc_pos_K emc_points_y g k /\
  emc_gid_to_point_z g k = rlookup2 emc_pos_K emc_points_z g k /\
  t2w emc_points_x = 8%Z /\ t2w emc_points_y = 8%Z /\ t2w emc_points_z = 8%Z /\
  emc_gid_to_part g = tlookup emc_part g /\ emc_gid_to_theta g = tlookup emc_theta g /\ emc_gid_to_phi g = tlookup emc_phi g.
Proof. repeat split; reflexivity. Qed.

(* ---------------- wire interpolation: on the straight line through the two end points, for every real z -------- *)
Local Open Scope R_scope.
Lemma wire_on_line_gen g z :
  mdc_gid_to_east_z g <> mdc_gid_to_west_z g ->
  (mdc_gid_z_to_x g z - mdc_gid_to_west_x g) * (mdc_gid_to_east_z g - mdc_gid_to_west_z g)
    = (mdc_gid_to_east_x g - mdc_gid_to_west_x g) * (z - mdc_gid_to_west_z g) /\
  (mdc_gid_z_to_y g z - mdc_gid_to_west_y g) * (mdc_gid_to_east_z g - mdc_gid_to_west_z g)
    = (mdc_gid_to_east_y g - mdc_gid_to_west_y g) * (z - mdc_gid_to_west_z g).
Proof.
  unfold mdc_gid_z_to_x, mdc_gid_z_to_y, dx_dz, dy_dz, mdc_gid_to_east_z, mdc_gid_to_west_z, mdc_gid_to_west_x,
    mdc_gid_to_west_y, mdc_gid_to_east_x, mdc_gid_to_east_y.
  intro H. split; field; lra.
Qed.

Local Open Scope Z_scope.
Definition zlen (l : list Z) : Z := Z.of_nat (length l).

Lemma mdc_pos_lengths : zlen mdc_east_x = 6796 /\ zlen mdc_east_y = 6796 /\ zlen mdc_east_z = 6796 /\
  zlen mdc_west_x = 6796 /\ zlen mdc_west_y = 6796 /\ zlen mdc_west_z = 6796 /\ zlen mdc_stereo = 6796 /\
  zlen mdc_is_stereo = 6796 /\ zlen mdc_layer = 6796 /\ zlen mdc_superlayer = 6796 /\ zlen mdc_wire = 6796.
Proof. vm_compute. repeat split. Qed.

(* zipped row view of the position table (each column evaluated once under vm_compute) *)
Definition mdc_pos_rows := combine mdc_east_x (combine mdc_east_y (combine mdc_east_z
                          (combine mdc_west_x (combine mdc_west_y (combine mdc_west_z mdc_stereo))))).
Definition row_at (g : Z) := (tlookup mdc_east_x g, (tlookup mdc_east_y g, (tlookup mdc_east_z g,
                          (tlookup mdc_west_x g, (tlookup mdc_west_y g, (tlookup mdc_west_z g, tlookup mdc_stereo g)))))).

Lemma mdc_row_nth g : 0 <= g < 6796 -> nth (Z.to_nat g) mdc_pos_rows (0,(0,(0,(0,(0,(0,0)))))) = row_at g.
Proof.
  intro Hg. destruct mdc_pos_lengths as (L1 & L2 & L3 & L4 & L5 & L6 & L7 & _). unfold zlen in *.
  unfold mdc_pos_rows, row_at, tlookup.
  repeat (rewrite combine_nth; [f_equal| rewrite ?combine_length; lia]). 
Qed.

Lemma mdc_rows_forall (P : _ -> bool) : forallb P mdc_pos_rows = true -> forall g, 0 <= g < 6796 -> P (row_at g) = true.
Proof.
  intros H g Hg. rewrite <- mdc_row_nth by exact Hg. apply forallb_nth; [exact H|].
  destruct mdc_pos_lengths as (L1 & L2 & L3 & L4 & L5 & L6 & L7 & _). unfold zlen in *.
  unfold mdc_pos_rows. rewrite !combine_length. lia.
Qed.

Definition sgn (z : Z) : Z := if z >? 0 then 1 else if z <? 0 then -1 else 0.

Definition span_ok (r : Z*(Z*(Z*(Z*(Z*(Z*Z)))))) : bool :=
  let '(ex,(ey,(ez,(wx,(wy,(wz,st)))))) := r in negb (ez =? wz) && (ez =? - wz).
Definition stereo_ok (r : Z*(Z*(Z*(Z*(Z*(Z*Z)))))) : bool :=
  let '(ex,(ey,(ez,(wx,(wy,(wz,st)))))) := r in sgn (ex * wy - ey * wx) =? st.

Lemma span_all : forallb span_ok mdc_pos_rows = true.
Proof. vm_compute. reflexivity. Qed.

Lemma mdc_span g : 0 <= g < 6796 ->
  tlookup mdc_east_z g <> tlookup mdc_west_z g /\ tlookup mdc_east_z g = - tlookup mdc_west_z g.
Proof. intro Hg. pose proof (mdc_rows_forall span_ok span_all g Hg) as H. unfold row_at, span_ok in H. lia. Qed.

Lemma rlookup_neq K a b g : 0 <= K -> tlookup a g <> tlookup b g -> rlookup K a g <> rlookup K b g.
Proof.
  intros HK H E. unfold rlookup in E. apply H. apply eq_IZR.
  pose proof (pow2K_pos K HK) as P. 
  apply (Rmult_eq_reg_r (/ IZR (2 ^ K))); [exact E|]. apply Rinv_neq_0_compat. lra.
Qed.

Local Open Scope R_scope.
Lemma wire_on_line g z : (0 <= g < 6796)%Z ->
  (mdc_gid_z_to_x g z - mdc_gid_to_west_x g) * (mdc_gid_to_east_z g - mdc_gid_to_west_z g)
    = (mdc_gid_to_east_x g - mdc_gid_to_west_x g) * (z - mdc_gid_to_west_z g) /\
  (mdc_gid_z_to_y g z - mdc_gid_to_west_y g) * (mdc_gid_to_east_z g - mdc_gid_to_west_z g)
    = (mdc_gid_to_east_y g - mdc_gid_to_west_y g) * (z - mdc_gid_to_west_z g) /\
  mdc_gid_to_east_z g <> mdc_gid_to_west_z g.
Proof.
  intro Hg. assert (N : mdc_gid_to_east_z g <> mdc_gid_to_west_z g).
  { unfold mdc_gid_to_east_z, mdc_gid_to_west_z. apply rlookup_neq; [vm_compute; discriminate|]. apply mdc_span; exact Hg. }
  destruct (wire_on_line_gen g z N) as [A B]. repeat split; assumption.
Qed.

Lemma wire_endpoints g : (0 <= g < 6796)%Z ->
  mdc_gid_z_to_x g (mdc_gid_to_west_z g) = mdc_gid_to_west_x g /\ mdc_gid_z_to_y g (mdc_gid_to_west_z g) = mdc_gid_to_west_y g /\
  mdc_gid_z_to_x g (mdc_gid_to_east_z g) = mdc_gid_to_east_x g /\ mdc_gid_z_to_y g (mdc_gid_to_east_z g) = mdc_gid_to_east_y g.
Proof.
  intro Hg. destruct (wire_on_line g 0 Hg) as (_ & _ & N).
  unfold mdc_gid_z_to_x, mdc_gid_z_to_y, dx_dz, dy_dz, mdc_gid_to_east_z, mdc_gid_to_west_z, mdc_gid_to_west_x,
    mdc_gid_to_west_y, mdc_gid_to_east_x, mdc_gid_to_east_y in *.
  repeat split; field; lra.
Qed.

(* the mid point (wire position at z = 0, as documented for mid_x / mid_y) is the mean of the two end points *)
Lemma mid_is_mean g : (0 <= g < 6796)%Z ->
  mdc_gid_z_to_x g 0 = (mdc_gid_to_west_x g + mdc_gid_to_east_x g) / 2 /\
  mdc_gid_z_to_y g 0 = (mdc_gid_to_west_y g + mdc_gid_to_east_y g) / 2.
Proof.
  intro Hg. destruct (wire_on_line g 0 Hg) as (_ & _ & N). destruct (mdc_span g Hg) as [_ S].
  assert (E : mdc_gid_to_east_z g = - mdc_gid_to_west_z g).
  { unfold mdc_gid_to_east_z, mdc_gid_to_west_z, rlookup. rewrite S, opp_IZR. field.
    pose proof (pow2K_pos mdc_pos_K ltac:(vm_compute; discriminate)). lra. }
  unfold mdc_gid_z_to_x, mdc_gid_z_to_y, dx_dz, dy_dz.
  fold (mdc_gid_to_east_z g) (mdc_gid_to_west_z g) (mdc_gid_to_east_x g) (mdc_gid_to_west_x g)
       (mdc_gid_to_east_y g) (mdc_gid_to_west_y g) in *.
  rewrite E in *. split; field; lra.
Qed.

(* ---------------- stereo sign = sign of the azimuthal twist between the wire ends (exact arithmetic) -------- *)
Local Open Scope Z_scope.
Lemma stereo_all : forallb stereo_ok mdc_pos_rows = true.
Proof. vm_compute. reflexivity. Qed.

Lemma stereo_sign_is_twist g : 0 <= g < 6796 ->
  tlookup mdc_stereo g =
  sgn (tlookup mdc_east_x g * tlookup mdc_west_y g - tlookup mdc_east_y g * tlookup mdc_west_x g).
Proof. intro Hg. pose proof (mdc_rows_forall stereo_ok stereo_all g Hg) as H. unfold row_at, stereo_ok in H. lia. Qed.

Definition int_row_ok (g : Z) : bool :=
  let l := tlookup mdc_layer g in let s := tlookup mdc_stereo g in
  (tlookup mdc_is_stereo g =? (if s =? 0 then 0 else 1)) &&
  (s =? tlookup mdc_stereo (tlookup layer_start_gid l)) &&
  (mdc_layer_to_is_stereo l =? tlookup mdc_is_stereo g) &&
  (mdc_layer_to_superlayer l =? tlookup mdc_superlayer g) &&
  (0 <=? l) && (l <? 43).

Lemma int_rows_all : forallb int_row_ok (zseq 6796) = true.
Proof. vm_compute. reflexivity. Qed.

Lemma stereo_flag_layer_superlayer g : 0 <= g < 6796 ->
  let l := mdc_gid_to_layer g in
  mdc_gid_to_is_stereo g = (if mdc_gid_to_stereo g =? 0 then 0 else 1) /\
  mdc_gid_to_stereo g = mdc_gid_to_stereo (tlookup layer_start_gid l) /\
  mdc_layer_to_is_stereo l = mdc_gid_to_is_stereo g /\
  mdc_layer_to_superlayer l = mdc_gid_to_superlayer g /\ 0 <= l < 43.
Proof.
  intro Hg. pose proof (forallb_zseq int_row_ok 6796 int_rows_all g Hg) as H. unfold int_row_ok in H.
  unfold mdc_gid_to_layer, mdc_gid_to_is_stereo, mdc_gid_to_stereo, mdc_gid_to_superlayer. cbv zeta.
  repeat (apply andb_true_iff in H; destruct H as [H ?]). repeat split; lia.
Qed.

Lemma stereo_uniform_in_layer g1 g2 : 0 <= g1 < 6796 -> 0 <= g2 < 6796 ->
  mdc_gid_to_layer g1 = mdc_gid_to_layer g2 -> mdc_gid_to_stereo g1 = mdc_gid_to_stereo g2.
Proof.
  intros H1 H2 E. destruct (stereo_flag_layer_superlayer g1 H1) as (_ & A & _).
  destruct (stereo_flag_layer_superlayer g2 H2) as (_ & B & _). cbv zeta in *. rewrite A, B, E. reflexivity.
Qed.

(* ---------------- barrel crystals: centre / front centre are centroids of the corner points ---------------- *)
(* values are scaled by 2^emc_pos_K; tolerance 2^-40 cm (the published table is rounded), i.e. 2^(K-40) scaled *)
Definition tolZ : Z := 2 ^ (emc_pos_K - 40).
Definition sum8 (p : list Z) (i : Z) : Z :=
  tlookup p (8*i) + tlookup p (8*i+1) + tlookup p (8*i+2) + tlookup p (8*i+3) +
  tlookup p (8*i+4) + tlookup p (8*i+5) + tlookup p (8*i+6) + tlookup p (8*i+7).
Definition sum4 (p : list Z) (i : Z) : Z := tlookup p (8*i) + tlookup p (8*i+1) + tlookup p (8*i+2) + tlookup p (8*i+3).
Definition centroid_row_ok (c f p : list Z) (i : Z) : bool :=
  (Z.abs (8 * tlookup c i - sum8 p i) <=? 8 * tolZ) && (Z.abs (4 * tlookup f i - sum4 p i) <=? 4 * tolZ).
Definition centroid_chunk_ok (k rows : Z) (cx cy cz fx fy fz px py pz : list Z) : bool :=
  forallb (fun i => if tlookup emc_part (emc_chunk * k + i) =? 1
                    then centroid_row_ok cx fx px i && centroid_row_ok cy fy py i && centroid_row_ok cz fz pz i
                    else true) (zseq rows).

Ltac chunk_tac := vm_compute; reflexivity.
Lemma centroid_chunk_0 : centroid_chunk_ok 0 emc_chunk_rows_0 emc_center_x_0 emc_center_y_0 emc_center_z_0 emc_front_center_x_0 emc_front_center_y_0 emc_front_center_z_0 emc_points_x_0 emc_points_y_0 emc_points_z_0 = true. Proof. chunk_tac. Qed.
Lemma centroid_chunk_1 : centroid_chunk_ok 1 emc_chunk_rows_1 emc_center_x_1 emc_center_y_1 emc_center_z_1 emc_front_center_x_1 emc_front_center_y_1 emc_front_center_z_1 emc_points_x_1 emc_points_y_1 emc_points_z_1 = true. Proof. chunk_tac. Qed.
Lemma centroid_chunk_2 : centroid_chunk_ok 2 emc_chunk_rows_2 emc_center_x_2 emc_center_y_2 emc_center_z_2 emc_front_center_x_2 emc_front_center_y_2 emc_front_center_z_2 emc_points_x_2 emc_points_y_2 emc_points_z_2 = true. Proof. chunk_tac. Qed.
Lemma centroid_chunk_3 : centroid_chunk_ok 3 emc_chunk_rows_3 emc_center_x_3 emc_center_y_3 emc_center_z_3 emc_front_center_x_3 emc_front_center_y_3 emc_front_center_z_3 emc_points_x_3 emc_points_y_3 emc_points_z_3 = true. Proof. chunk_tac. Qed.
Lemma centroid_chunk_4 : centroid_chunk_ok 4 emc_chunk_rows_4 emc_center_x_4 emc_center_y_4 emc_center_z_4 emc_front_center_x_4 emc_front_center_y_4 emc_front_center_z_4 emc_points_x_4 emc_points_y_4 emc_points_z_4 = true. Proof. chunk_tac. Qed.
Lemma centroid_chunk_5 : centroid_chunk_ok 5 emc_chunk_rows_5 emc_center_x_5 emc_center_y_5 emc_center_z_5 emc_front_center_x_5 emc_front_center_y_5 emc_front_center_z_5 emc_points_x_5 emc_points_y_5 emc_points_z_5 = true. Proof. chunk_tac. Qed.
Lemma centroid_chunk_6 : centroid_chunk_ok 6 emc_chunk_rows_6 emc_center_x_6 emc_center_y_6 emc_center_z_6 emc_front_center_x_6 emc_front_center_y_6 emc_front_center_z_6 emc_points_x_6 emc_points_y_6 emc_points_z_6 = true. Proof. chunk_tac. Qed.
Lemma centroid_chunk_7 : centroid_chunk_ok 7 emc_chunk_rows_7 emc_center_x_7 emc_center_y_7 emc_center_z_7 emc_front_center_x_7 emc_front_center_y_7 emc_front_center_z_7 emc_points_x_7 emc_points_y_7 emc_points_z_7 = true. Proof. chunk_tac. Qed.

Lemma chunk_rows_total : emc_chunk_rows_0 + emc_chunk_rows_1 + emc_chunk_rows_2 + emc_chunk_rows_3 + emc_chunk_rows_4 +
  emc_chunk_rows_5 + emc_chunk_rows_6 + emc_chunk_rows_7 = 6240 /\ emc_chunk = 780 /\ emc_nchunk = 8 /\
  zlen (t2flat emc_points_x) = 49920 /\ zlen emc_center_x = 6240 /\
  zlen (filter (fun p => p =? 1) emc_part) = 5280.
Proof. vm_compute. repeat split. Qed.

(* ---------------- private copies: any history of retrieval / in-place modification / lookup ---------------- *)
Inductive op := Get | Mutate (h col idx : nat) (v : Z) | Lookup (col idx : nat).
Record world := { tabs : list (list Z); handed : list (list (list Z)) }.

Fixpoint set_nth {A} (n : nat) (x : A) (l : list A) : list A :=
  match l, n with [] , _ => [] | _ :: r, O => x :: r | a :: r, S m => a :: set_nth m x r end.
Definition mutate_tab (t : list (list Z)) (col idx : nat) (v : Z) : list (list Z) :=
  set_nth col (set_nth idx v (nth col t [])) t.

(* copy = true : handed-out tables are fresh copies; copy = false : they alias the module's tables *)
Definition step (copy : bool) (w : world) (o : op) : world * option Z :=
  match o with
  | Get => ({| tabs := tabs w; handed := handed w ++ [tabs w] |}, None)
  | Mutate h col idx v =>
      if copy then ({| tabs := tabs w; handed := set_nth h (mutate_tab (nth h (handed w) []) col idx v) (handed w) |}, None)
      else ({| tabs := mutate_tab (tabs w) col idx v; handed := handed w |}, None)
  | Lookup col idx => (w, Some (nth idx (nth col (tabs w) []) 0))
  end.

Fixpoint run (copy : bool) (w : world) (ops : list op) : list (option Z) :=
  match ops with [] => [] | o :: r => let '(w', out) := step copy w o in out :: run copy w' r end.

Definition pristine (t : list (list Z)) (o : op) : option Z :=
  match o with Lookup col idx => Some (nth idx (nth col t []) 0) | _ => None end.

Lemma copies_private t : forall ops hs, run true {| tabs := t; handed := hs |} ops = map (pristine t) ops.
Proof.
  induction ops as [|o r IH]; intro hs; [reflexivity|].
  destruct o as [|h col idx v|col idx]; cbn [run step map pristine tabs handed]; f_equal; apply IH.
Qed.

Lemma alias_refuted : exists t ops, run false {| tabs := t; handed := [] |} ops <> map (pristine t) ops.
Proof. exists [[1;2;3]], [Get; Mutate 0 0 1 99; Lookup 0 1]. vm_compute. discriminate. Qed.
