(* C08 — global IDs: complete finite computations over the REGENERATED tables and kernels. *)
From Coq Require Import ZArith List Lia Bool ZifyBool.
Import ListNotations.
From PV.Lib Require Import Bits Tables.
From PV.Gen Require Import DigiId TabMdcInt TabEmcInt GidMdc GidEmc.
From PV.Props Require Import C05Proofs.
Local Open Scope Z_scope.

(* ---- documented numbering (docs/user-manual/detector/global-id.md) ---- *)
Definition ring (part theta : Z) (n : Z) : list (Z * Z * Z) := map (fun phi => (part, theta, phi)) (zseq n).
Definition endcap_ring_size (theta : Z) : Z :=
  if theta <? 2 then 64 else if theta <? 4 then 80 else 96.
Definition emc_documented_order : list (Z * Z * Z) :=
  flat_map (fun th => ring 0 th (endcap_ring_size th)) [0; 1; 2; 3; 4; 5] ++
  flat_map (fun th => ring 1 th 120) (zseq 44) ++
  flat_map (fun th => ring 2 th (endcap_ring_size th)) [5; 4; 3; 2; 1; 0].

(* wires per layer of the BESIII MDC (pinned; the sum 6796 and the first entry 40 are in the documentation) *)
Definition mdc_wires_per_layer : list Z :=
  [40; 44; 48; 56; 64; 72; 80; 80; 76; 76; 88; 88; 100; 100; 112; 112; 128; 128; 140; 140;
   160; 160; 160; 160; 176; 176; 176; 176; 208; 208; 208; 208; 240; 240; 240; 240;
   256; 256; 256; 256; 288; 288; 288].
Definition mdc_documented_order : list (Z * Z) :=
  flat_map (fun l => map (fun w => (l, w)) (zseq (tlookup mdc_wires_per_layer l))) (zseq 43).

Definition emc_rows : list (Z * Z * Z) := map (fun g => (tlookup emc_part g, tlookup emc_theta g, tlookup emc_phi g)) (zseq 6240).
Definition mdc_rows : list (Z * Z) := map (fun g => (tlookup mdc_layer g, tlookup mdc_wire g)) (zseq 6796).

Definition zzeqb (a b : Z * Z) := (fst a =? fst b) && (snd a =? snd b).
Definition zzzeqb (a b : Z * Z * Z) := zzeqb (fst a) (fst b) && (snd a =? snd b).
Fixpoint list_eqb {A} (eqb : A -> A -> bool) (xs ys : list A) : bool :=
  match xs, ys with [], [] => true | x :: xr, y :: yr => eqb x y && list_eqb eqb xr yr | _, _ => false end.
Lemma list_eqb_sound {A} (eqb : A -> A -> bool) (H : forall a b, eqb a b = true -> a = b) xs :
  forall ys, list_eqb eqb xs ys = true -> xs = ys.
Proof. induction xs as [|x xr IH]; intros [|y yr]; simpl; try discriminate; auto.
  intro E. apply andb_true_iff in E. destruct E as [E1 E2]. f_equal; auto. Qed.
Lemma zzeqb_sound a b : zzeqb a b = true -> a = b.
Proof. destruct a, b; unfold zzeqb; simpl. intro E. apply andb_true_iff in E. destruct E. f_equal; lia. Qed.
Lemma zzzeqb_sound a b : zzzeqb a b = true -> a = b.
Proof. destruct a as [a1 a2], b as [b1 b2]; unfold zzzeqb; simpl. intro E. apply andb_true_iff in E. destruct E as [E1 E2].
  apply zzeqb_sound in E1. f_equal; [assumption | lia]. Qed.
Lemma zeqb_sound a b : Z.eqb a b = true -> a = b. Proof. lia. Qed.

(* ---- EMC ---- *)
Lemma emc_sizes : Z.of_nat (length emc_gid) = 6240 /\ Z.of_nat (length emc_part) = 6240 /\
  Z.of_nat (length emc_theta) = 6240 /\ Z.of_nat (length emc_phi) = 6240.
Proof. vm_compute. repeat split. Qed.

Lemma emc_gid_column_is_index : emc_gid = zseq 6240.
Proof. apply (list_eqb_sound Z.eqb zeqb_sound). vm_compute. reflexivity. Qed.

Lemma emc_table_in_documented_order : emc_rows = emc_documented_order.
Proof. apply (list_eqb_sound zzzeqb zzzeqb_sound). vm_compute. reflexivity. Qed.

Lemma emc_enumeration : map (fun c => get_emc_gid (fst (fst c)) (snd (fst c)) (snd c)) emc_documented_order = zseq 6240.
Proof. apply (list_eqb_sound Z.eqb zeqb_sound). vm_compute. reflexivity. Qed.

Definition emc_real (p t f : Z) : Prop := In (p, t, f) emc_documented_order.

Definition emc_realb (p t f : Z) : bool := existsb (zzzeqb (p, t, f)) emc_documented_order.
Lemma emc_realb_sound p t f : emc_realb p t f = true -> emc_real p t f.
Proof. unfold emc_realb, emc_real. intro H. apply existsb_exists in H. destruct H as (c & Hin & E).
  apply zzzeqb_sound in E. subst c. exact Hin. Qed.

Lemma emc_gid_then_row p t f : emc_real p t f ->
  let g := get_emc_gid p t f in
  0 <= g < 6240 /\ emc_gid_to_part g = p /\ emc_gid_to_theta g = t /\ emc_gid_to_phi g = f /\ tlookup emc_gid g = g.
Proof.
  assert (H : forallb (fun c => let '(p, t, f) := c in let g := get_emc_gid p t f in
            (0 <=? g) && (g <? 6240) && (emc_gid_to_part g =? p) && (emc_gid_to_theta g =? t) && (emc_gid_to_phi g =? f)
            && (tlookup emc_gid g =? g)) emc_documented_order = true) by (vm_compute; reflexivity).
  rewrite forallb_forall in H. intros Hin. specialize (H _ Hin). cbv beta iota zeta in H.
  repeat (apply andb_true_iff in H; destruct H as [H ?]). intro g. subst g. repeat split; lia.
Qed.

Lemma emc_row_then_gid g : 0 <= g < 6240 ->
  emc_real (emc_gid_to_part g) (emc_gid_to_theta g) (emc_gid_to_phi g) /\
  get_emc_gid (emc_gid_to_part g) (emc_gid_to_theta g) (emc_gid_to_phi g) = g.
Proof.
  intro Hg. split.
  - unfold emc_real. rewrite <- emc_table_in_documented_order. unfold emc_rows, emc_gid_to_part, emc_gid_to_theta, emc_gid_to_phi.
    apply in_map_iff. exists g. split; [reflexivity|]. apply in_zseq; lia.
  - apply Z.eqb_eq.
    apply (forallb_zseq (fun g => get_emc_gid (emc_gid_to_part g) (emc_gid_to_theta g) (emc_gid_to_phi g) =? g) 6240).
    + vm_compute; reflexivity.
    + exact Hg.
Qed.

(* parse_emc_digi_id: gid computed from the digi identifier = gid computed from the fields, for every real crystal *)
Lemma emc_fields_in_range p t f : emc_real p t f -> 0 <= p < 16 /\ 0 <= t < 64 /\ 0 <= f < 256.
Proof.
  assert (H : forallb (fun c => let '(p, t, f) := c in (0 <=? p) && (p <? 16) && (0 <=? t) && (t <? 64) && (0 <=? f) && (f <? 256))
            emc_documented_order = true) by (vm_compute; reflexivity).
  rewrite forallb_forall in H. intros Hin. specialize (H _ Hin). cbv beta iota in H.
  repeat (apply andb_true_iff in H; destruct H as [H ?]). lia.
Qed.

Lemma emc_parse_digi_gid p t f : emc_real p t f ->
  let id := get_emc_digi_id p t f in
  get_emc_gid (emc_id_to_module id) (emc_id_to_theta id) (emc_id_to_phi id) = get_emc_gid p t f /\ check_emc_id id = true.
Proof.
  intros Hr id. destruct (emc_fields_in_range p t f Hr) as (Hp & Ht & Hf).
  destruct (emc_decode_encode p t f) as (E1 & E2 & E3 & Tg & _). fold id in E1, E2, E3, Tg.
  rewrite E1, E2, E3. rewrite !Z.mod_small by lia. split; [reflexivity|]. destruct Tg as (_ & _ & Tg & _). exact Tg.
Qed.

(* ---- MDC ---- *)
Lemma mdc_sizes : Z.of_nat (length mdc_gid) = 6796 /\ Z.of_nat (length mdc_layer) = 6796 /\
  Z.of_nat (length mdc_wire) = 6796 /\ Z.of_nat (length layer_start_gid) = 44 /\ fold_right Z.add 0 mdc_wires_per_layer = 6796.
Proof. vm_compute. repeat split. Qed.

Lemma mdc_gid_column_is_index : mdc_gid = zseq 6796.
Proof. apply (list_eqb_sound Z.eqb zeqb_sound). vm_compute. reflexivity. Qed.

Lemma mdc_table_in_documented_order : mdc_rows = mdc_documented_order.
Proof. apply (list_eqb_sound zzeqb zzeqb_sound). vm_compute. reflexivity. Qed.

Lemma mdc_enumeration : map (fun c => get_mdc_gid (fst c) (snd c)) mdc_documented_order = zseq 6796.
Proof. apply (list_eqb_sound Z.eqb zeqb_sound). vm_compute. reflexivity. Qed.

Definition mdc_real (l w : Z) : Prop := In (l, w) mdc_documented_order.

Lemma mdc_real_iff l w : mdc_real l w <-> 0 <= l < 43 /\ 0 <= w < tlookup mdc_wires_per_layer l.
Proof.
  unfold mdc_real, mdc_documented_order. rewrite in_flat_map. split.
  - intros (l' & Hl' & Hin). apply in_map_iff in Hin. destruct Hin as (w' & E & Hw'). inversion E; subst.
    apply in_zseq in Hl'. apply in_zseq in Hw'. lia.
  - intros (Hl & Hw). exists l. split.
    + apply in_zseq; lia.
    + apply in_map_iff. exists w. split; [reflexivity|]. apply in_zseq; lia.
Qed.

Lemma mdc_gid_then_row l w : mdc_real l w ->
  let g := get_mdc_gid l w in
  0 <= g < 6796 /\ mdc_gid_to_layer g = l /\ mdc_gid_to_wire g = w /\ tlookup mdc_gid g = g.
Proof.
  assert (H : forallb (fun c => let '(l, w) := c in let g := get_mdc_gid l w in
            (0 <=? g) && (g <? 6796) && (mdc_gid_to_layer g =? l) && (mdc_gid_to_wire g =? w) && (tlookup mdc_gid g =? g))
            mdc_documented_order = true) by (vm_compute; reflexivity).
  rewrite forallb_forall in H. intros Hin. specialize (H _ Hin). cbv beta iota zeta in H.
  repeat (apply andb_true_iff in H; destruct H as [H ?]). intro g. subst g. repeat split; lia.
Qed.

Lemma mdc_row_then_gid g : 0 <= g < 6796 ->
  mdc_real (mdc_gid_to_layer g) (mdc_gid_to_wire g) /\ get_mdc_gid (mdc_gid_to_layer g) (mdc_gid_to_wire g) = g.
Proof.
  intro Hg. split.
  - unfold mdc_real. rewrite <- mdc_table_in_documented_order. unfold mdc_rows, mdc_gid_to_layer, mdc_gid_to_wire.
    apply in_map_iff. exists g. split; [reflexivity|]. apply in_zseq; lia.
  - apply Z.eqb_eq.
    apply (forallb_zseq (fun g => get_mdc_gid (mdc_gid_to_layer g) (mdc_gid_to_wire g) =? g) 6796).
    + vm_compute; reflexivity.
    + exact Hg.
Qed.

Lemma mdc_fields_in_range l w : mdc_real l w -> 0 <= l < 64 /\ 0 <= w < 512.
Proof.
  assert (H : forallb (fun c => let '(l, w) := c in (0 <=? l) && (l <? 64) && (0 <=? w) && (w <? 512)) mdc_documented_order = true)
    by (vm_compute; reflexivity).
  rewrite forallb_forall in H. intros Hin. specialize (H _ Hin). cbv beta iota in H.
  repeat (apply andb_true_iff in H; destruct H as [H ?]). lia.
Qed.

Lemma mdc_parse_digi_gid l w wt : mdc_real l w ->
  let id := get_mdc_digi_id w l wt in
  get_mdc_gid (mdc_id_to_layer id) (mdc_id_to_wire id) = get_mdc_gid l w /\ check_mdc_id id = true.
Proof.
  intros Hr id. destruct (mdc_fields_in_range l w Hr) as (Hl & Hw).
  destruct (mdc_decode_encode w l wt) as (E1 & E2 & _ & Tg & _). fold id in E1, E2, Tg.
  rewrite E1, E2. rewrite !Z.mod_small by lia. split; [reflexivity|]. destruct Tg as (Tg & _). exact Tg.
Qed.
