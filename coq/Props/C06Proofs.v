(* C06 — the tangent statement as a derivative: d/ds of the trajectory (Coquelicot is_derive) at the new reference point is
   anti-parallel/parallel to the momentum direction (azimuth phi0' + pi/2), with factor -r. *)
From Coq Require Import Reals Lra.
From Coquelicot Require Import Coquelicot.
From PV.Lib Require Import RealAux.
From PV.Model Require Import HelixSpec.
Local Open Scope R_scope.

Lemma traj_derivative dr phi0 kappa dz tanl x0 y0 z0 s :
  is_derive (fun t => traj_x dr phi0 kappa x0 t) s (rsigned kappa * sin (phi0 + s)) /\
  is_derive (fun t => traj_y dr phi0 kappa y0 t) s (- rsigned kappa * cos (phi0 + s)) /\
  is_derive (fun t => traj_z dz kappa tanl z0 t) s (- rsigned kappa * tanl).
Proof.
  unfold traj_x, traj_y, traj_z. split; [|split]; (auto_derive; [exact I | ring]).
Qed.

Lemma tangent_is_momentum_direction dr phi0 kappa dz tanl x0 y0 z0 :
  is_derive (fun t => traj_x dr phi0 kappa x0 t) 0 (- rsigned kappa * cos (phi0 + PI / 2)) /\
  is_derive (fun t => traj_y dr phi0 kappa y0 t) 0 (- rsigned kappa * sin (phi0 + PI / 2)) /\
  is_derive (fun t => traj_z dz kappa tanl z0 t) 0 (- rsigned kappa * tanl).
Proof.
  destruct (traj_derivative dr phi0 kappa dz tanl x0 y0 z0 0) as (A & B & C).
  rewrite Rplus_0_r in A, B. rewrite cos_plus, sin_plus, cos_PI2, sin_PI2.
  split; [|split].
  - replace (- rsigned kappa * (cos phi0 * 0 - sin phi0 * 1)) with (rsigned kappa * sin phi0) by ring. exact A.
  - replace (- rsigned kappa * (sin phi0 * 0 + cos phi0 * 1)) with (- rsigned kappa * cos phi0) by ring. exact B.
  - exact C.
Qed.
