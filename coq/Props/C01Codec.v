(* C01 — proofs, part 1: the schema-driven decoder inverts the encoder (all types, all sizes, in front of any
   continuation).  Nested induction: over sty for STL payloads, over mty (with Forall on the member list) for
   streamer elements; inner inductions over the element lists. *)
From Coq Require Import ZArith List Lia Bool.
Import ListNotations.
From PV.Model Require Import RootStream RootSchema.
Local Open Scope Z_scope.

(* ---------------------------------------------------------------- induction principle for mty *)
Section mty_ind2.
  Variable P : mty -> Prop.
  Hypothesis HPrim : forall dims p, P (MPrim dims p).
  Hypothesis HStr : forall dims, P (MStr dims).
  Hypothesis HStl : forall dims t, P (MStl dims t).
  Hypothesis HTArr : forall p, P (MTArr p).
  Hypothesis HTObj : P MTObj.
  Hypothesis HSym : forall n, P (MSym n).
  Hypothesis HBase : forall name names ms, Forall P ms -> P (MBase name names ms).
  Fixpoint mty_ind2 (t : mty) : P t :=
    match t with
    | MPrim dims p => HPrim dims p
    | MStr dims => HStr dims
    | MStl dims t' => HStl dims t'
    | MTArr p => HTArr p
    | MTObj => HTObj
    | MSym n => HSym n
    | MBase name names ms =>
        HBase name names ms ((fix go (ms : list mty) : Forall P ms :=
                                match ms with [] => Forall_nil P | m :: r => Forall_cons m (mty_ind2 m) (go r) end) ms)
    end.
End mty_ind2.

(* ---------------------------------------------------------------- sequences *)
Lemma rep_enc {A B} (f : bytes -> option (B * bytes)) (enc : A -> bytes) (proj : A -> B) (P : A -> Prop) :
  (forall e rest, P e -> f (enc e ++ rest) = Some (proj e, rest)) ->
  forall es rest, Forall P es -> rep f (length es) (concat (map enc es) ++ rest) = Some (map proj es, rest).
Proof.
  intros H. induction es as [|e es IH]; intros rest HP; [reflexivity|].
  inversion HP; subst. cbn [length map concat rep]. rewrite <- app_assoc. rewrite H by assumption. cbn [bind].
  rewrite IH by assumption. reflexivity.
Qed.
Lemma rep_enc_id {A} (f : bytes -> option (A * bytes)) (enc : A -> bytes) (P : A -> Prop) :
  (forall e rest, P e -> f (enc e ++ rest) = Some (e, rest)) ->
  forall es rest, Forall P es -> rep f (length es) (concat (map enc es) ++ rest) = Some (es, rest).
Proof. intros H es rest HP. rewrite (rep_enc f enc (fun e => e) P H es rest HP). now rewrite map_id. Qed.

Lemma concat_min_length {A} (enc : A -> bytes) (P : A -> Prop) :
  (forall e, P e -> (1 <= length (enc e))%nat) ->
  forall es, Forall P es -> (length es <= length (concat (map enc es)))%nat.
Proof.
  intros H. induction 1 as [|e es He _ IH]; simpl; [lia|]. rewrite app_length. specialize (H e He). lia.
Qed.
Lemma read_count_enc n tail : u32_wf (Z.of_nat n) -> (n <= length tail)%nat ->
  read_count (be_enc 4 (Z.of_nat n) ++ tail) = Some (n, tail).
Proof.
  intros W L. unfold read_count. rewrite be4 by assumption. cbn [bind].
  assert (zlen tail <? Z.of_nat n = false) as -> by (unfold zlen; lia). now rewrite Nat2Z.id.
Qed.

(* ---------------------------------------------------------------- STL payloads *)
Lemma prim_enc_pos p v : (1 <= length (prim_enc p v))%nat.
Proof. rewrite prim_enc_length. destruct p; simpl; lia. Qed.
Lemma tstring_enc_pos s : (1 <= length (tstring_enc s))%nat.
Proof. unfold tstring_enc. destruct (zlen s <? 255); simpl; lia. Qed.
Lemma senc_pos t v : swf t v -> (1 <= length (senc t v))%nat.
Proof.
  destruct t, v; cbn [swf senc]; try tauto; intros _.
  - apply prim_enc_pos.
  - apply tstring_enc_pos.
  - rewrite app_length, be_enc_length. lia.
  - rewrite app_length, be_enc_length. lia.
Qed.

Definition pair_ok (k v : sty) (e : val) : Prop := match e with VPair a b => swf k a /\ swf v b | _ => False end.
Definition pair_enc (k v : sty) (e : val) : bytes := match e with VPair a b => senc k a ++ senc v b | _ => [] end.

Lemma sdec_senc t : forall v rest, swf t v -> sdec t (senc t v ++ rest) = Some (v, rest).
Proof.
  induction t as [p| |t IH|k IHk v IHv]; intros x rest W; destruct x; cbn [swf] in W; try tauto.
  - cbn [senc sdec]. rewrite prim_dec_enc by assumption. reflexivity.
  - cbn [senc sdec]. rewrite read_tstring_enc by assumption. reflexivity.
  - destruct W as [W1 W2]. cbn [senc sdec]. rewrite <- app_assoc. unfold zlen in *.
    rewrite read_count_enc; [|assumption|].
    + cbn [bind]. rewrite (rep_enc_id (sdec t) (senc t) (swf t)) by (auto). reflexivity.
    + rewrite app_length. pose proof (concat_min_length (senc t) (swf t) (senc_pos t) l W2). lia.
  - destruct W as [W1 W2]. cbn [senc sdec]. rewrite <- app_assoc. unfold zlen in *.
    fold (pair_enc k v). fold (pair_ok k v) in W2.
    rewrite read_count_enc; [|assumption|].
    + cbn [bind].
      rewrite (rep_enc_id _ (pair_enc k v) (pair_ok k v)); [reflexivity| |assumption].
      intros e r He. destruct e; cbn [pair_ok] in He; try tauto. destruct He as [Ha Hb].
      cbn [pair_enc]. rewrite <- app_assoc. rewrite IHk by assumption. cbn [bind]. rewrite IHv by assumption. reflexivity.
    + rewrite app_length.
      assert (H : forall e, pair_ok k v e -> (1 <= length (pair_enc k v e))%nat).
      { intros e He. destruct e; cbn [pair_ok] in He; try tauto. cbn [pair_enc]. rewrite app_length.
        pose proof (senc_pos k e1 (proj1 He)). lia. }
      pose proof (concat_min_length _ _ H l W2) as H0. eapply Nat.le_trans; [exact H0|]. apply Nat.le_add_r.
Qed.

Lemma combine_pairs l : Forall (fun e => match e with VPair _ _ => True | _ => False end) l ->
  map (fun kv => VPair (fst kv) (snd kv))
      (combine (map (fun e => match e with VPair a _ => a | _ => e end) l)
               (map (fun e => match e with VPair _ b => b | _ => e end) l)) = l.
Proof. induction 1 as [|e l He _ IH]; [reflexivity|]. destruct e; try tauto. simpl. now rewrite IH. Qed.

Lemma sdec_mw_enc k v l rest : u32_wf (zlen l) -> Forall (pair_ok k v) l ->
  sdec_mw k v (senc_mw k v l ++ rest) = Some (VList l, rest).
Proof.
  intros W1 W2. unfold sdec_mw, senc_mw. rewrite <- !app_assoc. unfold zlen in *.
  assert (Hk : forall e, pair_ok k v e -> (1 <= length (match e with VPair a _ => senc k a | _ => [] end))%nat).
  { intros e He. destruct e; cbn [pair_ok] in He; try tauto. apply senc_pos, He. }
  rewrite read_count_enc; [|assumption|].
  - cbn [bind].
    rewrite (rep_enc (sdec k) _ (fun e => match e with VPair a _ => a | _ => e end) (pair_ok k v)); [|
      intros e r He; destruct e; cbn [pair_ok] in He; try tauto; apply sdec_senc, He | assumption].
    cbn [bind].
    rewrite (rep_enc (sdec v) _ (fun e => match e with VPair _ b => b | _ => e end) (pair_ok k v)); [|
      intros e r He; destruct e; cbn [pair_ok] in He; try tauto; apply sdec_senc, He | assumption].
    cbn [bind]. rewrite combine_pairs; [reflexivity|].
    eapply Forall_impl; [|exact W2]. intros e He. destruct e; cbn [pair_ok] in He; tauto.
  - rewrite app_length. pose proof (concat_min_length _ _ Hk l W2) as H0. eapply Nat.le_trans; [exact H0|]. apply Nat.le_add_r.
Qed.

(* ---------------------------------------------------------------- windows *)
Lemma window_enc {A} (inner : bytes -> option (A * bytes)) payload a rest :
  nbytes_wf (zlen payload) -> inner payload = Some (a, []) ->
  window inner (nbytes_enc (zlen payload) ++ payload ++ rest) = Some (a, rest).
Proof.
  intros W H. unfold window. rewrite read_nbytes_enc by assumption. cbn [bind].
  unfold zlen. rewrite Nat2Z.id, take_app. cbn [bind]. rewrite H. reflexivity.
Qed.
Lemma menc_window_len payload : zlen (nbytes_enc (zlen payload) ++ payload) - 4 = zlen payload.
Proof. unfold zlen. rewrite app_length, nbytes_enc_length. lia. Qed.

(* ---------------------------------------------------------------- streamer elements *)
Definition num_ok (p : prim) (e : val) : Prop := match e with VNum z => prim_wf p z | _ => False end.
Definition num_enc (p : prim) (e : val) : bytes := match e with VNum z => prim_enc p z | _ => [] end.
Definition str_ok (e : val) : Prop := match e with VStr s => tstring_wf s | _ => False end.
Definition str_enc (e : val) : bytes := match e with VStr s => tstring_enc s | _ => [] end.

Lemma num_dec_enc p e rest : num_ok p e -> num_dec p (num_enc p e ++ rest) = Some (e, rest).
Proof. destruct e; cbn [num_ok]; try tauto. intros W. unfold num_dec. cbn [num_enc]. now rewrite prim_dec_enc. Qed.
Lemma str_dec_enc e rest : str_ok e -> str_dec (str_enc e ++ rest) = Some (e, rest).
Proof. destruct e; cbn [str_ok]; try tauto. intros W. unfold str_dec. cbn [str_enc]. now rewrite read_tstring_enc. Qed.

Lemma dec_seq_enc ms : Forall (fun t => forall v rest, mwf t v -> mdec t (menc t v ++ rest) = Some (v, rest)) ms ->
  forall fields rest, all2 mwf ms fields ->
  dec_seq mdec ms (enc_seq menc ms fields ++ rest) = Some (fields, rest).
Proof.
  induction 1 as [|t ms Ht _ IH]; intros fields rest W; destruct fields as [|f fields]; cbn [all2] in W; try tauto.
  destruct W as [W1 W2]. cbn [enc_seq dec_seq]. rewrite <- app_assoc. rewrite Ht by assumption. cbn [bind].
  rewrite IH by assumption. reflexivity.
Qed.

Lemma stl_body_dec_enc t ver body : is_container t -> swf t body ->
  (match t with SMap _ _ => True | _ => is_memberwise ver = false end) ->
  stl_body_dec t ver (stl_body_enc t ver body ++ []) = Some (body, []).
Proof.
  intros C W M. destruct t as [| |t|k v]; cbn [is_container] in C; try tauto.
  - unfold stl_body_dec, stl_body_enc. rewrite M. destruct body; apply sdec_senc; assumption.
  - unfold stl_body_dec, stl_body_enc. destruct body; cbn [swf] in W; try tauto.
    destruct (is_memberwise ver).
    + destruct W as [W1 W2]. apply sdec_mw_enc; assumption.
    + apply sdec_senc. exact W.
Qed.

Theorem mdec_menc : forall t v rest, mwf t v -> mdec t (menc t v ++ rest) = Some (v, rest).
Proof.
  induction t as [dims p|dims|dims t|p| |n|name names ms IH] using mty_ind2; intros v rest W.
  - (* MPrim *)
    destruct dims as [|d ds].
    + destruct v; cbn [mwf] in W; try tauto. cbn [menc mdec]. unfold num_dec. now rewrite prim_dec_enc.
    + destruct v; cbn [mwf] in W; try tauto. destruct W as [L F]. cbn [menc mdec]. rewrite <- L.
      fold (num_enc p). fold (num_ok p) in F. rewrite (rep_enc_id _ (num_enc p) (num_ok p)); auto using num_dec_enc.
  - (* MStr *)
    destruct dims as [|d ds].
    + destruct v; cbn [mwf] in W; try tauto. cbn [menc mdec]. unfold str_dec. now rewrite read_tstring_enc.
    + destruct v as [| | | | | |ver extra body]; cbn [mwf] in W; try tauto. destruct body; try tauto.
      destruct W as (Wv & -> & L & F & N). cbn [menc] in N |- *. cbv zeta in N |- *.
      rewrite menc_window_len in N. cbn [mdec]. rewrite <- app_assoc. apply window_enc; [exact N|].
      rewrite be2 by assumption. cbn [bind]. rewrite <- L. fold str_enc. fold str_ok in F.
      rewrite <- (app_nil_r (concat _)). rewrite (rep_enc_id _ str_enc str_ok); auto using str_dec_enc.
  - (* MStl *)
    destruct dims as [|d ds].
    + destruct v as [| | | | | |ver extra body]; cbn [mwf] in W; try tauto.
      destruct W as (Wv & Le & C & Wb & M & N). cbn [menc] in N |- *. cbv zeta in N |- *.
      rewrite menc_window_len in N. cbn [mdec]. rewrite <- app_assoc. apply window_enc; [exact N|].
      rewrite be2 by assumption. cbn [bind]. rewrite <- Le, take_app. cbn [bind].
      rewrite <- (app_nil_r (stl_body_enc _ _ _)). rewrite stl_body_dec_enc by assumption. reflexivity.
    + destruct v as [| | | | | |ver extra body]; cbn [mwf] in W; try tauto. destruct body; try tauto.
      destruct W as (Wv & Le & M & L & F & N). cbn [menc] in N |- *. cbv zeta in N |- *.
      rewrite menc_window_len in N. cbn [mdec]. rewrite <- app_assoc. apply window_enc; [exact N|].
      rewrite be2 by assumption. cbn [bind]. rewrite <- Le, take_app. cbn [bind]. rewrite M. rewrite <- L.
      rewrite <- (app_nil_r (concat _)). rewrite (rep_enc_id _ (senc t) (swf t)); auto using sdec_senc.
  - (* MTArr *)
    destruct v; cbn [mwf] in W; try tauto. destruct W as [W1 W2]. cbn [menc mdec]. rewrite <- app_assoc.
    fold (num_enc p). fold (num_ok p) in W2. unfold zlen in *.
    rewrite read_count_enc; [|assumption|].
    + cbn [bind]. rewrite (rep_enc_id _ (num_enc p) (num_ok p)); auto using num_dec_enc.
    + rewrite app_length.
      assert (H : forall e, num_ok p e -> (1 <= length (num_enc p e))%nat).
      { intros e He. destruct e; cbn [num_ok] in He; try tauto. apply prim_enc_pos. }
      pose proof (concat_min_length _ _ H l W2) as H0. eapply Nat.le_trans; [exact H0|]. apply Nat.le_add_r.
  - (* MTObj *)
    destruct v; cbn [mwf] in W; try tauto. cbn [menc mdec]. now rewrite read_tobject_enc.
  - (* MSym *)
    destruct v; cbn [mwf] in W; try tauto. destruct W as [L F]. cbn [menc mdec]. rewrite <- L.
    fold (num_enc PF64). fold (num_ok PF64) in F. rewrite (rep_enc_id _ (num_enc PF64) (num_ok PF64)); auto using num_dec_enc.
  - (* MBase *)
    destruct v as [| | | | |ver fields|]; cbn [mwf] in W; try tauto.
    destruct W as (Wv & Wf & N). cbn [menc] in N |- *. cbv zeta in N |- *.
    rewrite menc_window_len in N. cbn [mdec]. rewrite <- app_assoc. apply window_enc; [exact N|].
    rewrite be2 by assumption. cbn [bind].
    rewrite <- (app_nil_r (enc_seq _ _ _)). rewrite dec_seq_enc by assumption. reflexivity.
Qed.
