(* C03 / C04 — proofs about the reader model PV.Model.RawReader on the encoding of a well-formed file. *)
From Coq Require Import ZArith List Lia Bool Permutation.
From PV.Model Require Import RawFormat RawParser RawReader.
From PV.Props Require Import C03Proofs.
Import ListNotations.
Local Open Scope Z_scope.

(* ================================================================ word access *)
Lemma rdw_at fw i x l : at_ fw i (x :: l) -> rdw fw i = x.
Proof.
  intros H. destruct (at_cons _ _ _ _ H) as (R & _ & B). unfold rdw. unfold rd in R.
  destruct ((0 <=? i) && (i <? zlen fw)); [inversion R; reflexivity|discriminate].
Qed.
Lemma at_here l post : at_ (l ++ post) 0 l.
Proof. exists [], post. split; reflexivity. Qed.
Lemma at_shift pre buf i l : at_ buf i l -> at_ (pre ++ buf) (zlen pre + i) l.
Proof.
  intros (p & q & -> & <-). exists (pre ++ p), q. split; [rewrite <- app_assoc; reflexivity|apply zlen_app].
Qed.
Lemma at_in_app pre l post : at_ (pre ++ l ++ post) (zlen pre) l.
Proof. exists pre, post. split; reflexivity. Qed.
Lemma at_prefix buf i l1 l2 : at_ buf i (l1 ++ l2) -> at_ buf i l1.
Proof. intros H. apply (at_app _ _ _ _ H). Qed.
Lemma at_suffix buf i l1 l2 : at_ buf i (l1 ++ l2) -> at_ buf (i + zlen l1) l2.
Proof. intros H. apply (at_app _ _ _ _ H). Qed.

(* ================================================================ name / tag packing *)
Lemma pack_le_len pad : forall fuel bs, (length bs < fuel)%nat -> zlen (pack_le fuel bs pad) = (zlen bs + 3) / 4.
Proof.
  induction fuel as [|f IH]; intros bs Hl; [lia|].
  destruct bs as [|a [|b [|c [|d rest]]]]; cbn [pack_le]; try reflexivity.
  rewrite zlen_cons. rewrite IH by (cbn [length] in Hl; lia). rewrite !zlen_cons.
  replace (1 + (1 + (1 + (1 + zlen rest))) + 3) with (zlen rest + 3 + 1 * 4) by lia.
  rewrite Z.div_add by lia. lia.
Qed.
Lemma pack_bytes_len bs pad : zlen (pack_bytes bs pad) = ceil4 (zlen bs).
Proof. unfold pack_bytes, ceil4. apply pack_le_len. lia. Qed.

(* ================================================================ _preprocess_file *)
Section File.
Variable f : rawfile.
Hypothesis Hwf : wf_file f.
Let H := enc_file_header f.
Let B := enc_blocks (f_blocks f).
Let T := enc_file_tail f.
Let fw := enc_file f.

Lemma fw_eq : fw = H ++ B ++ T.
Proof. reflexivity. Qed.

Lemma header_len : zlen H = 8 + 2 + ceil4 (zlen (f_name f)) + 1 + ceil4 (zlen (f_tag f)) + 2 + 7.
Proof.
  destruct Hwf as (_ & _ & _ & _ & _ & _ & _ & _ & _ & _ & _ & _ & _ & _ & _ & Hrp & _).
  unfold H, enc_file_header. repeat (rewrite ?zlen_app, ?zlen_cons, ?(@zlen_nil Z)). rewrite !pack_bytes_len.
  rewrite (zlen_length7 _ _ Hrp). lia.
Qed.
Lemma tail_len : zlen T = 10.
Proof.
  destruct Hwf as (_ & _ & _ & _ & _ & _ & _ & _ & _ & _ & _ & _ & _ & _ & _ & _ & _ & _ & Ht1 & _ & _ & Ht2).
  unfold T, enc_file_tail. repeat (rewrite ?zlen_app, ?zlen_cons, ?(@zlen_nil Z)).
  rewrite (zlen_length7 _ _ Ht1), (zlen_length7 _ _ Ht2). lia.
Qed.

Lemma preprocess_ok :
  preprocess fw = ROk {| data_start := zlen H; data_end := zlen H + zlen B; entries := f_entries f |}.
Proof.
  pose proof header_len as HL. pose proof tail_len as TL.
  pose proof (zlen_nonneg B) as PB. pose proof (zlen_nonneg (f_name f)) as PN. pose proof (zlen_nonneg (f_tag f)) as PT.
  destruct Hwf as (_ & _ & _ & _ & _ & _ & _ & _ & _ & _ & _ & _ & _ & _ & _ & Hrp & _ & _ & Ht1 & _ & _ & Ht2).
  assert (Hh : at_ fw 0 H) by (rewrite fw_eq; apply at_here).
  assert (Ht : at_ fw (zlen H + zlen B) T).
  { exists (H ++ B), []. split; [rewrite app_nil_r, <- app_assoc; apply fw_eq|apply zlen_app]. }
  assert (Hsize : zlen fw = zlen H + zlen B + 10) by (rewrite fw_eq, !zlen_app, TL; lia).
  unfold H, enc_file_header in Hh. cbn [app] in Hh.
  unfold preprocess.
  rewrite (rdw_at _ _ _ _ Hh). change (FILE_START =? FILE_START) with true. cbn [negb].
  do 8 apply at_tail in Hh. change (0 + 1 + 1 + 1 + 1 + 1 + 1 + 1 + 1) with 8 in Hh.
  rewrite (rdw_at _ _ _ _ Hh). change (FILE_NAME =? FILE_NAME) with true. cbn [negb].
  apply at_tail in Hh. change (8 + 1) with 9 in Hh. rewrite (rdw_at _ _ _ _ Hh).
  apply at_tail in Hh. change (9 + 1) with 10 in Hh.
  apply at_suffix in Hh. rewrite pack_bytes_len in Hh. cbn [app] in Hh.
  rewrite (rdw_at _ _ _ _ Hh).
  apply at_tail in Hh. apply at_suffix in Hh. rewrite pack_bytes_len in Hh. cbn [app] in Hh.
  rewrite (rdw_at _ _ _ _ Hh). change (RUN_PARAMS =? RUN_PARAMS) with true. cbn [negb].
  rewrite Hsize. replace (zlen H + zlen B + 10 <? 10) with false by (symmetry; apply Z.ltb_ge; pose proof (zlen_nonneg H); lia).
  unfold T, enc_file_tail in Ht. cbn [app] in Ht.
  replace (zlen H + zlen B + 10 - 10) with (zlen H + zlen B) by lia.
  rewrite (rdw_at _ _ _ _ Ht). change (FILE_TAIL_START =? FILE_TAIL_START) with true. cbn [negb].
  apply at_tail in Ht. apply at_suffix in Ht. rewrite (zlen_length7 _ _ Ht1) in Ht. cbn [app] in Ht.
  replace (zlen H + zlen B + 10 - 6) with (zlen H + zlen B + 1 + Z.of_nat 3) by lia.
  pose proof (rdw_at _ _ _ _ Ht) as He.
  apply at_tail in Ht. apply at_suffix in Ht. rewrite (zlen_length7 _ _ Ht2) in Ht.
  replace (zlen H + zlen B + 10 - 1) with (zlen H + zlen B + 1 + Z.of_nat 3 + 1 + Z.of_nat 4) by lia.
  rewrite (rdw_at _ _ _ _ Ht). change (FILE_END =? FILE_END) with true. cbn [negb].
  rewrite He. f_equal. f_equal. rewrite HL. lia.
Qed.
End File.

(* ================================================================ _read_batch *)
Fixpoint chunks_f {A} (fuel k : nat) (l : list A) : list (list A) :=
  match fuel with
  | O => []
  | S f => match l with [] => [] | _ => firstn k l :: chunks_f f k (skipn k l) end
  end.
(* consecutive groups of k elements (the last one may be shorter) *)
Definition chunks {A} (k : nat) (l : list A) : list (list A) := chunks_f (length l) k l.

Lemma enc_block_len b : zlen (enc_block b) = 4 + zlen (flat_map enc_event (bk_events b)).
Proof. unfold enc_block. rewrite zlen_app. reflexivity. Qed.
Lemma enc_blocks_app a b : enc_blocks (a ++ b) = enc_blocks a ++ enc_blocks b.
Proof. unfold enc_blocks. apply flat_map_app. Qed.
Lemma enc_blocks_split k bs : enc_blocks bs = enc_blocks (firstn k bs) ++ enc_blocks (skipn k bs).
Proof. rewrite <- enc_blocks_app, firstn_skipn. reflexivity. Qed.

Section Batches.
Variable fw : list Z.
Variable st : rstate.

Lemma batch_scan_ok : forall n bs p cnt,
  at_ fw p (enc_blocks bs) -> p + zlen (enc_blocks bs) = data_end st ->
  batch_scan fw st n p cnt = ROk (p + zlen (enc_blocks (firstn n bs)), cnt + Z.of_nat (length (firstn n bs))).
Proof.
  induction n as [|n IH]; intros bs p cnt Hat Hend.
  - cbn. f_equal. f_equal; lia.
  - destruct bs as [|b bs].
    + cbn in *. replace (data_end st <=? p) with true by (symmetry; apply Z.leb_le; lia).
      replace (p =? data_end st) with true by (symmetry; apply Z.eqb_eq; lia). f_equal. f_equal; lia.
    + cbn [enc_blocks flat_map firstn length] in *. fold (enc_blocks bs) in *. fold (enc_blocks (firstn n bs)).
      rewrite zlen_app in *. pose proof (enc_block_len b) as Lb.
      pose proof (zlen_nonneg (flat_map enc_event (bk_events b))). pose proof (zlen_nonneg (enc_blocks bs)).
      cbn [batch_scan]. replace (data_end st <=? p) with false by (symmetry; apply Z.leb_gt; lia).
      destruct (at_app _ _ _ _ Hat) as [Hb Hrest].
      unfold enc_block in Hb. cbn [app] in Hb.
      rewrite (rdw_at _ _ _ _ Hb). change (DATA_SEPERATOR =? DATA_SEPERATOR) with true. cbn [negb].
      do 3 apply at_tail in Hb. replace (p + 1 + 1 + 1) with (p + 3) in Hb by lia. rewrite (rdw_at _ _ _ _ Hb).
      rewrite Z.mul_comm, Z.div_mul by lia.
      rewrite (IH bs (p + 4 + zlen (flat_map enc_event (bk_events b))) (cnt + 1)).
      * f_equal. f_equal; [rewrite Lb; lia|lia].
      * replace (p + 4 + zlen (flat_map enc_event (bk_events b))) with (p + zlen (enc_block b)) by lia. exact Hrest.
      * lia.
Qed.

Lemma words_between_at a l : at_ fw a l -> words_between fw a (a + zlen l) = l.
Proof.
  intros Hat. unfold words_between. replace (a + zlen l - a) with (zlen l) by lia.
  destruct l as [|x l]; [reflexivity|].
  pose proof (at_rdn _ _ _ Hat) as R. unfold rdn in R.
  destruct (zlen (x :: l) =? 0) eqn:E; [rewrite zlen_cons in E; pose proof (zlen_nonneg l); apply Z.eqb_eq in E; lia|].
  destruct ((0 <=? a) && (a + zlen (x :: l) <=? zlen fw)); [|discriminate].
  assert (R' : forall u v : list Z, @Ok (list Z) u = Ok v -> u = v) by (intros u v Huv; inversion Huv; reflexivity).
  apply R'. exact R.
Qed.

Lemma read_batch_ok k bs p :
  at_ fw p (enc_blocks bs) -> p + zlen (enc_blocks bs) = data_end st ->
  read_batch fw st k p =
  ROk (enc_blocks (firstn (Z.to_nat k) bs), Z.of_nat (length (firstn (Z.to_nat k) bs)), p + zlen (enc_blocks (firstn (Z.to_nat k) bs))).
Proof.
  intros Hat Hend. unfold read_batch. rewrite (batch_scan_ok _ bs p 0 Hat Hend).
  rewrite (enc_blocks_split (Z.to_nat k) bs) in Hat. apply at_prefix in Hat.
  rewrite (words_between_at _ _ Hat). reflexivity.
Qed.

(* ================================================================ the batch loop *)
Variable lfix : bool.
Variable pb : Z.
Hypothesis Hpb : 1 <= pb.
Let k := Z.to_nat pb.

Lemma count_nonzero (n : nat) b : (1 <= n)%nat -> b && (Z.of_nat n =? 0) = false.
Proof. intros H. replace (Z.of_nat n =? 0) with false by (symmetry; apply Z.eqb_neq; lia). apply andb_false_r. Qed.

Lemma chunks_f_nil {A} m kk : @chunks_f A m kk [] = [].
Proof. destruct m; reflexivity. Qed.
Lemma chunks_f_cons {A} m kk (l : list A) : l <> [] -> chunks_f (S m) kk l = firstn kk l :: chunks_f m kk (skipn kk l).
Proof. destruct l; [contradiction|reflexivity]. Qed.

(* n_blocks = -1: everything, in groups of n_block_per_batch *)
Lemma batch_loop_all : forall fuel m bs p total acc,
  0 <= total -> (length bs < fuel)%nat -> (length bs <= m)%nat ->
  at_ fw p (enc_blocks bs) -> p + zlen (enc_blocks bs) = data_end st ->
  batch_loop fw st lfix fuel (-1) pb p total acc = ROk (acc ++ map enc_blocks (chunks_f m k bs)).
Proof.
  induction fuel as [|fuel IH]; intros m bs p total acc Ht Hf Hm Hat Hend; [lia|].
  destruct bs as [|b bs'] eqn:Ebs.
  - cbn [enc_blocks flat_map] in Hend. rewrite (@zlen_nil Z) in Hend. cbn [batch_loop].
    replace (total <? -1) with false by (symmetry; apply Z.ltb_ge; lia).
    replace (p <? data_end st) with false by (symmetry; apply Z.ltb_ge; lia).
    cbn. rewrite chunks_f_nil. cbn. rewrite app_nil_r. reflexivity.
  - rewrite <- Ebs in *. assert (Hne : bs <> []) by (rewrite Ebs; discriminate).
    assert (Hpos : 0 < zlen (enc_blocks bs)).
    { rewrite Ebs. cbn [enc_blocks flat_map]. rewrite zlen_app, enc_block_len.
      pose proof (zlen_nonneg (flat_map enc_event (bk_events b))). pose proof (zlen_nonneg (flat_map enc_block bs')). lia. }
    cbn [batch_loop].
    replace (p <? data_end st) with true by (symmetry; apply Z.ltb_lt; lia).
    change (-1 =? -1) with true. rewrite orb_true_r. cbv iota.
    rewrite (read_batch_ok pb bs p Hat Hend). fold k.
    destruct m as [|m]; [rewrite Ebs in Hm; cbn in Hm; lia|].
    assert (Hk : (1 <= k)%nat) by (unfold k; lia).
    rewrite count_nonzero by (rewrite Ebs; destruct k; [lia|cbn; lia]).
    assert (Hsk : (length (skipn k bs) < length bs)%nat).
    { rewrite skipn_length. rewrite Ebs. cbn [length]. lia. }
    rewrite (IH m (skipn k bs)).
    + rewrite <- app_assoc. cbn [app]. f_equal. rewrite (chunks_f_cons m k bs Hne). reflexivity.
    + lia.
    + lia.
    + lia.
    + rewrite (enc_blocks_split k bs) in Hat. apply at_suffix in Hat. exact Hat.
    + rewrite (enc_blocks_split k bs), zlen_app in Hend. lia.
Qed.

Lemma batch_loop_at_end fuel p total acc : p = data_end st -> 0 <= total ->
  batch_loop fw st lfix fuel (-1) pb p total acc = ROk acc.
Proof.
  intros -> Ht. destruct fuel; cbn [batch_loop];
    (replace (total <? -1) with false by (symmetry; apply Z.ltb_ge; lia)); rewrite Z.ltb_irrefl; reflexivity.
Qed.

(* n_blocks = N >= 0 with at least N - total blocks left: the first N blocks, in groups *)
Lemma batch_loop_first N : forall fuel m bs p total acc,
  0 <= total <= N -> (Z.to_nat (N - total) <= length bs)%nat -> (Z.to_nat (N - total) < fuel)%nat ->
  (Z.to_nat (N - total) <= m)%nat ->
  at_ fw p (enc_blocks bs) -> p + zlen (enc_blocks bs) = data_end st ->
  batch_loop fw st lfix fuel N pb p total acc = ROk (acc ++ map enc_blocks (chunks_f m k (firstn (Z.to_nat (N - total)) bs))).
Proof.
  induction fuel as [|fuel IH]; intros m bs p total acc Ht Hr Hf Hm Hat Hend; [lia|].
  cbn [batch_loop]. destruct (total <? N) eqn:Elt.
  - apply Z.ltb_lt in Elt. cbn [orb]. cbv iota.
    replace (N =? -1) with false by (symmetry; apply Z.eqb_neq; lia).
    set (j := Z.min (N - total) pb).
    rewrite (read_batch_ok j bs p Hat Hend).
    assert (Hj : (1 <= Z.to_nat j <= Z.to_nat (N - total))%nat) by (unfold j; lia).
    assert (Hlen : length (firstn (Z.to_nat j) bs) = Z.to_nat j) by (apply firstn_length_le; lia).
    rewrite Hlen. rewrite count_nonzero by lia.
    destruct m as [|m]; [lia|].
    assert (Er : Z.to_nat (N - (total + Z.of_nat (Z.to_nat j))) = (Z.to_nat (N - total) - Z.to_nat j)%nat) by lia.
    rewrite (IH m (skipn (Z.to_nat j) bs)).
    + rewrite <- app_assoc. cbn [app]. f_equal. rewrite Er.
      assert (Hfn : firstn (Z.to_nat (N - total)) bs <> []).
      { destruct bs; [cbn in Hr; lia|]. destruct (Z.to_nat (N - total)) eqn:E0; [lia|]. cbn. discriminate. }
      assert (E1 : firstn k (firstn (Z.to_nat (N - total)) bs) = firstn (Z.to_nat j) bs).
      { rewrite firstn_firstn. f_equal. unfold k, j. lia. }
      assert (E2 : skipn k (firstn (Z.to_nat (N - total)) bs) =
                   firstn (Z.to_nat (N - total) - Z.to_nat j) (skipn (Z.to_nat j) bs)).
      { destruct (Z_le_gt_dec pb (N - total)) as [Hle|Hgt].
        - assert (Ejk : Z.to_nat j = k) by (unfold j, k; lia). rewrite Ejk.
          rewrite firstn_skipn_comm. f_equal. f_equal. lia.
        - assert (Ejr : Z.to_nat j = Z.to_nat (N - total)) by (unfold j; lia). rewrite Ejr, Nat.sub_diag. cbn [firstn].
          apply skipn_all2. rewrite firstn_length. unfold k. lia. }
      rewrite (chunks_f_cons m k _ Hfn). cbn [map]. rewrite E1, E2. reflexivity.
    + lia.
    + rewrite Er, skipn_length. lia.
    + lia.
    + lia.
    + rewrite (enc_blocks_split (Z.to_nat j) bs) in Hat. apply at_suffix in Hat. exact Hat.
    + rewrite (enc_blocks_split (Z.to_nat j) bs), zlen_app in Hend. lia.
  - apply Z.ltb_ge in Elt. replace (N =? -1) with false by (symmetry; apply Z.eqb_neq; lia). cbn.
    replace (N - total) with 0 by lia. cbn. rewrite chunks_f_nil. cbn. rewrite app_nil_r. reflexivity.
Qed.

(* n_blocks larger than the number of blocks left: the counter stops advancing at the end of the data and the loop
   never ends — out of fuel for EVERY amount of fuel *)
Lemma batch_loop_beyond N : lfix = false -> forall fuel bs p total acc,
  0 <= total -> Z.of_nat (length bs) < N - total ->
  at_ fw p (enc_blocks bs) -> p + zlen (enc_blocks bs) = data_end st ->
  batch_loop fw st lfix fuel N pb p total acc = ROutOfFuel.
Proof.
  intros Hfix. destruct lfix; [discriminate|]. clear Hfix.
  induction fuel as [|fuel IH]; intros bs p total acc Ht Hr Hat Hend; cbn [batch_loop].
  - replace (total <? N) with true by (symmetry; apply Z.ltb_lt; lia). reflexivity.
  - replace (total <? N) with true by (symmetry; apply Z.ltb_lt; lia). cbn [orb]. cbv iota.
    replace (N =? -1) with false by (symmetry; apply Z.eqb_neq; lia).
    set (j := Z.min (N - total) pb).
    rewrite (read_batch_ok j bs p Hat Hend). cbn [andb].
    apply (IH (skipn (Z.to_nat j) bs)).
    + lia.
    + rewrite skipn_length. rewrite firstn_length. lia.
    + rewrite (enc_blocks_split (Z.to_nat j) bs) in Hat. apply at_suffix in Hat. exact Hat.
    + rewrite (enc_blocks_split (Z.to_nat j) bs), zlen_app in Hend. lia.
Qed.

(* the repaired loop with n_blocks larger than the number of blocks left: everything that is left, then it stops *)
Lemma batch_loop_beyond_fixed N : lfix = true -> forall fuel m bs p total acc,
  0 <= total -> Z.of_nat (length bs) < N - total -> (length bs < fuel)%nat -> (length bs <= m)%nat ->
  at_ fw p (enc_blocks bs) -> p + zlen (enc_blocks bs) = data_end st ->
  batch_loop fw st lfix fuel N pb p total acc = ROk (acc ++ map enc_blocks (chunks_f m k bs)).
Proof.
  intros Hfix. destruct lfix; [|discriminate]. clear Hfix.
  induction fuel as [|fuel IH]; intros m bs p total acc Ht Hr Hf Hm Hat Hend; [lia|].
  cbn [batch_loop]. replace (total <? N) with true by (symmetry; apply Z.ltb_lt; lia). cbn [orb]. cbv iota.
  replace (N =? -1) with false by (symmetry; apply Z.eqb_neq; lia).
  set (j := Z.min (N - total) pb).
  rewrite (read_batch_ok j bs p Hat Hend). cbn [andb].
  destruct bs as [|b bs'] eqn:Ebs.
  - rewrite firstn_nil. cbn [length]. change (Z.of_nat 0 =? 0) with true. cbv iota.
    rewrite chunks_f_nil. cbn. rewrite app_nil_r. reflexivity.
  - rewrite <- Ebs in *. assert (Hne : bs <> []) by (rewrite Ebs; discriminate).
    assert (Hjk : Z.to_nat j = Nat.min k (Z.to_nat (N - total))) by (unfold j, k; lia).
    assert (Hk : (1 <= k)%nat) by (unfold k; lia).
    assert (Hfk : firstn (Z.to_nat j) bs = firstn k bs).
    { rewrite Hjk. destruct (Nat.le_ge_cases k (Z.to_nat (N - total))) as [Hle|Hge]; [rewrite Nat.min_l by lia; reflexivity|].
      rewrite Nat.min_r by lia. rewrite !firstn_all2 by lia. reflexivity. }
    assert (Hsk : skipn (Z.to_nat j) bs = skipn k bs).
    { rewrite Hjk. destruct (Nat.le_ge_cases k (Z.to_nat (N - total))) as [Hle|Hge]; [rewrite Nat.min_l by lia; reflexivity|].
      rewrite Nat.min_r by lia. rewrite !skipn_all2 by lia. reflexivity. }
    assert (Hc : (1 <= length (firstn (Z.to_nat j) bs))%nat).
    { rewrite Hfk, Ebs. destruct k; [lia|cbn; lia]. }
    replace (Z.of_nat (length (firstn (Z.to_nat j) bs)) =? 0) with false by (symmetry; apply Z.eqb_neq; lia).
    destruct m as [|m]; [rewrite Ebs in Hm; cbn in Hm; lia|].
    rewrite Hfk. rewrite (IH m (skipn k bs)).
    + rewrite <- app_assoc. cbn [app]. rewrite (chunks_f_cons m k bs Hne). cbn [map]. reflexivity.
    + lia.
    + rewrite skipn_length, firstn_length. pose proof (firstn_length (Z.to_nat j) bs) as FL. rewrite Hfk, firstn_length in FL. lia.
    + rewrite skipn_length. rewrite Ebs. cbn [length]. rewrite Ebs in Hf. cbn [length] in Hf. lia.
    + rewrite skipn_length. rewrite Ebs in *. cbn [length] in *. lia.
    + rewrite (enc_blocks_split k bs) in Hat. apply at_suffix in Hat. exact Hat.
    + rewrite (enc_blocks_split k bs), zlen_app in Hend. lia.
Qed.
End Batches.

(* ================================================================ the thread pool: any complete completion order *)
Lemma nth_error_ext {A} (l1 l2 : list A) : (forall i, nth_error l1 i = nth_error l2 i) -> l1 = l2.
Proof.
  revert l2. induction l1 as [|x l1 IH]; intros l2 H.
  - destruct l2; [reflexivity|]. specialize (H 0%nat). discriminate.
  - destruct l2 as [|y l2]; [specialize (H 0%nat); discriminate|].
    pose proof (H 0%nat) as H0. cbn in H0. inversion H0; subst. f_equal. apply IH. intros i. apply (H (S i)).
Qed.

Lemma set_slot_spec {A} (v : A) : forall slots k, (k < length slots)%nat ->
  length (set_slot k v slots) = length slots /\
  nth_error (set_slot k v slots) k = Some (Some v) /\
  (forall i, i <> k -> nth_error (set_slot k v slots) i = nth_error slots i).
Proof.
  induction slots as [|x slots IH]; intros k Hk; [cbn in Hk; lia|].
  destruct k as [|k].
  - unfold set_slot. cbn. split; [reflexivity|]. split; [reflexivity|]. intros [|i] Hi; [contradiction|reflexivity].
  - assert (E : set_slot (S k) v (x :: slots) = x :: set_slot k v slots) by reflexivity. rewrite E.
    cbn [length] in Hk. destruct (IH k ltac:(lia)) as (L1 & L2 & L3). cbn [length nth_error].
    split; [rewrite L1; reflexivity|]. split; [exact L2|]. intros [|i] Hi; [reflexivity|]. cbn [nth_error]. apply L3. lia.
Qed.

Lemma Forall_firstn' {A} (P : A -> Prop) n : forall l, Forall P l -> Forall P (firstn n l).
Proof. induction n as [|n IH]; intros l H; [constructor|]. destruct H; [constructor|]. cbn. constructor; [assumption|apply IH; assumption]. Qed.
Lemma Forall_skipn' {A} (P : A -> Prop) n : forall l, Forall P l -> Forall P (skipn n l).
Proof. induction n as [|n IH]; intros l H; [exact H|]. destruct H; [constructor|]. cbn. apply IH. assumption. Qed.

Section Pool.
Variables A B : Type.
Variable task : A -> B.
Variable l : list A.

Lemma run_fold_spec : forall order slots, length slots = length l ->
  let r := fold_left (fun slots k => match nth_error l k with Some a => set_slot k (task a) slots | None => slots end) order slots in
  length r = length l /\
  forall i a, nth_error l i = Some a -> nth_error r i = if in_dec Nat.eq_dec i order then Some (Some (task a)) else nth_error slots i.
Proof.
  induction order as [|k order IH]; intros slots Hlen; cbn [fold_left].
  - split; [exact Hlen|]. intros i a _. reflexivity.
  - destruct (nth_error l k) as [ak|] eqn:Ek.
    + assert (Hk : (k < length slots)%nat) by (rewrite Hlen; apply nth_error_Some; congruence).
      destruct (set_slot_spec (task ak) slots k Hk) as (L1 & L2 & L3).
      destruct (IH (set_slot k (task ak) slots) (eq_trans L1 Hlen)) as [I1 I2]. split; [exact I1|].
      intros i a Hi. rewrite (I2 i a Hi). cbn [In]. destruct (in_dec Nat.eq_dec i order) as [Hin|Hnin].
      * destruct (in_dec Nat.eq_dec i (k :: order)) as [_|N]; [reflexivity|exfalso; apply N; right; exact Hin].
      * destruct (Nat.eq_dec i k) as [->|Nk].
        -- destruct (in_dec Nat.eq_dec k (k :: order)) as [_|N]; [|exfalso; apply N; left; reflexivity].
           rewrite L2. congruence.
        -- destruct (in_dec Nat.eq_dec i (k :: order)) as [[E|Hin]|_]; [congruence|contradiction|]. apply L3. exact Nk.
    + destruct (IH slots Hlen) as [I1 I2]. split; [exact I1|]. intros i a Hi. rewrite (I2 i a Hi).
      destruct (in_dec Nat.eq_dec i order) as [Hin|Hnin].
      * destruct (in_dec Nat.eq_dec i (k :: order)) as [_|N]; [reflexivity|exfalso; apply N; right; exact Hin].
      * destruct (in_dec Nat.eq_dec i (k :: order)) as [[E|Hin]|_]; [subst; congruence|contradiction|reflexivity].
Qed.

Lemma run_pool_perm order : Permutation order (seq 0 (length l)) ->
  run_pool task l order = map (fun a => Some (task a)) l.
Proof.
  intros Hp. unfold run_pool.
  destruct (run_fold_spec order (map (fun _ => None) l) (map_length _ _)) as [L1 L2].
  apply nth_error_ext. intros i. destruct (nth_error l i) as [a|] eqn:Ei.
  - rewrite (L2 i a Ei). rewrite (map_nth_error (fun a => Some (task a)) _ _ Ei).
    destruct (in_dec Nat.eq_dec i order) as [_|N]; [symmetry; reflexivity|]. exfalso. apply N.
    apply (Permutation_in _ (Permutation_sym Hp)). apply in_seq. assert ((i < length l)%nat) by (apply nth_error_Some; congruence). lia.
  - assert (Hge : (length l <= i)%nat) by (apply nth_error_None; exact Ei).
    transitivity (@None (option B)); [apply nth_error_None; rewrite L1; exact Hge|symmetry; apply nth_error_None; rewrite map_length; exact Hge].
Qed.
End Pool.

(* ================================================================ one batch through the parser *)
Definition items_of_block (b : block) : list item :=
  match bk_events b with
  | [] => []
  | e :: es => (Some (bk_w1 b, bk_w2 b, 4 * zlen (flat_map enc_event (bk_events b))), e) :: map (fun e => (None, e)) es
  end.
Lemma flat_map_none es : flat_map enc_item (map (fun e => (None, e)) es) = flat_map enc_event es.
Proof. induction es as [|e es IH]; [reflexivity|]. cbn [map flat_map]. rewrite IH. reflexivity. Qed.
Lemma enc_block_items b : bk_events b <> [] -> enc_block b = flat_map enc_item (items_of_block b).
Proof.
  intros Hne. unfold enc_block, items_of_block. destruct (bk_events b) as [|e es]; [contradiction|].
  cbn [flat_map]. rewrite flat_map_none. unfold enc_item at 1. cbn [fst snd enc_sep]. rewrite <- app_assoc. reflexivity.
Qed.
Lemma snd_items_of_block b : map snd (items_of_block b) = bk_events b.
Proof.
  unfold items_of_block. destruct (bk_events b) as [|e es]; [reflexivity|]. cbn [map snd]. f_equal.
  rewrite map_map. cbn. apply map_id.
Qed.
Lemma wf_items_of_block b : wf_block b -> Forall wf_item (items_of_block b).
Proof.
  intros (_ & _ & _ & Hev & _). unfold items_of_block. destruct (bk_events b) as [|e es]; [constructor|].
  inversion Hev; subst. constructor; [assumption|]. apply Forall_map. assumption.
Qed.
Lemma enc_blocks_items bs : Forall wf_block bs ->
  enc_blocks bs = flat_map enc_item (flat_map items_of_block bs) /\
  Forall wf_item (flat_map items_of_block bs) /\ map snd (flat_map items_of_block bs) = flat_map bk_events bs.
Proof.
  induction 1 as [|b bs Hb _ IH]; [repeat split; constructor|]. destruct IH as (I1 & I2 & I3).
  cbn [enc_blocks flat_map]. fold (enc_blocks bs). repeat split.
  - rewrite flat_map_app, <- I1, <- enc_block_items; [reflexivity|]. destruct Hb as (_ & _ & Hne & _). exact Hne.
  - apply Forall_app. split; [apply wf_items_of_block; exact Hb|exact I2].
  - rewrite map_app. rewrite snd_items_of_block. f_equal. exact I3.
Qed.

Definition eff_dets (dets : list det) : list det := match dets with [] => [Mdc; Tof; Emc; Muc] | _ => dets end.
Lemma existsb_none_some (dets : list det) :
  existsb (fun o : option det => match o with None => true | Some _ => false end) (map Some dets) = false.
Proof. induction dets as [|d dets IH]; [reflexivity|]. cbn. exact IH. Qed.
Lemma flat_map_some (dets : list det) :
  flat_map (fun o : option det => match o with Some d => [d] | None => [] end) (map Some dets) = dets.
Proof. induction dets as [|d dets IH]; [reflexivity|]. cbn. f_equal. exact IH. Qed.
Lemma read_bes_raw_names chk fuel dets buf :
  read_bes_raw_gen chk fuel (map Some dets) buf = parse_gen chk fuel (eff_dets dets) buf.
Proof.
  unfold read_bes_raw_gen. destruct dets as [|d dets]; [reflexivity|].
  change (match map Some (d :: dets) with [] => true | _ :: _ => false end) with false. cbv iota.
  rewrite existsb_none_some, flat_map_some. reflexivity.
Qed.

Lemma batch_parse chk dets bs : Forall wf_block bs ->
  read_bes_raw_gen chk (fuel_for (enc_blocks bs)) (map Some dets) (enc_blocks bs) =
  Ok (columnar (sel_of (eff_dets dets)) (flat_map bk_events bs)).
Proof.
  intros Hwf. destruct (enc_blocks_items bs Hwf) as (E1 & E2 & E3).
  rewrite read_bes_raw_names, E1, (parse_roundtrip chk (eff_dets dets) _ E2), E3. reflexivity.
Qed.

(* ================================================================ ak.concatenate = offset re-basing *)
Definition zsum (l : list Z) : Z := fold_right Z.add 0 l.
Lemma offsets_from_app s a b : offsets_from s (a ++ b) = offsets_from s a ++ offsets_from (s + zsum a) b.
Proof.
  revert s. induction a as [|x a IH]; intros s; cbn [app offsets_from zsum fold_right].
  - f_equal. lia.
  - rewrite IH. cbn [app]. fold (zsum a). replace (s + x + zsum a) with (s + (x + zsum a)) by lia. reflexivity.
Qed.
Lemma offsets_from_shift s t l : map (fun o => t + o) (offsets_from s l) = offsets_from (t + s) l.
Proof.
  revert s. induction l as [|x l IH]; intros s; cbn [offsets_from map]; [reflexivity|].
  rewrite IH. replace (t + s + x) with (t + (s + x)) by lia. reflexivity.
Qed.
Lemma last_offsets_from s l : last (s :: offsets_from s l) 0 = s + zsum l.
Proof.
  revert s. induction l as [|x l IH]; intros s; cbn [offsets_from zsum fold_right].
  - cbn. lia.
  - change (last (s :: (s + x) :: offsets_from (s + x) l) 0) with (last ((s + x) :: offsets_from (s + x) l) 0).
    rewrite IH. fold (zsum l). lia.
Qed.

Lemma concat_col_of d a b : concat_col (col_of d a) (col_of d b) = col_of d (a ++ b).
Proof.
  unfold concat_col, col_of. cbn [offsets rows tl]. f_equal.
  - unfold last_off. rewrite last_offsets_from. rewrite offsets_from_shift. rewrite map_app, offsets_from_app.
    cbn [app]. do 3 f_equal. lia.
  - rewrite flat_map_app. reflexivity.
Qed.
Lemma combine_map_same {X Y Z'} (f : X -> Y) (g : X -> Z') l : combine (map f l) (map g l) = map (fun x => (f x, g x)) l.
Proof. induction l as [|x l IH]; [reflexivity|]. cbn. f_equal. exact IH. Qed.
Lemma concat_columnar sel a b : concat_result (columnar sel a) (columnar sel b) = columnar sel (a ++ b).
Proof.
  unfold concat_result, columnar. cbn [r_hdr r_dets]. f_equal; [rewrite map_app; reflexivity|].
  rewrite combine_map_same, map_map. apply map_ext. intros d. cbn [fst snd]. rewrite concat_col_of. reflexivity.
Qed.
Lemma fold_concat_columnar sel (groups : list (list event)) first :
  fold_left concat_result (map (columnar sel) groups) (columnar sel first) = columnar sel (first ++ concat groups).
Proof.
  revert first. induction groups as [|g groups IH]; intros first; cbn [map fold_left concat].
  - rewrite app_nil_r. reflexivity.
  - rewrite concat_columnar, IH, app_assoc. reflexivity.
Qed.

Lemma concat_chunks_f {X} kk : (1 <= kk)%nat -> forall m (l : list X), (length l <= m)%nat -> concat (chunks_f m kk l) = l.
Proof.
  intros Hk. induction m as [|m IH]; intros l Hl.
  - destruct l; [reflexivity|cbn in Hl; lia].
  - destruct l as [|x l]; [reflexivity|]. rewrite chunks_f_cons by discriminate. cbn [concat].
    rewrite IH; [apply firstn_skipn|]. rewrite skipn_length. cbn [length] in *. lia.
Qed.
Lemma chunks_f_nonempty {X} kk m (l : list X) : l <> [] -> (length l <= m)%nat -> chunks_f m kk l <> [].
Proof. intros Hne Hl. destruct m; [destruct l; [contradiction|cbn in Hl; lia]|]. rewrite chunks_f_cons by exact Hne. discriminate. Qed.
Lemma chunks_f_forall {X} (P : X -> Prop) kk : forall m (l : list X), Forall P l -> Forall (Forall P) (chunks_f m kk l).
Proof.
  induction m as [|m IH]; intros l Hl; [constructor|]. destruct l as [|x l]; [constructor|].
  rewrite chunks_f_cons by discriminate. constructor; [apply Forall_firstn'; exact Hl|apply IH; apply Forall_skipn'; exact Hl].
Qed.

(* ================================================================ gather + concatenate *)
Lemma gather_ok chk dets : forall groups : list (list block), Forall (Forall wf_block) groups ->
  gather (map (fun b => Some (read_bes_raw_gen chk (fuel_for b) (map Some dets) b)) (map enc_blocks groups)) =
  ROk (map (fun g => columnar (sel_of (eff_dets dets)) (flat_map bk_events g)) groups).
Proof.
  induction 1 as [|g groups Hg _ IH]; [reflexivity|]. cbn [map gather]. rewrite (batch_parse chk dets g Hg). cbn [lift_parse].
  rewrite IH. reflexivity.
Qed.
Lemma flat_map_concat {X Y} (f : X -> list Y) (ls : list (list X)) : flat_map f (concat ls) = concat (map (flat_map f) ls).
Proof. induction ls as [|l ls IH]; [reflexivity|]. cbn [concat map]. rewrite flat_map_app, IH. reflexivity. Qed.
Lemma concatenate_groups sel (groups : list (list block)) : groups <> [] ->
  ak_concatenate (map (fun g => columnar sel (flat_map bk_events g)) groups) =
  ROk (columnar sel (flat_map bk_events (concat groups))).
Proof.
  destruct groups as [|g groups]; [contradiction|]. intros _. cbn [map ak_concatenate concat].
  rewrite <- (map_map (flat_map bk_events) (columnar sel)). rewrite fold_concat_columnar.
  rewrite flat_map_app, flat_map_concat. reflexivity.
Qed.

(* arrays() once the batch loop has produced the batches of consecutive block groups *)
Lemma arrays_of_groups chk lfix fuel fw nb pb dets sched st (groups : list (list block)) :
  preprocess fw = ROk st ->
  batch_loop fw st lfix fuel nb pb (data_start st) 0 [] = ROk (map enc_blocks groups) ->
  Forall (Forall wf_block) groups -> groups <> [] ->
  (forall n, Permutation (sched n) (seq 0 n)) ->
  arrays_gen chk lfix fuel fw nb pb (map Some dets) sched = ROk (columnar (sel_of (eff_dets dets)) (flat_map bk_events (concat groups))).
Proof.
  intros Hp Hl Hwf Hne Hs. unfold arrays_gen, arrays_from, reset_cursor. rewrite Hp, Hl.
  assert (E : (if lfix && match map enc_blocks groups with [] => true | _ :: _ => false end then [[]] else map enc_blocks groups)
              = map enc_blocks groups).
  { destruct groups; [contradiction|]. cbn [map]. rewrite andb_false_r. reflexivity. }
  cbv zeta. rewrite E.
  rewrite run_pool_perm by apply Hs. rewrite (gather_ok chk dets groups Hwf). apply concatenate_groups. exact Hne.
Qed.

Lemma arrays_loop_out_of_fuel chk lfix fuel fw nb pb names sched st :
  preprocess fw = ROk st -> batch_loop fw st lfix fuel nb pb (data_start st) 0 [] = ROutOfFuel ->
  arrays_gen chk lfix fuel fw nb pb names sched = ROutOfFuel.
Proof. intros Hp Hl. unfold arrays_gen, arrays_from, reset_cursor. rewrite Hp, Hl. reflexivity. Qed.
Lemma run_pool_nil {A B} (task : A -> B) order : run_pool task [] order = [].
Proof.
  unfold run_pool. cbn [map]. induction order as [|k order IH]; [reflexivity|]. cbn [fold_left].
  destruct k; cbn [nth_error]; exact IH.
Qed.
(* no batch at all: the pinned loop ends in ak.concatenate([]) ... *)
Lemma arrays_no_batches chk fuel fw nb pb names sched st :
  preprocess fw = ROk st -> batch_loop fw st false fuel nb pb (data_start st) 0 [] = ROk [] ->
  arrays_gen chk false fuel fw nb pb names sched = RThrow RConcatEmpty.
Proof. intros Hp Hl. unfold arrays_gen, arrays_from, reset_cursor. rewrite Hp, Hl. cbn [andb]. cbv zeta. rewrite run_pool_nil. reflexivity. Qed.
(* ... the repaired one decodes one empty buffer and returns the empty array *)
Lemma arrays_no_batches_fixed chk fuel fw nb pb dets sched st :
  preprocess fw = ROk st -> batch_loop fw st true fuel nb pb (data_start st) 0 [] = ROk [] ->
  (forall n, Permutation (sched n) (seq 0 n)) ->
  arrays_gen chk true fuel fw nb pb (map Some dets) sched = ROk (columnar (sel_of (eff_dets dets)) []).
Proof.
  intros Hp Hl Hs. unfold arrays_gen, arrays_from, reset_cursor. rewrite Hp, Hl. cbn [andb]. cbv zeta iota.
  rewrite run_pool_perm by apply Hs. cbn [map gather].
  pose proof (batch_parse chk dets [] (Forall_nil _)) as E. cbn [enc_blocks flat_map] in E. rewrite E. reflexivity.
Qed.

Section FileTheorems.
Variable f : rawfile.
Hypothesis Hwf : wf_file f.
Variable lfix : bool.
Variable pb : Z.
Hypothesis Hpb : 1 <= pb.
Variable sched : nat -> list nat.
Hypothesis Hsched : forall n, Permutation (sched n) (seq 0 n).
Let blocks := f_blocks f.
Let st := {| data_start := zlen (enc_file_header f); data_end := zlen (enc_file_header f) + zlen (enc_blocks blocks);
             entries := f_entries f |}.

Lemma blocks_wf : Forall wf_block blocks.
Proof. destruct Hwf as (_ & _ & _ & _ & _ & _ & _ & _ & _ & _ & _ & _ & _ & _ & _ & _ & Hb & _). exact Hb. Qed.
Lemma blocks_at : at_ (enc_file f) (data_start st) (enc_blocks blocks).
Proof. unfold enc_file. cbn [data_start st]. apply at_in_app. Qed.

(* n_blocks = -1: the whole file, for every batch size and completion order (both loop variants) *)
Theorem arrays_all chk fuel dets : blocks <> [] -> (length blocks < fuel)%nat ->
  arrays_gen chk lfix fuel (enc_file f) (-1) pb (map Some dets) sched =
  ROk (columnar (sel_of (eff_dets dets)) (file_events f)).
Proof.
  intros Hne Hf. pose proof blocks_wf as Hb.
  rewrite (arrays_of_groups chk lfix fuel (enc_file f) (-1) pb dets sched st (chunks_f (length blocks) (Z.to_nat pb) blocks)).
  - rewrite concat_chunks_f by lia. reflexivity.
  - apply preprocess_ok. exact Hwf.
  - rewrite (batch_loop_all (enc_file f) st lfix pb Hpb fuel (length blocks) blocks (data_start st) 0 []);
      [reflexivity|lia|exact Hf|lia|apply blocks_at|reflexivity].
  - apply chunks_f_forall. exact Hb.
  - apply chunks_f_nonempty; [exact Hne|lia].
  - exact Hsched.
Qed.

(* n_blocks = N with 1 <= N <= number of blocks: the events of the first N blocks (both loop variants) *)
Theorem arrays_first_n chk fuel dets N : 1 <= N <= Z.of_nat (length blocks) -> (Z.to_nat N < fuel)%nat ->
  arrays_gen chk lfix fuel (enc_file f) N pb (map Some dets) sched =
  ROk (columnar (sel_of (eff_dets dets)) (flat_map bk_events (firstn (Z.to_nat N) blocks))).
Proof.
  intros HN Hf. pose proof blocks_wf as Hb.
  rewrite (arrays_of_groups chk lfix fuel (enc_file f) N pb dets sched st
             (chunks_f (Z.to_nat N) (Z.to_nat pb) (firstn (Z.to_nat N) blocks))).
  - rewrite concat_chunks_f; [reflexivity|lia|rewrite firstn_length; lia].
  - apply preprocess_ok. exact Hwf.
  - rewrite (batch_loop_first (enc_file f) st lfix pb Hpb N fuel (Z.to_nat N) blocks (data_start st) 0 []);
      [replace (N - 0) with N by lia; reflexivity|lia|lia|lia|lia|apply blocks_at|reflexivity].
  - apply chunks_f_forall. apply Forall_firstn'. exact Hb.
  - apply chunks_f_nonempty; [|rewrite firstn_length; lia].
    destruct blocks; [cbn in HN; lia|]. destruct (Z.to_nat N) eqn:E; [lia|]. discriminate.
  - exact Hsched.
Qed.

(* pinned loop, n_blocks larger than the number of blocks: the loop never ends, whatever the fuel *)
Theorem arrays_beyond_never_terminates chk fuel names N : lfix = false -> Z.of_nat (length blocks) < N ->
  arrays_gen chk lfix fuel (enc_file f) N pb names sched = ROutOfFuel.
Proof.
  clear Hsched. intros Hfix HN. apply (arrays_loop_out_of_fuel chk lfix fuel (enc_file f) N pb names sched st (preprocess_ok f Hwf)).
  apply (batch_loop_beyond (enc_file f) st lfix pb Hpb N Hfix fuel blocks (data_start st) 0 []);
    [lia|lia|apply blocks_at|reflexivity].
Qed.

(* repaired loop, n_blocks larger than the number of blocks: the whole file (the empty array when there is no block) *)
Theorem arrays_beyond_fixed chk fuel dets N : lfix = true -> Z.of_nat (length blocks) < N ->
  (length blocks < fuel)%nat ->
  arrays_gen chk lfix fuel (enc_file f) N pb (map Some dets) sched =
  ROk (columnar (sel_of (eff_dets dets)) (file_events f)).
Proof.
  intros Hfix HN Hf. pose proof blocks_wf as Hb.
  assert (Hloop : batch_loop (enc_file f) st lfix fuel N pb (data_start st) 0 [] =
                  ROk (map enc_blocks (chunks_f (length blocks) (Z.to_nat pb) blocks))).
  { rewrite (batch_loop_beyond_fixed (enc_file f) st lfix pb Hpb N Hfix fuel (length blocks) blocks (data_start st) 0 []);
      [reflexivity|lia|lia|exact Hf|lia|apply blocks_at|reflexivity]. }
  assert (D : blocks = [] \/ blocks <> []) by (destruct blocks; [left; reflexivity|right; discriminate]).
  destruct D as [Eb|Hne].
  - subst lfix. rewrite Eb in Hloop. cbn [length chunks_f map] in Hloop.
    rewrite (arrays_no_batches_fixed chk fuel (enc_file f) N pb dets sched st (preprocess_ok f Hwf) Hloop Hsched).
    unfold file_events. fold blocks. rewrite Eb. reflexivity.
  - rewrite (arrays_of_groups chk lfix fuel (enc_file f) N pb dets sched st (chunks_f (length blocks) (Z.to_nat pb) blocks)).
    + rewrite concat_chunks_f by lia. reflexivity.
    + apply preprocess_ok. exact Hwf.
    + exact Hloop.
    + apply chunks_f_forall. exact Hb.
    + apply chunks_f_nonempty; [exact Hne|lia].
    + exact Hsched.
Qed.

Lemma data_end_start_empty : blocks = [] -> data_start st = data_end st.
Proof. intros He. cbn [data_start data_end st]. rewrite He. cbn [enc_blocks flat_map]. rewrite (@zlen_nil Z). lia. Qed.

(* a well-formed file without any block (zero events): with the pinned loop ak.concatenate([]) raises *)
Theorem arrays_zero_blocks_raises chk fuel names : lfix = false -> blocks = [] ->
  arrays_gen chk lfix fuel (enc_file f) (-1) pb names sched = RThrow RConcatEmpty.
Proof.
  clear Hsched. intros Hfix He. subst lfix.
  apply (arrays_no_batches chk fuel (enc_file f) (-1) pb names sched st (preprocess_ok f Hwf)).
  apply batch_loop_at_end; [|lia]. apply data_end_start_empty. exact He.
Qed.
(* ... with the repaired loop the empty array is returned *)
Theorem arrays_zero_blocks_fixed chk fuel dets : lfix = true -> blocks = [] ->
  arrays_gen chk lfix fuel (enc_file f) (-1) pb (map Some dets) sched = ROk (columnar (sel_of (eff_dets dets)) []).
Proof.
  intros Hfix He. subst lfix.
  apply (arrays_no_batches_fixed chk fuel (enc_file f) (-1) pb dets sched st (preprocess_ok f Hwf)); [|exact Hsched].
  apply batch_loop_at_end; [|lia]. apply data_end_start_empty. exact He.
Qed.
End FileTheorems.

(* the default fuel of the reader model is enough for every well-formed file *)
Lemma enc_block_pos' b : wf_block b -> 0 < zlen (enc_block b).
Proof. intros _. rewrite enc_block_len. pose proof (zlen_nonneg (flat_map enc_event (bk_events b))). lia. Qed.
Lemma blocks_lt_reader_fuel f : wf_file f -> (length (f_blocks f) < reader_fuel (enc_file f))%nat.
Proof.
  intros Hwf. assert (Hb : Forall wf_block (f_blocks f)).
  { destruct Hwf as (_ & _ & _ & _ & _ & _ & _ & _ & _ & _ & _ & _ & _ & _ & _ & _ & Hb & _). exact Hb. }
  pose proof (count_le_words enc_block wf_block (f_blocks f) enc_block_pos' Hb) as H.
  unfold reader_fuel, enc_file. fold (enc_blocks (f_blocks f)) in H.
  rewrite !app_length. unfold zlen in H. lia.
Qed.

(* ================================================================ the records view (ak.Array.to_list()) *)
Lemma slice_offsets_from : forall (groups : list (list row)) (pre : list row) (k : nat) (o0 : list Z),
  (k < length groups)%nat ->
  slice (o0 ++ zlen pre :: offsets_from (zlen pre) (map zlen groups)) (pre ++ concat groups) (length o0 + k) = nth k groups [].
Proof.
  induction groups as [|g groups IH]; intros pre k o0 Hk; [cbn in Hk; lia|].
  destruct k as [|k].
  - unfold slice. rewrite Nat.add_0_r. cbn [map offsets_from concat nth].
    assert (N0 : forall X Y, nth (length o0) (o0 ++ X :: Y) 0 = X)
      by (intros; rewrite app_nth2 by lia; rewrite Nat.sub_diag; reflexivity).
    assert (N1 : forall X X' Y, nth (S (length o0)) (o0 ++ X :: X' :: Y) 0 = X')
      by (intros; rewrite app_nth2 by lia; replace (S (length o0) - length o0)%nat with 1%nat by lia; reflexivity).
    rewrite N0, N1.
    replace (zlen pre + zlen g - zlen pre) with (zlen g) by lia. unfold zlen. rewrite !Nat2Z.id.
    rewrite skipn_app, skipn_all, Nat.sub_diag. cbn [skipn app]. rewrite firstn_app, firstn_all, Nat.sub_diag. cbn. apply app_nil_r.
  - cbn [map offsets_from concat nth]. 
    replace (o0 ++ zlen pre :: zlen pre + zlen g :: offsets_from (zlen pre + zlen g) (map zlen groups))
      with ((o0 ++ [zlen pre]) ++ zlen (pre ++ g) :: offsets_from (zlen (pre ++ g)) (map zlen groups))
      by (rewrite <- app_assoc; cbn [app]; rewrite zlen_app; reflexivity).
    replace (pre ++ g ++ concat groups) with ((pre ++ g) ++ concat groups) by (rewrite app_assoc; reflexivity).
    replace (length o0 + S k)%nat with (length (o0 ++ [zlen pre]) + k)%nat by (rewrite app_length; cbn; lia).
    apply IH. cbn [length] in Hk. lia.
Qed.

Lemma flat_map_concat_map {X Y} (f : X -> list Y) l : flat_map f l = concat (map f l).
Proof. induction l as [|x l IH]; [reflexivity|]. cbn. rewrite IH. reflexivity. Qed.

Lemma nth_map_error {X Y} (f : X -> Y) l : forall i x d, nth_error l i = Some x -> nth i (map f l) d = f x.
Proof.
  induction l as [|a l IH]; intros [|i] x d H; cbn in *; try discriminate; [inversion H; reflexivity|apply IH; exact H].
Qed.

Theorem to_records_columnar sel evs : to_records (columnar sel evs) = records sel evs.
Proof.
  unfold to_records, records. cbn [r_hdr r_dets columnar]. rewrite map_length.
  apply nth_error_ext. intros i.
  destruct (nth_error evs i) as [e|] eqn:Ei.
  - assert (Hi : (i < length evs)%nat) by (apply nth_error_Some; congruence).
    rewrite (map_nth_error (record_of sel) _ _ Ei).
    assert (Es : nth_error (seq 0 (length evs)) i = Some i).
    { rewrite nth_error_nth' with (d := 0%nat) by (rewrite seq_length; exact Hi). rewrite seq_nth by exact Hi. reflexivity. }
    rewrite (map_nth_error _ _ _ Es). f_equal. unfold record_of. f_equal.
    + apply nth_map_error. exact Ei.
    + rewrite map_map. apply map_ext. intros d. cbn [fst snd col_of offsets rows]. f_equal.
      rewrite flat_map_concat_map.
      pose proof (slice_offsets_from (map (ev_rows d) evs) [] i [] ltac:(rewrite map_length; exact Hi)) as S.
      cbn [app length Nat.add] in S. change (zlen (@nil row)) with 0 in S. rewrite map_map in S. rewrite S.
      apply nth_map_error. exact Ei.
  - assert (Hi : (length evs <= i)%nat) by (apply nth_error_None; exact Ei).
    transitivity (@None evrec); [apply nth_error_None; rewrite map_length, seq_length; exact Hi
                                |symmetry; apply nth_error_None; rewrite map_length; exact Hi].
Qed.

(* ================================================================ a concrete well-formed file (non-vacuity) *)
Definition ex_rob (data status : list Z) (pos : Z) : rob :=
  {| rb_version := 1; rb_source := 2; rb_status := [7]; rb_spec := []; rd_hdr7 := [0; 0; 0; 0; 0; 0; 0];
     rd_status := status; rd_data := data; rd_pos := pos |}.
Definition ex_sub (id : Z) (robs : list rob) : subdet :=
  {| sd_version := 0; sd_source := id * 65536 + 5; sd_status := []; sd_spec := [9];
     sd_body := SDRos [{| rs_version := 0; rs_source := 0; rs_status := []; rs_spec3 := [1; 2; 3]; rs_robs := robs |}] |}.
Definition ex_event (n : Z) : event :=
  {| ev_source := 0; ev_status := [4; 4]; ev_time := 100 + n; ev_no := n; ev_run := 77; ev_l1 := n; ev_spare := [0; 0];
     ev_tag1 := 1; ev_tag2 := 2; ev_tag3 := 3; ev_tag4 := 4294967295;
     ev_subs := [ ex_sub 0xA1 [ex_rob [5 * 262144 + 111; 5 * 262144 + 131072 + 65536 + 222; 3 * 262144 + 131072 + 7] [9; 9] 0;
                                ex_rob [5 * 262144 + n] [8] 1];
                  ex_sub 0xA3 [ex_rob [77 * 524288 + 5 * 8192 + 2 * 2048 + 291] [] 0];
                  {| sd_version := 0; sd_source := 0x99 * 65536; sd_status := []; sd_spec := []; sd_body := SDRaw [1; 2; 3] |};
                  ex_sub 0xA2 [] ] |}.
Definition ex_file : rawfile :=
  {| f_hdr1 := 8; f_version := 1; f_number := 2; f_date := 3; f_time := 4; f_hdr6 := 0; f_hdr7 := 0;
     f_name := [97; 98; 99; 46; 114]; f_name_pad := 32; f_tag := [116]; f_tag_pad := 32;
     f_rp1 := 9; f_run_params := [100; 1000; 0; 1; 2; 3; 4];
     f_blocks := [ {| bk_w1 := 4; bk_w2 := 0; bk_events := [ex_event 0] |};
                   {| bk_w1 := 4; bk_w2 := 1; bk_events := [ex_event 1; ex_event 2] |} ];
     f_tail1 := [10; 0; 0]; f_entries := 3; f_tail2 := [0; 0; 0; 0] |}.

Lemma record_content sel e :
  er_hdr (record_of sel e) = [ev_time e; ev_no e; ev_run e; ev_l1 e; ev_tag1 e; ev_tag2 e; ev_tag3 e; ev_tag4 e] /\
  er_dets (record_of sel e) =
    map (fun d => (d, flat_map (fun sd => if sd_id sd =? det_id d
                                          then match sd_body sd with
                                               | SDRos l => flat_map (fun r => flat_map (fun b => digi_rows d (rd_data b)) (rs_robs r)) l
                                               | SDRaw _ => [] end
                                          else []) (ev_subs e)))
        (filter sel all_dets).
Proof.
  split; [reflexivity|]. unfold record_of. cbn [er_dets]. apply map_ext. intros d. f_equal.
  unfold ev_rows. apply flat_map_ext. intros sd. unfold sd_rows.
  destruct (sd_id sd =? det_id d) eqn:E.
  - apply Z.eqb_eq in E. assert (Ed : det_of_id (sd_id sd) = Some d) by (rewrite E; destruct d; reflexivity).
    rewrite Ed, det_eqb_refl. reflexivity.
  - destruct (det_of_id (sd_id sd)) as [d'|] eqn:Ed; [|reflexivity].
    destruct (det_eqb d' d) eqn:Eb; [|reflexivity]. apply det_eqb_eq in Eb. subst d'.
    exfalso. apply Z.eqb_neq in E. apply E. unfold det_of_id in Ed.
    repeat match type of Ed with (if ?c then _ else _) = _ => destruct c eqn:?; [inversion Ed; subst; apply Z.eqb_eq; assumption|] end.
    discriminate.
Qed.
