(* C14 — Detector-ID and geometry functions are independent of input representation.  Statements only.
   What is PROVED here is the container part: for every nesting depth (by induction) an element-wise lifted kernel preserves
   the nesting (per-level counts), the element order and missing entries, commutes with one-level flattening, and a
   record-returning parser is the zip of its field kernels.  The scalar semantics of the kernels themselves is the regenerated
   integer model of C05/C08 (unbounded Z = the same value for every integer dtype able to hold it).  numba's dtype dispatch and
   Awkward's ufunc protocol are runtime behaviour: covered by the enumerated configuration matrix (see evidence), not by proof. *)
From Coq Require Import List.
Import ListNotations.
From PV.Model Require Import Nest.
From PV.Props Require Import C14Proofs.

Theorem C14_lift_preserves_structure : forall (A B : Type) (f : A -> B) d (xs : list (nest A)),
  extract_index d (map (nest_map f) xs) = extract_index d xs.
Proof. exact (@lift_structure). Qed.
Print Assumptions C14_lift_preserves_structure.

Theorem C14_lift_is_elementwise : forall (A B : Type) (f : A -> B) d (xs : list (nest A)),
  flat d (map (nest_map f) xs) = map f (flat d xs).
Proof. exact (@lift_values). Qed.
Print Assumptions C14_lift_is_elementwise.

Theorem C14_lift_keeps_uniform_depth : forall (A B : Type) (f : A -> B) d (xs : list (nest A)),
  uniform d xs -> uniform d (map (nest_map f) xs).
Proof. exact (@uniform_lift). Qed.
Print Assumptions C14_lift_keeps_uniform_depth.

Theorem C14_missing_values_stay_missing : forall (A B : Type) (f : A -> B) d (xs : list (nest (option A))),
  flat d (map (nest_map (option_map f)) xs) = map (option_map f) (flat d xs).
Proof. exact (@option_lift_values). Qed.
Print Assumptions C14_missing_values_stay_missing.

Theorem C14_flatten_option_commutes : forall (A B : Type) (f : A -> B) (xs : list (nest A)),
  map (nest_map f) (children xs) = children (map (nest_map f) xs).
Proof. exact (@flatten_then_map). Qed.
Print Assumptions C14_flatten_option_commutes.

Theorem C14_record_parser_is_zip_of_fields : forall (A B C : Type) (f : A -> B) (g : A -> C) d (xs : list (nest A)),
  flat d (map (nest_map (fun a => (f a, g a))) xs) = combine (flat d (map (nest_map f) xs)) (flat d (map (nest_map g) xs)).
Proof. exact (@zip_of_lifts). Qed.
Print Assumptions C14_record_parser_is_zip_of_fields.

Example C14_nonvacuous : uniform 2 [Node [Node [Leaf (Some 1%nat); Leaf None]; Node []]] /\
  flat 2 (map (nest_map (option_map S)) [Node [Node [Leaf (Some 1%nat); Leaf None]; Node []]]) = [Some 2%nat; None].
Proof. split; [cbn; repeat (first [exact I | split | constructor]) | reflexivity]. Qed.
