(* C04 — raw reads depend only on content and selection, and (under the exact guard) terminate.
   Consequences of the reader theorems of C03Reader.v + projection / prefix / concatenation lemmas. *)
From Coq Require Import ZArith List Lia Bool Permutation.
From PV.Model Require Import RawFormat RawParser RawReader.
From PV.Props Require Import C03Proofs C03Wf C03Reader.
Import ListNotations.
Local Open Scope Z_scope.

(* ---------------------------------------------------------------- selection = projection of the full read *)
Definition project (sel : det -> bool) (r : result) : result :=
  {| r_hdr := r_hdr r; r_dets := filter (fun p => sel (fst p)) (r_dets r) |}.
Lemma filter_map_fst {X Y} (p : X -> bool) (g : X -> Y) l :
  filter (fun q => p (fst q)) (map (fun x => (x, g x)) l) = map (fun x => (x, g x)) (filter p l).
Proof. induction l as [|x l IH]; [reflexivity|]. cbn. destruct (p x); cbn; rewrite IH; reflexivity. Qed.
Lemma filter_true {X} (l : list X) : filter (fun _ => true) l = l.
Proof. induction l as [|x l IH]; [reflexivity|]. cbn. rewrite IH. reflexivity. Qed.
Lemma columnar_project sel evs : columnar sel evs = project sel (columnar (fun _ => true) evs).
Proof. unfold project, columnar. cbn [r_hdr r_dets]. rewrite filter_true, filter_map_fst. reflexivity. Qed.

Lemma sel_of_all d : sel_of [Mdc; Tof; Emc; Muc; Trg; Ef] d = true.
Proof. destruct d; reflexivity. Qed.
Lemma columnar_ext s1 s2 evs : (forall d, s1 d = s2 d) -> columnar s1 evs = columnar s2 evs.
Proof. intros H. unfold columnar. f_equal. f_equal. apply filter_ext. exact H. Qed.

(* ---------------------------------------------------------------- the first n blocks are a prefix of the events *)
Lemma flat_map_firstn_prefix {X Y} (f : X -> list Y) n l :
  flat_map f (firstn n l) = firstn (length (flat_map f (firstn n l))) (flat_map f l).
Proof.
  assert (E : flat_map f l = flat_map f (firstn n l) ++ flat_map f (skipn n l))
    by (rewrite <- flat_map_app, firstn_skipn; reflexivity).
  rewrite E. rewrite firstn_app, Nat.sub_diag, firstn_all. cbn. rewrite app_nil_r. reflexivity.
Qed.

(* ---------------------------------------------------------------- concatenate_raw *)
Lemma perm_in_order n : Permutation (in_order n) (seq 0 n).
Proof. apply Permutation_refl. Qed.

Lemma all_ok_files chk lfix pb dets : 1 <= pb -> forall fs, Forall (fun f => wf_file f /\ f_blocks f <> []) fs ->
  all_ok (map (fun fw => arrays_gen chk lfix (reader_fuel fw) fw (-1) pb (map Some dets) in_order) (map enc_file fs)) =
  ROk (map (fun f => columnar (sel_of (eff_dets dets)) (file_events f)) fs).
Proof.
  intros Hpb. induction 1 as [|f fs [Hwf Hne] _ IH]; [reflexivity|]. cbn [map all_ok].
  rewrite (arrays_all f Hwf lfix pb Hpb in_order perm_in_order chk _ dets Hne (blocks_lt_reader_fuel f Hwf)). rewrite IH. reflexivity.
Qed.
Lemma concatenate_files chk lfix pb dets fs : 1 <= pb -> fs <> [] -> Forall (fun f => wf_file f /\ f_blocks f <> []) fs ->
  concatenate_gen chk lfix (map enc_file fs) pb (map Some dets) =
  ROk (columnar (sel_of (eff_dets dets)) (flat_map file_events fs)).
Proof.
  intros Hpb Hne Hwf. unfold concatenate_gen. rewrite (all_ok_files chk lfix pb dets Hpb fs Hwf).
  destruct fs as [|f fs]; [contradiction|]. cbn [map ak_concatenate flat_map].
  rewrite <- (map_map file_events (columnar (sel_of (eff_dets dets)))). rewrite fold_concat_columnar.
  rewrite flat_map_concat_map. reflexivity.
Qed.

(* ---------------------------------------------------------------- termination *)
Lemma batch_loop_zero_requested fw st lfix fuel pb pos acc : batch_loop fw st lfix fuel 0 pb pos 0 acc = ROk acc.
Proof. destruct fuel; reflexivity. Qed.

Lemma arrays_zero_requested f chk fuel pb names sched : wf_file f ->
  arrays_gen chk false fuel (enc_file f) 0 pb names sched = RThrow RConcatEmpty.
Proof.
  intros Hwf. eapply arrays_no_batches; [apply preprocess_ok; exact Hwf|]. apply batch_loop_zero_requested.
Qed.
Lemma arrays_zero_requested_fixed f chk fuel pb dets sched : wf_file f -> (forall n, Permutation (sched n) (seq 0 n)) ->
  arrays_gen chk true fuel (enc_file f) 0 pb (map Some dets) sched = ROk (columnar (sel_of (eff_dets dets)) []).
Proof.
  intros Hwf Hs. eapply arrays_no_batches_fixed; [apply preprocess_ok; exact Hwf|apply batch_loop_zero_requested|exact Hs].
Qed.

(* pinned loop: exactly under the guard *)
Lemma arrays_terminates_guarded f chk pb sched dets nb fuel :
  wf_file f -> 1 <= pb -> (forall n, Permutation (sched n) (seq 0 n)) ->
  nb = -1 \/ 0 <= nb <= Z.of_nat (length (f_blocks f)) ->
  (length (f_blocks f) + 1 < fuel)%nat ->
  arrays_gen chk false fuel (enc_file f) nb pb (map Some dets) sched <> ROutOfFuel.
Proof.
  intros Hwf Hpb Hs Hnb Hf. destruct Hnb as [->|Hnb].
  - destruct (f_blocks f) as [|b bs] eqn:Eb.
    + assert (E : arrays_gen chk false fuel (enc_file f) (-1) pb (map Some dets) sched = RThrow RConcatEmpty)
        by (apply arrays_zero_blocks_raises; solve [assumption|reflexivity]).
      rewrite E. discriminate.
    + rewrite (arrays_all f Hwf false pb Hpb sched Hs chk fuel dets); [discriminate|rewrite Eb; discriminate|rewrite Eb in *; lia].
  - destruct (Z.eq_dec nb 0) as [->|Hn0].
    + rewrite arrays_zero_requested by exact Hwf. discriminate.
    + rewrite (arrays_first_n f Hwf false pb Hpb sched Hs chk fuel dets nb); [discriminate|lia|lia].
Qed.

(* repaired loop: every n_blocks >= -1 *)
Lemma arrays_terminates_fixed f chk pb sched dets nb fuel :
  wf_file f -> 1 <= pb -> (forall n, Permutation (sched n) (seq 0 n)) -> -1 <= nb ->
  (length (f_blocks f) + 1 < fuel)%nat ->
  arrays_gen chk true fuel (enc_file f) nb pb (map Some dets) sched <> ROutOfFuel.
Proof.
  intros Hwf Hpb Hs Hnb Hf.
  destruct (Z.eq_dec nb (-1)) as [->|Hn1].
  - destruct (f_blocks f) as [|b bs] eqn:Eb.
    + assert (E : arrays_gen chk true fuel (enc_file f) (-1) pb (map Some dets) sched = ROk (columnar (sel_of (eff_dets dets)) []))
        by (apply arrays_zero_blocks_fixed; solve [assumption|reflexivity]).
      rewrite E. discriminate.
    + rewrite (arrays_all f Hwf true pb Hpb sched Hs chk fuel dets); [discriminate|rewrite Eb; discriminate|rewrite Eb in *; lia].
  - destruct (Z.eq_dec nb 0) as [->|Hn0].
    + rewrite arrays_zero_requested_fixed by assumption. discriminate.
    + destruct (Z_le_gt_dec nb (Z.of_nat (length (f_blocks f)))) as [Hle|Hgt].
      * rewrite (arrays_first_n f Hwf true pb Hpb sched Hs chk fuel dets nb); [discriminate|lia|lia].
      * rewrite (arrays_beyond_fixed f Hwf true pb Hpb sched Hs chk fuel dets nb eq_refl); [discriminate|lia|lia].
Qed.

(* ---------------------------------------------------------------- a concrete never-ending call (pinned loop) *)
Lemma ex_never_ends : forall fuel, arrays_gen false false fuel (enc_file ex_file) 3 1000 [] in_order = ROutOfFuel.
Proof.
  intros fuel. apply (arrays_beyond_never_terminates ex_file);
    first [apply wf_fileb_ok; vm_compute; reflexivity | reflexivity | (intros; apply Permutation_refl) | (cbn; lia)].
Qed.

(* ---------------------------------------------------------------- concatenate_raw(<pattern>): the listing order is irrelevant *)
From Coq Require Import Sorted.
Definition name_le (a b : Z * list Z) : Prop := fst a <= fst b.
Lemma insert_by_name_perm x l : Permutation (insert_by_name x l) (x :: l).
Proof.
  induction l as [|y t IH]; cbn [insert_by_name]; [apply Permutation_refl|].
  destruct (fst x <=? fst y); [apply Permutation_refl|].
  eapply perm_trans; [apply perm_skip; exact IH|apply perm_swap].
Qed.
Lemma sort_by_name_perm l : Permutation (sort_by_name l) l.
Proof.
  induction l as [|x t IH]; [apply perm_nil|]. cbn [sort_by_name fold_right].
  eapply perm_trans; [apply insert_by_name_perm|apply perm_skip; exact IH].
Qed.
Lemma insert_by_name_sorted x l : StronglySorted name_le l -> StronglySorted name_le (insert_by_name x l).
Proof.
  induction l as [|y t IH]; intros Hs; cbn [insert_by_name].
  - constructor; constructor.
  - destruct (Z.leb_spec (fst x) (fst y)) as [Hle|Hgt].
    + constructor; [exact Hs|]. constructor; [exact Hle|].
      apply StronglySorted_inv in Hs. destruct Hs as [_ Hall].
      rewrite Forall_forall in *. intros z Hz. specialize (Hall z Hz). unfold name_le in *. lia.
    + apply StronglySorted_inv in Hs. destruct Hs as [Ht Hall]. constructor; [apply IH; exact Ht|].
      rewrite Forall_forall in *. intros z Hz.
      apply (Permutation_in _ (insert_by_name_perm x t)) in Hz. destruct Hz as [<-|Hz]; [unfold name_le; lia|apply Hall; exact Hz].
Qed.
Lemma sort_by_name_sorted l : StronglySorted name_le (sort_by_name l).
Proof. induction l as [|x t IH]; [constructor|]. cbn [sort_by_name fold_right]. apply insert_by_name_sorted. exact IH. Qed.
Lemma same_name_same_file (l : list (Z * list Z)) a b : NoDup (map fst l) -> In a l -> In b l -> fst a = fst b -> a = b.
Proof.
  induction l as [|c t IH]; intros Hnd Ha Hb Hab; [destruct Ha|].
  cbn [map] in Hnd. apply NoDup_cons_iff in Hnd. destruct Hnd as [Hc Hnd].
  destruct Ha as [<-|Ha], Hb as [<-|Hb]; try reflexivity.
  - exfalso. apply Hc. rewrite Hab. apply in_map. exact Hb.
  - exfalso. apply Hc. rewrite <- Hab. apply in_map. exact Ha.
  - apply IH; assumption.
Qed.
Lemma sorted_perm_unique : forall l1 l2, StronglySorted name_le l1 -> StronglySorted name_le l2 -> Permutation l1 l2 ->
  NoDup (map fst l1) -> l1 = l2.
Proof.
  induction l1 as [|a t1 IH]; intros l2 H1 H2 Hp Hnd.
  - apply Permutation_nil in Hp. symmetry. exact Hp.
  - destruct l2 as [|b t2]; [apply Permutation_sym, Permutation_nil in Hp; discriminate|].
    assert (Hab : a = b).
    { apply (same_name_same_file (a :: t1)); [exact Hnd|left; reflexivity|apply (Permutation_in _ (Permutation_sym Hp)); left; reflexivity|].
      apply StronglySorted_inv in H1. destruct H1 as [_ A1]. apply StronglySorted_inv in H2. destruct H2 as [_ A2].
      rewrite Forall_forall in A1, A2.
      assert (Hb : In b (a :: t1)) by (apply (Permutation_in _ (Permutation_sym Hp)); left; reflexivity).
      assert (Ha : In a (b :: t2)) by (apply (Permutation_in _ Hp); left; reflexivity).
      assert (L1 : fst a <= fst b) by (destruct Hb as [<-|Hb]; [lia|apply (A1 b Hb)]).
      assert (L2 : fst b <= fst a) by (destruct Ha as [<-|Ha]; [lia|apply (A2 a Ha)]).
      lia. }
    subst b. f_equal. apply IH.
    + apply StronglySorted_inv in H1. apply H1.
    + apply StronglySorted_inv in H2. apply H2.
    + apply Permutation_cons_inv in Hp. exact Hp.
    + cbn [map] in Hnd. apply NoDup_cons_iff in Hnd. apply Hnd.
Qed.
Lemma sort_by_name_listing_order l1 l2 : Permutation l1 l2 -> NoDup (map fst l1) -> sort_by_name l1 = sort_by_name l2.
Proof.
  intros Hp Hnd. apply sorted_perm_unique; try apply sort_by_name_sorted.
  - eapply perm_trans; [apply sort_by_name_perm|]. eapply perm_trans; [exact Hp|apply Permutation_sym, sort_by_name_perm].
  - eapply Permutation_NoDup; [|exact Hnd]. apply Permutation_map, Permutation_sym, sort_by_name_perm.
Qed.
Lemma concatenate_pattern_listing_order chk lfix l1 l2 pb names : Permutation l1 l2 -> NoDup (map fst l1) ->
  concatenate_pattern chk lfix l1 pb names = concatenate_pattern chk lfix l2 pb names.
Proof. intros Hp Hnd. unfold concatenate_pattern. rewrite (sort_by_name_listing_order l1 l2 Hp Hnd). reflexivity. Qed.
(* ... and it is the files in name order: the sorted listing is sorted and holds exactly the listed files *)
Lemma concatenate_pattern_name_order listing : StronglySorted name_le (sort_by_name listing) /\ Permutation (sort_by_name listing) listing.
Proof. split; [apply sort_by_name_sorted|apply sort_by_name_perm]. Qed.
