(* C15 — The raw-data parser never reads outside its buffer.   Statements only; proofs in C15Proofs.v.

   Model: PV.Model.RawParser, a line-by-line mirror of raw_io.cc in two variants
     chk = false  the primitives of the originally pinned tree (no bounds checks)             = RawParser.read_bes_raw
     chk = true   the bounds-checked primitives (proposed_fixes/C15_raw_parser_bounds.diff, committed to /repo as 36d3ba0
                  "fix: bounds-check the raw-data parser's read/skip primitives and ROD counts") = RawParserFixed.read_bes_raw_fixed
   Which variant mirrors the working tree is established on every run by the native correspondence (working-tree
   raw_io.cc under ASan/UBSan against both variants on the adversarial stream).

   Outcome of the theorems: the property HOLDS of the checked variant (C15_parser_memory_safe, C15_parser_terminates)
   and is REFUTED for the unchecked variant, i.e. for the pinned tree (the C15_memory_safe_refuted theorems), which is safe exactly
   where the checks of the repaired variant never fire (C15_unchecked_exact_guard). *)
From Coq Require Import ZArith List Bool.
From PV.Model Require Import RawFormat RawParser RawParserFixed.
From PV.Props Require Import C15Proofs.
Import ListNotations.
Local Open Scope Z_scope.

(* never loops forever: fuel = number of words + 1 is enough for every loop of the model, for both variants, every
   buffer of 32-bit words and every list of sub-detector names *)
Theorem C15_parser_terminates : forall chk names buf, words buf ->
  read_bes_raw_gen chk (fuel_for buf) names buf <> OutOfFuel.
Proof. exact parser_terminates. Qed.
Print Assumptions C15_parser_terminates.

(* the bounds-checked variant never touches a word outside [0, len): for every buffer, every names list, any fuel *)
Theorem C15_parser_memory_safe : forall names buf, words buf ->
  forall k i, read_bes_raw_fixed names buf <> OOB k i.
Proof. intros names buf Hw. exact (parser_memory_safe (fuel_for buf) names buf Hw). Qed.
Print Assumptions C15_parser_memory_safe.

Theorem C15_parser_memory_safe_any_fuel : forall fuel names buf, words buf ->
  forall k i, read_bes_raw_gen true fuel names buf <> OOB k i.
Proof. exact parser_memory_safe. Qed.
Print Assumptions C15_parser_memory_safe_any_fuel.

(* exact guard for the pinned tree: on every buffer on which the repaired variant does not raise one of its two NEW
   errors (EEnd "Unexpected end of raw data", ERodRange "Invalid ROD status/data count"), the unchecked parser gives
   the same answer — arrays or one of the old exceptions — and therefore stays inside the buffer *)
Theorem C15_unchecked_exact_guard : forall names buf, words buf ->
  new_error (read_bes_raw_fixed names buf) = false ->
  read_bes_raw names buf = read_bes_raw_fixed names buf /\ forall k i, read_bes_raw names buf <> OOB k i.
Proof.
  intros names buf Hw Hn. pose proof (unchecked_exact_guard (fuel_for buf) names buf Hw Hn) as E.
  split; [exact E|]. intros k i. unfold read_bes_raw. rewrite E. exact (parser_memory_safe (fuel_for buf) names buf Hw k i).
Qed.
Print Assumptions C15_unchecked_exact_guard.

(* the pinned tree (unchecked variant) DOES leave the buffer: one witness per primitive / kind of corruption *)
Theorem C15_memory_safe_refuted : exists sel buf k i, words buf /\ parse sel buf = OOB k i.
Proof. exists [Mdc], witness_truncated, OobRead, 5. exact refuted_read. Qed.
Print Assumptions C15_memory_safe_refuted.

Theorem C15_memory_safe_refuted_truncation :      (* single-word read past a truncated stream *)
  words witness_truncated /\ parse [Mdc] witness_truncated = OOB OobRead 5.
Proof. exact refuted_read. Qed.
Print Assumptions C15_memory_safe_refuted_truncation.

Theorem C15_memory_safe_refuted_date_length :     (* rob_total_size = 0: date_length wraps to 2^32-19, bulk read *)
  words witness_date_length /\ parse [Mdc] witness_date_length = OOB OobBulk 54.
Proof. exact refuted_bulk. Qed.
Print Assumptions C15_memory_safe_refuted_date_length.

Theorem C15_memory_safe_refuted_erase_front :     (* rod_n_status = 7 > 1 word present, status first *)
  words witness_erase_front /\ parse [Mdc] witness_erase_front = OOB OobEraseFront 7.
Proof. exact refuted_erase_front. Qed.
Print Assumptions C15_memory_safe_refuted_erase_front.

Theorem C15_memory_safe_refuted_erase_back :      (* rod_n_data = 9 > 1 word present, status last *)
  words witness_erase_back /\ parse [Mdc] witness_erase_back = OOB OobEraseBack 9.
Proof. exact refuted_erase_back. Qed.
Print Assumptions C15_memory_safe_refuted_erase_back.

Theorem C15_memory_safe_refuted_count_word :      (* event n_status = 2^32-1: cursor 16 GiB past the end, next read *)
  words witness_n_status /\ parse [Mdc] witness_n_status = OOB OobRead 4294967301.
Proof. exact refuted_count. Qed.
Print Assumptions C15_memory_safe_refuted_count_word.

(* non-vacuity: the same five buffers through the checked variant raise an exception instead *)
Example C15_checked_on_witnesses :
  parse_fixed [Mdc] witness_truncated = Throw EEnd /\
  parse_fixed [Mdc] witness_date_length = Throw EEnd /\
  parse_fixed [Mdc] witness_erase_front = Throw ERodRange /\
  parse_fixed [Mdc] witness_erase_back = Throw ERodRange /\
  parse_fixed [Mdc] witness_n_status = Throw EEnd.
Proof. exact fixed_on_witnesses. Qed.
Print Assumptions C15_checked_on_witnesses.

(* non-vacuity: a well-formed one-event buffer is decoded by both variants with the same arrays *)
Example C15_both_variants_decode :
  parse [Mdc] witness_erase_ok = parse_fixed [Mdc] witness_erase_ok /\
  exists r, parse [Mdc] witness_erase_ok = Ok r /\ r_hdr r = [[1; 2; 3; 4; 5; 6; 7; 8]].
Proof. exact both_decode. Qed.
Print Assumptions C15_both_variants_decode.
