(* soundness of the executable well-formedness checks of PV.Model.RawFormat *)
From Coq Require Import ZArith List Lia Bool.
From PV.Model Require Import RawFormat.
Import ListNotations.
Local Open Scope Z_scope.

Lemma wordb_ok w : wordb w = true -> word w.
Proof. unfold wordb, word. intros H. apply andb_true_iff in H. destruct H as [A B]. apply Z.leb_le in A. apply Z.ltb_lt in B. lia. Qed.
Lemma byteb_ok w : byteb w = true -> byte w.
Proof. unfold byteb, byte. intros H. apply andb_true_iff in H. destruct H as [A B]. apply Z.leb_le in A. apply Z.ltb_lt in B. lia. Qed.
Lemma forallb_Forall {A} (p : A -> bool) (P : A -> Prop) l : (forall x, p x = true -> P x) -> forallb p l = true -> Forall P l.
Proof. intros H. induction l as [|x l IH]; cbn; [constructor|]. intros E. apply andb_true_iff in E. destruct E. constructor; auto. Qed.
Lemma wordsb_ok l : wordsb l = true -> words l.
Proof. apply forallb_Forall. exact wordb_ok. Qed.

Ltac split_and H := repeat match type of H with (_ && _) = true => let H' := fresh in apply andb_true_iff in H; destruct H as [H H'] end.
Ltac fin := first [ apply wordb_ok; assumption | apply wordsb_ok; assumption | apply byteb_ok; assumption
                  | apply Nat.eqb_eq; assumption | apply Z.ltb_lt; assumption | assumption ].

Lemma wf_robb_ok r : wf_robb r = true -> wf_rob r.
Proof. unfold wf_robb, wf_rob. intros H. split_and H. repeat split; fin. Qed.
Lemma wf_rosb_ok r : wf_rosb r = true -> wf_ros r.
Proof.
  unfold wf_rosb, wf_ros. intros H. split_and H. repeat split; try fin.
  eapply forallb_Forall; [exact wf_robb_ok|assumption].
Qed.
Lemma wf_subdetb_ok s : wf_subdetb s = true -> wf_subdet s.
Proof.
  unfold wf_subdetb, wf_subdet. intros H. split_and H. repeat split; try fin.
  unfold wf_sdbodyb, wf_sdbody in *. destruct (sd_body s).
  - eapply forallb_Forall; [exact wf_rosb_ok|assumption].
  - match goal with H : (_ && _) = true |- _ => apply andb_true_iff in H; destruct H as [A B] end.
    split; [apply wordsb_ok; assumption|]. destruct (det_of_id (sd_id s)); [discriminate|reflexivity].
Qed.
Lemma wf_eventb_ok e : wf_eventb e = true -> wf_event e.
Proof.
  unfold wf_eventb, wf_event. intros H. split_and H. repeat split; try fin.
  eapply forallb_Forall; [exact wf_subdetb_ok|assumption].
Qed.
Lemma wf_blockb_ok b : wf_blockb b = true -> wf_block b.
Proof.
  unfold wf_blockb, wf_block. intros H. split_and H. repeat split; try fin.
  - destruct (bk_events b); [discriminate|discriminate].
  - eapply forallb_Forall; [exact wf_eventb_ok|assumption].
Qed.
Lemma wf_fileb_ok f : wf_fileb f = true -> wf_file f.
Proof.
  unfold wf_fileb, wf_file. intros H. split_and H. repeat split; try fin.
  - eapply forallb_Forall; [exact byteb_ok|assumption].
  - eapply forallb_Forall; [exact byteb_ok|assumption].
  - eapply forallb_Forall; [exact wf_blockb_ok|assumption].
Qed.
