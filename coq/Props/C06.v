(* C06 — Changing a helix pivot never changes the physical track (both charges).  Statements only.
   ndr / nphi0 / ndz / dphi (HelixCommon) are the outputs of the REGENERATED _change_pivot code called with
   r = HelixObject.radius as HelixObject.change_pivot does; traj_* / centre_* (HelixSpec) is the BOSS helix in the
   BESIII field (signed radius alpha/kappa, alpha < 0).  atan2 is any function satisfying the polar-coordinate spec;
   C06_atan2_instance shows a concrete one exists, so nothing below is vacuous. *)
From Coq Require Import Reals Lra.
From PV.Lib Require Import RealAux.
From PV.Model Require Import HelixSpec.
From PV.Gen Require Import HelixCode.
From Coquelicot Require Import Coquelicot.
From PV.Props Require Import HelixCommon HelixLaws C06Proofs.
Local Open Scope R_scope.

(* the radius the code works with is the signed radius alpha / kappa of the BESIII field, for either charge *)
Theorem C06_code_radius_is_signed : forall dr phi0 kappa dz tanl x0 y0 z0 x1 y1 z1, kappa <> 0 ->
  cp_obj_r (obj_radius dr phi0 kappa dz tanl x0 y0 z0) dr phi0 dz kappa tanl x0 y0 z0 x1 y1 z1 = alpha / kappa.
Proof. exact code_radius_signed. Qed.
Print Assumptions C06_code_radius_is_signed.

Theorem C06_centre_preserved : forall atan2, atan2_spec atan2 ->
  forall dr phi0 kappa dz tanl x0 y0 z0 x1 y1 z1, kappa <> 0 ->
  (X dr phi0 kappa x0 x1 <> 0 \/ Y dr phi0 kappa y0 y1 <> 0) ->
  centre_x (ndr dr phi0 kappa dz tanl x0 y0 z0 x1 y1 z1) (nphi0 atan2 dr phi0 kappa dz tanl x0 y0 z0 x1 y1 z1) kappa x1
    = centre_x dr phi0 kappa x0 /\
  centre_y (ndr dr phi0 kappa dz tanl x0 y0 z0 x1 y1 z1) (nphi0 atan2 dr phi0 kappa dz tanl x0 y0 z0 x1 y1 z1) kappa y1
    = centre_y dr phi0 kappa y0.
Proof. exact centre_preserved. Qed.
Print Assumptions C06_centre_preserved.

(* same circle, same sense, same relation between turning angle and z: the new parameters trace the old trajectory,
   re-parametrised by the turning angle dphi between the two reference points; curvature and dip are carried unchanged *)
Theorem C06_same_trajectory : forall atan2, atan2_spec atan2 ->
  forall dr phi0 kappa dz tanl x0 y0 z0 x1 y1 z1, kappa <> 0 ->
  (X dr phi0 kappa x0 x1 <> 0 \/ Y dr phi0 kappa y0 y1 <> 0) -> forall s,
  let dr' := ndr dr phi0 kappa dz tanl x0 y0 z0 x1 y1 z1 in
  let phi0' := nphi0 atan2 dr phi0 kappa dz tanl x0 y0 z0 x1 y1 z1 in
  let dz' := ndz atan2 dr phi0 kappa dz tanl x0 y0 z0 x1 y1 z1 in
  let d := dphi atan2 dr phi0 kappa dz tanl x0 y0 z0 x1 y1 z1 in
  traj_x dr' phi0' kappa x1 s = traj_x dr phi0 kappa x0 (s + d) /\
  traj_y dr' phi0' kappa y1 s = traj_y dr phi0 kappa y0 (s + d) /\
  traj_z dz' kappa tanl z1 s = traj_z dz kappa tanl z0 (s + d).
Proof. exact same_trajectory. Qed.
Print Assumptions C06_same_trajectory.

Theorem C06_reference_is_closest : forall atan2, atan2_spec atan2 ->
  forall dr phi0 kappa dz tanl x0 y0 z0 x1 y1 z1, kappa <> 0 ->
  (X dr phi0 kappa x0 x1 <> 0 \/ Y dr phi0 kappa y0 y1 <> 0) ->
  let dr' := ndr dr phi0 kappa dz tanl x0 y0 z0 x1 y1 z1 in
  let phi0' := nphi0 atan2 dr phi0 kappa dz tanl x0 y0 z0 x1 y1 z1 in
  (traj_x dr' phi0' kappa x1 0 - x1) * Y dr phi0 kappa y0 y1 = (traj_y dr' phi0' kappa y1 0 - y1) * X dr phi0 kappa x0 x1 /\
  Rsqr (traj_x dr' phi0' kappa x1 0 - x1) + Rsqr (traj_y dr' phi0' kappa y1 0 - y1)
    = Rsqr (rho dr phi0 kappa x0 y0 x1 y1 - Rabs (r kappa)) /\
  Rabs dr' = Rabs (rho dr phi0 kappa x0 y0 x1 y1 - Rabs (r kappa)).
Proof. exact reference_is_closest. Qed.
Print Assumptions C06_reference_is_closest.

Theorem C06_momentum_tangent : forall atan2 dr phi0 kappa dz tanl x0 y0 z0 x1 y1 z1,
  let phi0' := nphi0 atan2 dr phi0 kappa dz tanl x0 y0 z0 x1 y1 z1 in
  let px := cos (phi0' + PI / 2) in let py := sin (phi0' + PI / 2) in
  rsigned kappa * sin (phi0' + 0) = - rsigned kappa * px /\ - rsigned kappa * cos (phi0' + 0) = - rsigned kappa * py.
Proof. exact momentum_tangent. Qed.
Print Assumptions C06_momentum_tangent.

(* the same as a statement about derivatives: d/ds of the new parametrisation at its reference point (s = 0) is -r times the
   unit vector of the documented momentum azimuth phi0' + pi/2 (and -r tanl in z): the momentum is tangent to the trajectory,
   pointing along decreasing s for r > 0 (negative charge) and along increasing s for r < 0 (positive charge) *)
Theorem C06_tangent_is_momentum_direction : forall atan2 dr phi0 kappa dz tanl x0 y0 z0 x1 y1 z1,
  let dr' := ndr dr phi0 kappa dz tanl x0 y0 z0 x1 y1 z1 in
  let phi0' := nphi0 atan2 dr phi0 kappa dz tanl x0 y0 z0 x1 y1 z1 in
  let dz' := ndz atan2 dr phi0 kappa dz tanl x0 y0 z0 x1 y1 z1 in
  is_derive (fun t => traj_x dr' phi0' kappa x1 t) 0 (- rsigned kappa * cos (phi0' + PI / 2)) /\
  is_derive (fun t => traj_y dr' phi0' kappa y1 t) 0 (- rsigned kappa * sin (phi0' + PI / 2)) /\
  is_derive (fun t => traj_z dz' kappa tanl z1 t) 0 (- rsigned kappa * tanl).
Proof. intros. apply tangent_is_momentum_direction. Qed.
Print Assumptions C06_tangent_is_momentum_direction.

(* sign convention derived, not asserted: with B = (0,0,-B0), B0 > 0, the equation of motion and the documented
   momentum azimuth phi0 + pi/2 force the signed radius to have the sign opposite to the charge, i.e. alpha < 0 *)
Theorem C06_lorentz_sign : forall q B0 m w rr phi0, 0 < B0 -> 0 < m -> rr <> 0 -> w <> 0 ->
  (forall s, m * (w * w * (rr * cos (phi0 + s))) = q * (- B0 * (w * (- rr * cos (phi0 + s)))) ) ->
  (exists lam, 0 < lam /\ forall s, w * (rr * sin (phi0 + s)) = lam * (- sin (phi0 + s)) /\ w * (- rr * cos (phi0 + s)) = lam * cos (phi0 + s)) ->
  q * rr < 0 /\ alpha < 0.
Proof. exact lorentz_sign. Qed.
Print Assumptions C06_lorentz_sign.

(* the array (and record) branch of the pivot change is literally the scalar branch, track by track *)
Theorem C06_array_branch_is_scalar_branch : forall atan2 r_in dr phi0 dz kappa tanl x0 y0 z0 x1 y1 z1,
  cp_arr_elementwise = true /\ cp_obj_elementwise = true /\
  cp_arr_out_new_dr r_in dr phi0 dz kappa tanl x0 y0 z0 x1 y1 z1 = cp_obj_out_new_dr r_in dr phi0 dz kappa tanl x0 y0 z0 x1 y1 z1 /\
  cp_arr_out_new_phi0 atan2 r_in dr phi0 dz kappa tanl x0 y0 z0 x1 y1 z1 = cp_obj_out_new_phi0 atan2 r_in dr phi0 dz kappa tanl x0 y0 z0 x1 y1 z1 /\
  cp_arr_out_dphi atan2 r_in dr phi0 dz kappa tanl x0 y0 z0 x1 y1 z1 = cp_obj_out_dphi atan2 r_in dr phi0 dz kappa tanl x0 y0 z0 x1 y1 z1 /\
  cp_arr_out_new_dz atan2 r_in dr phi0 dz kappa tanl x0 y0 z0 x1 y1 z1 = cp_obj_out_new_dz atan2 r_in dr phi0 dz kappa tanl x0 y0 z0 x1 y1 z1.
Proof. exact array_branch_is_scalar_branch. Qed.
Print Assumptions C06_array_branch_is_scalar_branch.

(* non-vacuity: a concrete atan2 meets the spec, and the hypotheses hold for a positive track moved off its centre *)
Example C06_atan2_instance : atan2_spec atan2_c.
Proof. exact atan2_c_spec. Qed.
Example C06_hypotheses_satisfiable : (2:R) <> 0 /\ (X 1 0 2 0 500 <> 0 \/ Y 1 0 2 0 0 <> 0).
Proof. split; [lra|]. left. unfold X, CX, centre_x, rsigned, alpha. rewrite cos_0. lra. Qed.
