(* Characterisation lemmas for the REGENERATED pivot-change code (PV.Gen.HelixCode): every later proof about the
   helix properties goes through these, so a harmless rewrite of helix.py only needs this file to re-check. *)
From Coq Require Import Reals Lra Lia ZArith.
From PV.Lib Require Import RealAux.
From PV.Model Require Import HelixSpec.
From PV.Gen Require Import HelixCode.
Local Open Scope R_scope.

Section Chars.
Variable atan2 : R -> R -> R.
Hypothesis A2 : atan2_spec atan2.
Variables dr phi0 kappa dz tanl x0 y0 z0 x1 y1 z1 : R.
Hypothesis Hk : kappa <> 0.

(* the value HelixObject.change_pivot passes for r: self.radius *)
Definition rin : R := obj_radius dr phi0 kappa dz tanl x0 y0 z0.

Definition r : R := rsigned kappa.
Definition sg : R := - Rsign kappa.
Definition CX : R := centre_x dr phi0 kappa x0.
Definition CY : R := centre_y dr phi0 kappa y0.
Definition X : R := CX - x1.
Definition Y : R := CY - y1.
Definition rho : R := sqrt (X * X + Y * Y).

Definition ndr : R := cp_obj_out_new_dr rin dr phi0 dz kappa tanl x0 y0 z0 x1 y1 z1.
Definition nphi0 : R := cp_obj_out_new_phi0 atan2 rin dr phi0 dz kappa tanl x0 y0 z0 x1 y1 z1.
Definition dphi : R := cp_obj_out_dphi atan2 rin dr phi0 dz kappa tanl x0 y0 z0 x1 y1 z1.
Definition ndz : R := cp_obj_out_new_dz atan2 rin dr phi0 dz kappa tanl x0 y0 z0 x1 y1 z1.

Lemma sg_sq : sg * sg = 1.
Proof. unfold sg. replace (- Rsign kappa * - Rsign kappa) with (Rsign kappa * Rsign kappa) by ring. apply Rsign_sq; exact Hk. Qed.

Lemma sg_cases : (sg = 1 /\ kappa < 0) \/ (sg = -1 /\ 0 < kappa).
Proof. unfold sg. destruct (Rdichotomy _ _ Hk) as [H|H]; [left; rewrite Rsign_neg by exact H; split; lra | right; rewrite Rsign_pos by exact H; split; lra]. Qed.

(* the code's signed radius is alpha / kappa: BESIII field along -z *)
Lemma code_radius_signed : cp_obj_r rin dr phi0 dz kappa tanl x0 y0 z0 x1 y1 z1 = r.
Proof.
  unfold cp_obj_r, cp_obj_sign, rin, obj_radius, r, rsigned, alpha.
  destruct (Rdichotomy _ _ Hk) as [H|H].
  - rewrite Rsign_neg, Rabs_left by exact H. field. lra.
  - rewrite Rsign_pos, Rabs_pos_eq by lra. field. lra.
Qed.

Lemma sg_is_sign_r : sg * Rabs r = r.
Proof.
  unfold sg, r, rsigned. pose proof alpha_neg as An.
  destruct (Rdichotomy _ _ Hk) as [H|H].
  - rewrite Rsign_neg by exact H. assert (0 < alpha / kappa).
    { unfold Rdiv. replace (alpha * / kappa) with ((- alpha) * / (- kappa)) by (field; lra).
      apply Rmult_lt_0_compat; [lra|apply Rinv_0_lt_compat; lra]. }
    rewrite Rabs_pos_eq by lra. ring.
  - rewrite Rsign_pos by exact H. assert (alpha / kappa < 0).
    { unfold Rdiv. assert (0 < (- alpha) * / kappa) by (apply Rmult_lt_0_compat; [lra|apply Rinv_0_lt_compat; lra]). lra. }
    rewrite Rabs_left by lra. ring.
Qed.

Lemma code_new_dist : 
  cp_obj_new_dist_x rin dr phi0 dz kappa tanl x0 y0 z0 x1 y1 z1 = X /\
  cp_obj_new_dist_y rin dr phi0 dz kappa tanl x0 y0 z0 x1 y1 z1 = Y.
Proof.
  unfold cp_obj_new_dist_x, cp_obj_new_dist_y, cp_obj_center_x, cp_obj_center_y, cp_obj_old_dist_x, cp_obj_old_dist_y.
  rewrite code_radius_signed. unfold X, Y, CX, CY, centre_x, centre_y, r. split; ring.
Qed.

Lemma ndr_char : ndr = sg * rho - r.
Proof.
  unfold ndr, cp_obj_out_new_dr, cp_obj_new_dr. destruct code_new_dist as [EX EY]. rewrite EX, EY, code_radius_signed.
  unfold cp_obj_sign. reflexivity.
Qed.

Lemma nphi0_char : nphi0 = pymod (atan2 Y X + (1 - sg) * (PI / 2)) (2 * PI).
Proof.
  unfold nphi0, cp_obj_out_new_phi0, cp_obj_new_phi0. destruct code_new_dist as [EX EY]. rewrite EX, EY.
  unfold cp_obj_sign. reflexivity.
Qed.

Lemma dphi_char : dphi = let d := pymod (nphi0 - phi0) (2 * PI) in if Rlt_dec PI d then d - 2 * PI else d.
Proof. unfold dphi, cp_obj_out_dphi, cp_obj_dphi_2, cp_obj_dphi. reflexivity. Qed.

Lemma ndz_char : ndz = z0 + dz - r * tanl * dphi - z1.
Proof. unfold ndz, cp_obj_out_new_dz, cp_obj_new_dz. rewrite code_radius_signed. reflexivity. Qed.

Lemma two_pi_pos : 0 < 2 * PI. Proof. pose proof PI_RGT_0. lra. Qed.

Lemma nphi0_range : 0 <= nphi0 < 2 * PI.
Proof. rewrite nphi0_char. apply pymod_range. exact two_pi_pos. Qed.

Lemma dphi_cong : exists k : Z, dphi = nphi0 - phi0 + 2 * IZR k * PI.
Proof.
  rewrite dphi_char. cbv zeta. destruct (pymod_exists (nphi0 - phi0) (2 * PI)) as [k Hk'].
  destruct (Rlt_dec PI (pymod (nphi0 - phi0) (2 * PI))).
  - exists (k - 1)%Z. rewrite Hk', minus_IZR. ring.
  - exists k. rewrite Hk'. ring.
Qed.

Lemma dphi_range : - PI < dphi <= PI.
Proof.
  rewrite dphi_char. cbv zeta. pose proof (pymod_range (nphi0 - phi0) (2 * PI) two_pi_pos) as H. pose proof PI_RGT_0.
  destruct (Rlt_dec PI (pymod (nphi0 - phi0) (2 * PI))); lra.
Qed.

Hypothesis Hoff : X <> 0 \/ Y <> 0.   (* the new pivot is not the circle centre *)

Lemma rho_pos : 0 < rho.
Proof. apply sqrt_sumsq_pos. exact Hoff. Qed.

(* direction of the new phi0: sg * (X, Y) = rho (cos phi0', sin phi0') *)
Lemma nphi0_trig : rho * cos nphi0 = sg * X /\ rho * sin nphi0 = sg * Y.
Proof.
  destruct (A2 Y X Hoff) as [HX HY]. fold rho in HX, HY.
  rewrite nphi0_char, pymod_2pi_cos, pymod_2pi_sin.
  destruct sg_cases as [[E _]|[E _]]; rewrite E.
  - replace ((1 - 1) * (PI / 2)) with 0 by ring. rewrite Rplus_0_r. split; lra.
  - replace ((1 - -1) * (PI / 2)) with PI by field. rewrite neg_cos, neg_sin. split; lra.
Qed.

Lemma ndr_plus_r : ndr + r = sg * rho.
Proof. rewrite ndr_char. ring. Qed.

(* C06: the circle centre is invariant *)
Lemma centre_preserved : centre_x ndr nphi0 kappa x1 = CX /\ centre_y ndr nphi0 kappa y1 = CY.
Proof.
  destruct nphi0_trig as [HC HS]. pose proof sg_sq as S2.
  unfold centre_x at 1, centre_y at 1. fold r. rewrite ndr_plus_r.
  split.
  - replace (sg * rho * cos nphi0) with (sg * (rho * cos nphi0)) by ring. rewrite HC.
    replace (sg * (sg * X)) with ((sg * sg) * X) by ring. rewrite S2. unfold X. ring.
  - replace (sg * rho * sin nphi0) with (sg * (rho * sin nphi0)) by ring. rewrite HS.
    replace (sg * (sg * Y)) with ((sg * sg) * Y) by ring. rewrite S2. unfold Y. ring.
Qed.

Lemma cos_sin_shift s : cos (nphi0 + s) = cos (phi0 + (s + dphi)) /\ sin (nphi0 + s) = sin (phi0 + (s + dphi)).
Proof.
  destruct dphi_cong as [k Hk']. rewrite Hk'.
  replace (phi0 + (s + (nphi0 - phi0 + 2 * IZR k * PI))) with (nphi0 + s + 2 * IZR k * PI) by ring.
  rewrite cos_period_Z, sin_period_Z. split; reflexivity.
Qed.

(* C06: the new parameters describe the same trajectory, shifted by the turning angle dphi *)
Lemma same_trajectory s :
  traj_x ndr nphi0 kappa x1 s = traj_x dr phi0 kappa x0 (s + dphi) /\
  traj_y ndr nphi0 kappa y1 s = traj_y dr phi0 kappa y0 (s + dphi) /\
  traj_z ndz kappa tanl z1 s = traj_z dz kappa tanl z0 (s + dphi).
Proof.
  destruct centre_preserved as [EX EY]. destruct (cos_sin_shift s) as [EC ES].
  rewrite !traj_centre_form_x, !traj_centre_form_y, EX, EY, EC, ES.
  repeat split; try reflexivity. unfold traj_z. rewrite ndz_char. fold r. ring.
Qed.

(* C06: the new reference point is the point of the circle closest to the new pivot *)
Lemma reference_is_closest :
  (* on the line through the centre and the new pivot ... *)
  (traj_x ndr nphi0 kappa x1 0 - x1) * Y = (traj_y ndr nphi0 kappa y1 0 - y1) * X /\
  (* ... at distance | |centre - pivot'| - |r| | from the new pivot, which is the distance from pivot' to the circle *)
  Rsqr (traj_x ndr nphi0 kappa x1 0 - x1) + Rsqr (traj_y ndr nphi0 kappa y1 0 - y1) = Rsqr (rho - Rabs r) /\
  Rabs ndr = Rabs (rho - Rabs r).
Proof.
  destruct nphi0_trig as [HC HS]. pose proof rho_pos as Rp. pose proof sg_sq as S2. pose proof sg_is_sign_r as SR.
  destruct (traj_at_0 ndr nphi0 kappa ndz tanl x1 y1 z1) as (T1 & T2 & _). rewrite T1, T2.
  replace (x1 + ndr * cos nphi0 - x1) with (ndr * cos nphi0) by ring.
  replace (y1 + ndr * sin nphi0 - y1) with (ndr * sin nphi0) by ring.
  assert (EN : ndr = sg * (rho - Rabs r)) by (rewrite ndr_char; rewrite <- SR at 1; ring).
  split; [|split].
  - apply (Rmult_eq_reg_l rho); [|lra].
    transitivity (ndr * (rho * cos nphi0) * Y); [ring|]. rewrite HC.
    transitivity (ndr * (rho * sin nphi0) * X); [rewrite HS; ring | ring].
  - unfold Rsqr. pose proof (sin2_cos2 nphi0) as E. unfold Rsqr in E.
    transitivity (ndr * ndr * (sin nphi0 * sin nphi0 + cos nphi0 * cos nphi0)); [ring|]. rewrite E, EN.
    transitivity ((sg * sg) * ((rho - Rabs r) * (rho - Rabs r))); [ring|]. rewrite S2. ring.
  - rewrite EN, Rabs_mult. destruct sg_cases as [[E _]|[E _]]; rewrite E.
    + rewrite Rabs_R1. ring.
    + replace (Rabs (-1)) with 1 by (rewrite Rabs_left; lra). ring.
Qed.

(* C06: the momentum (azimuth phi0' + pi/2) is tangent to the trajectory at the new reference point:
   d/ds traj(s) at s = 0 is r (sin phi0', - cos phi0') = - r * (cos (phi0' + pi/2), sin (phi0' + pi/2)) *)
Lemma momentum_tangent :
  let px := cos (nphi0 + PI / 2) in let py := sin (nphi0 + PI / 2) in
  rsigned kappa * sin (nphi0 + 0) = - rsigned kappa * px /\ - rsigned kappa * cos (nphi0 + 0) = - rsigned kappa * py.
Proof. cbv zeta. rewrite Rplus_0_r, cos_plus, sin_plus, cos_PI2, sin_PI2. split; ring. Qed.

End Chars.
