(* C17 — proofs about the hand model PV.Model.Cache (mirror of pybes3/_cache_numba.py + numba's compile-or-load).
   All statements are for arbitrary states / arbitrary op lists (induction, no bound). *)
From Coq Require Import ZArith List Bool Lia.
From PV.Model Require Import Cache.
Import ListNotations.
Local Open Scope Z_scope.

(* ------------------------------------------------------------------ basics *)
Lemma tbl_eqb_eq a b : tbl_eqb a b = true <-> a = b.
Proof. destruct a, b; simpl; split; congruence. Qed.
Lemma tbl_eqb_refl a : tbl_eqb a a = true.
Proof. destruct a; reflexivity. Qed.
Lemma kind_eqb_eq a b : kind_eqb a b = true <-> a = b.
Proof. destruct a, b; simpl; split; congruence. Qed.

Lemma mkid_inj t k fn t' k' fn' : mkid t k fn = mkid t' k' fn' -> t = t' /\ k = k' /\ fn = fn'.
Proof. unfold mkid; destruct t, t', k, k'; simpl; intros; repeat split; try reflexivity; try lia. Qed.

Lemma memZ_In x l : memZ x l = true <-> In x l.
Proof.
  unfold memZ; rewrite existsb_exists; split.
  - intros [y [Hy E]]. apply Z.eqb_eq in E. subst; auto.
  - intro H; exists x; split; auto. apply Z.eqb_refl.
Qed.

Lemma del_In f i l : In f (del i l) <-> In f l /\ fid f <> i.
Proof.
  unfold del; rewrite filter_In. split; intros [H1 H2]; split; auto.
  - apply negb_true_iff in H2. apply Z.eqb_neq in H2. auto.
  - apply negb_true_iff. apply Z.eqb_neq. auto.
Qed.

Lemma write_In f a l : In f (write a l) -> f = a \/ In f l.
Proof. unfold write; simpl; intros [H | H]; auto. apply del_In in H; tauto. Qed.

Lemma order_In ord cs f : In f (order ord cs) <-> In f cs.
Proof.
  unfold order; rewrite in_app_iff, in_flat_map; split.
  - intros [[i [_ Hf]] | Hf]; apply filter_In in Hf; tauto.
  - intro H. destruct (memZ (fid f) ord) eqn:E.
    + left; exists (fid f); split; [apply memZ_In; auto | apply filter_In; split; auto; apply Z.eqb_refl].
    + right; apply filter_In; rewrite E; auto.
Qed.

Lemma fold_max_spec l : forall a, a <= fold_left Z.max l a /\ (forall x, In x l -> x <= fold_left Z.max l a) /\
                                  (fold_left Z.max l a = a \/ In (fold_left Z.max l a) l).
Proof.
  induction l as [|y l IH]; simpl; intro a.
  - repeat split; try lia; try tauto.
  - destruct (IH (Z.max a y)) as [H1 [H2 H3]]. repeat split.
    + lia.
    + intros x [<- | Hx]; [lia | auto].
    + destruct H3 as [H3 | H3]; auto. rewrite H3. destruct (Z.max_spec a y) as [[_ E] | [_ E]]; rewrite E; auto.
Qed.
Lemma fold_min_spec l : forall a, fold_left Z.min l a <= a /\ (forall x, In x l -> fold_left Z.min l a <= x) /\
                                  (fold_left Z.min l a = a \/ In (fold_left Z.min l a) l).
Proof.
  induction l as [|y l IH]; simpl; intro a.
  - repeat split; try lia; try tauto.
  - destruct (IH (Z.min a y)) as [H1 [H2 H3]]. repeat split.
    + lia.
    + intros x [<- | Hx]; [lia | auto].
    + destruct H3 as [H3 | H3]; auto. rewrite H3. destruct (Z.min_spec a y) as [[_ E] | [_ E]]; rewrite E; auto.
Qed.
Lemma maxl_ge l m : maxl l = Some m -> forall x, In x l -> x <= m.
Proof. destruct l as [|a l]; simpl; [discriminate|]. intros [= <-] x. destruct (fold_max_spec l a) as [H1 [H2 _]]. intros [<- | H]; auto. Qed.
Lemma maxl_in l m : maxl l = Some m -> In m l.
Proof. destruct l as [|a l]; simpl; [discriminate|]. intros [= <-]. destruct (fold_max_spec l a) as [_ [_ [E | H]]]; auto. Qed.
Lemma minl_le l m : minl l = Some m -> forall x, In x l -> m <= x.
Proof. destruct l as [|a l]; simpl; [discriminate|]. intros [= <-] x. destruct (fold_min_spec l a) as [H1 [H2 _]]. intros [<- | H]; auto. Qed.
Lemma minl_in l m : minl l = Some m -> In m l.
Proof. destruct l as [|a l]; simpl; [discriminate|]. intros [= <-]. destruct (fold_min_spec l a) as [_ [_ [E | H]]]; auto. Qed.

(* ------------------------------------------------------------------ the removal loop *)
Lemma loop_sub e cs : forall b l rm fl f, In f (l_fs (rm_loop e b cs l rm fl)) -> In f l.
Proof.
  induction cs as [|c cs IH]; simpl; intros b l rm fl f H; auto.
  destruct (os_remove e b c); simpl in H; auto; apply IH in H; auto; apply del_In in H; tauto.
Qed.
Lemma loop_failed e cs : forall b l rm fl, exists x, l_failed (rm_loop e b cs l rm fl) = fl ++ x.
Proof.
  induction cs as [|c cs IH]; simpl; intros b l rm fl.
  - exists []; rewrite app_nil_r; auto.
  - destruct (os_remove e b c); simpl; auto.
    + destruct (IH b l rm (fl ++ [fid c])) as [x Hx]. exists ([fid c] ++ x). rewrite Hx, app_assoc. auto.
    + exists []; rewrite app_nil_r; auto.
Qed.
(* a run that was neither interrupted nor met a failing removal leaves none of the listed files *)
Lemma loop_clean e cs : forall b l rm fl, l_intr (rm_loop e b cs l rm fl) = false -> l_failed (rm_loop e b cs l rm fl) = [] ->
  forall c f, In c cs -> In f (l_fs (rm_loop e b cs l rm fl)) -> fid f <> fid c.
Proof.
  induction cs as [|a cs IH]; simpl; intros b l rm fl Hi Hf c f Hc Hin; [tauto|].
  destruct (os_remove e b a) eqn:E; simpl in *.
  - destruct Hc as [<- | Hc]; [|eapply IH; eauto]. apply loop_sub in Hin. apply del_In in Hin; tauto.
  - destruct Hc as [<- | Hc]; [|eapply IH; eauto]. apply loop_sub in Hin. apply del_In in Hin; tauto.
  - destruct (loop_failed e cs b l rm (fl ++ [fid a])) as [x Hx]. rewrite Hx in Hf.
    apply app_eq_nil in Hf. destruct Hf as [Hf _]. apply app_eq_nil in Hf. destruct Hf; discriminate.
  - discriminate.
Qed.
(* files that are not in the list are never touched *)
Lemma loop_keeps e cs : forall b l rm fl g, In g l -> (forall c, In c cs -> fid g <> fid c) -> In g (l_fs (rm_loop e b cs l rm fl)).
Proof.
  induction cs as [|a cs IH]; simpl; intros b l rm fl g Hg Hn; auto.
  destruct (os_remove e b a); simpl; auto; apply IH; auto; apply del_In; split; auto.
Qed.
Definition benign (e : env) : Prop := e_budget e = None /\ e_denied e = [] /\ e_vanished e = [].
Lemma loop_benign e cs : benign e -> forall l rm fl, let r := rm_loop e None cs l rm fl in
  l_intr r = false /\ l_failed r = fl /\ l_removed r = rm ++ map fid cs /\ l_budget r = None.
Proof.
  intros [_ [Hd Hv]]. induction cs as [|a cs IH]; simpl; intros l rm fl.
  - rewrite app_nil_r; auto.
  - unfold os_remove. rewrite Hd, Hv. simpl.
    destruct (IH (del (fid a) l) (rm ++ [fid a]) fl) as [H1 [H2 [H3 H4]]]. repeat split; auto.
    rewrite H3, <- app_assoc. reflexivity.
Qed.

(* ------------------------------------------------------------------ invariant *)
(* clause 3 is the property's freshness invariant: a cache compiled from an older table version is older
   than (every copy of) its table file *)
Definition FsInv (l : list file) (clk : Z) (vf : tbl -> Z) : Prop :=
  (forall f, In f l -> f_mtime f <= clk) /\
  (forall f, In f l -> is_cache f = true -> f_built f <= vf (f_tbl f)) /\
  (forall f g, In f l -> In g l -> is_cache f = true -> f_built f < vf (f_tbl f) ->
               is_src (f_tbl f) g = true -> f_mtime f < f_mtime g).
Definition ProcInv (s : state) : Prop :=
  (forall t v, loaded s t = Some v -> v <= ver s t) /\ (forall t fn v, In (t, fn, v) (comp s) -> v <= ver s t).
Definition Inv (s : state) : Prop := FsInv (fs s) (clock s) (ver s) /\ ProcInv s.

Definition no_stale_of (l : list file) (vf : tbl -> Z) (t : tbl) : Prop :=
  forall f, In f l -> is_cache_of t f = true -> vf t <= f_built f.
Definition no_stale (s : state) : Prop :=
  forall f, In f (fs s) -> is_cache f = true -> ver s (f_tbl f) <= f_built f.
Definition has_src (l : list file) (t : tbl) : Prop := exists g, In g l /\ is_src t g = true.

Lemma FsInv_sub l l' clk vf : (forall f, In f l' -> In f l) -> FsInv l clk vf -> FsInv l' clk vf.
Proof. intros S [A [B C]]. repeat split; intros; eauto. Qed.
Lemma no_stale_of_sub l l' vf t : (forall f, In f l' -> In f l) -> no_stale_of l vf t -> no_stale_of l' vf t.
Proof. unfold no_stale_of; intros; eauto. Qed.

Lemma is_cache_of_split t f : is_cache_of t f = true <-> f_tbl f = t /\ is_cache f = true.
Proof. unfold is_cache_of. rewrite andb_true_iff, tbl_eqb_eq. tauto. Qed.
Lemma src_not_cache t g : is_src t g = true -> is_cache g = false.
Proof. unfold is_src, is_cache. rewrite andb_true_iff. intros [_ H]. rewrite H. reflexivity. Qed.
Lemma src_cache_fid t g c : is_src t g = true -> is_cache c = true -> fid g <> fid c.
Proof.
  intros Hs Hc E. unfold fid in E. apply mkid_inj in E. destruct E as [_ [E _]].
  apply src_not_cache in Hs. unfold is_cache in *. rewrite E in Hs. congruence.
Qed.

Ltac break := repeat match goal with
  | |- context [match ?x with _ => _ end] => destruct x eqn:?
  | H : context [match ?x with _ => _ end] |- _ => destruct x eqn:?
  end.

(* ------------------------------------------------------------------ cache_auto_clear *)
Local Arguments rm_loop : simpl never.
Local Arguments maxl : simpl never.
Local Arguments minl : simpl never.
Lemma ac_sub e force t b l f : In f (a_fs (auto_clear e force t b l)) -> In f l.
Proof. unfold auto_clear. cbv zeta. intro H. break; simpl in *; auto; eapply loop_sub; eauto. Qed.

Lemma ac_keeps_src e force t b l g : In g l -> is_cache g = false -> In g (a_fs (auto_clear e force t b l)).
Proof.
  intros Hg Hc. unfold auto_clear. cbv zeta.
  destruct (filter (is_src t) l) as [|g' srcs]; [simpl; auto|].
  destruct (order (e_ord e) (filter (is_cache_of t) l)) as [|c0 cs0] eqn:Ec; [simpl; auto|].
  destruct (maxl _); [|simpl; auto]. destruct (minl _); [|simpl; auto].
  destruct (_ || force); [|simpl; auto].
  assert (In g (l_fs (rm_loop e b (c0 :: cs0) l [] []))).
  { apply loop_keeps; auto. intros c Hin E. rewrite <- Ec in Hin. apply order_In in Hin. apply filter_In in Hin.
    destruct Hin as [_ Hin]. apply is_cache_of_split in Hin. destruct Hin as [_ Hin]. unfold fid in E.
    apply mkid_inj in E. destruct E as [_ [E _]]. unfold is_cache in *. rewrite E in Hc. congruence. }
  destruct (l_intr _); [simpl; auto|]. destruct (l_failed _); simpl; auto.
Qed.

Lemma ac_keeps_other e force t b l c : In c l -> f_tbl c <> t -> In c (a_fs (auto_clear e force t b l)).
Proof.
  intros Hc Hne. unfold auto_clear. cbv zeta.
  destruct (filter (is_src t) l) as [|g' srcs]; [simpl; auto|].
  destruct (order (e_ord e) (filter (is_cache_of t) l)) as [|c0 cs0] eqn:Ec; [simpl; auto|].
  destruct (maxl _); [|simpl; auto]. destruct (minl _); [|simpl; auto].
  destruct (_ || force); [|simpl; auto].
  assert (In c (l_fs (rm_loop e b (c0 :: cs0) l [] []))).
  { apply loop_keeps; auto. intros c' Hin E. rewrite <- Ec in Hin. apply order_In in Hin. apply filter_In in Hin.
    destruct Hin as [_ Hin]. apply is_cache_of_split in Hin. destruct Hin as [Hin _]. unfold fid in E.
    apply mkid_inj in E. destruct E as [E _]. congruence. }
  destruct (l_intr _); [simpl; auto|]. destruct (l_failed _); simpl; auto.
Qed.

Lemma ac_ok_no_stale e t b l clk vf : FsInv l clk vf -> a_err (auto_clear e false t b l) = ENone ->
  no_stale_of (a_fs (auto_clear e false t b l)) vf t.
Proof.
  intros [_ [_ C]]. unfold auto_clear. cbv zeta.
  destruct (filter (is_src t) l) as [|g srcs] eqn:Es; [simpl; discriminate|].
  assert (Hg : In g l /\ is_src t g = true) by (apply filter_In; rewrite Es; left; auto).
  destruct (order (e_ord e) (filter (is_cache_of t) l)) as [|c0 cs0] eqn:Ec.
  - simpl. intros _ f Hf Hc. assert (In f (order (e_ord e) (filter (is_cache_of t) l))) by (apply order_In, filter_In; auto).
    rewrite Ec in H; destruct H.
  - destruct (maxl (map f_mtime (g :: srcs))) as [smax|] eqn:Emax; [|simpl; discriminate].
    destruct (minl (map f_mtime (c0 :: cs0))) as [cmin|] eqn:Emin; [|simpl; discriminate].
    rewrite orb_false_r. destruct (cmin <? smax) eqn:Elt.
    + destruct (l_intr _) eqn:Ei; [simpl; discriminate|].
      destruct (l_failed _) eqn:Ef; [|simpl; discriminate].
      simpl. intros _ f Hf Hc. exfalso.
      assert (Hfl : In f l) by (eapply loop_sub; eauto).
      assert (In f (c0 :: cs0)) by (rewrite <- Ec; apply order_In, filter_In; auto).
      eapply (loop_clean e (c0 :: cs0)); eauto.
    + simpl. intros _ f Hf Hc. apply is_cache_of_split in Hc. destruct Hc as [Ht Hc].
      destruct (Z_lt_le_dec (f_built f) (vf t)) as [Hst|]; auto. exfalso.
      destruct Hg as [Hg1 Hg2]. rewrite <- Ht in Hst, Hg2.
      pose proof (C f g Hf Hg1 Hc Hst Hg2) as Hm.
      assert (f_mtime g <= smax) by (eapply maxl_ge; eauto; apply in_map; left; auto).
      assert (cmin <= f_mtime f).
      { eapply minl_le; eauto. apply in_map. rewrite <- Ec. apply order_In, filter_In. split; auto.
        apply is_cache_of_split; auto. }
      apply Z.ltb_ge in Elt. lia.
Qed.

Lemma ac_force_ok_clean e t b l : a_err (auto_clear e true t b l) = ENone ->
  forall f, In f (a_fs (auto_clear e true t b l)) -> is_cache_of t f = false.
Proof.
  unfold auto_clear. cbv zeta.
  destruct (filter (is_src t) l) as [|g srcs] eqn:Es; [simpl; discriminate|].
  destruct (order (e_ord e) (filter (is_cache_of t) l)) as [|c0 cs0] eqn:Ec.
  - simpl. intros _ f Hf. destruct (is_cache_of t f) eqn:Hc; auto.
    assert (In f (order (e_ord e) (filter (is_cache_of t) l))) by (apply order_In, filter_In; auto).
    rewrite Ec in H; destruct H.
  - destruct (maxl (map f_mtime (g :: srcs))) as [smax|] eqn:Emax; [|simpl; discriminate].
    destruct (minl (map f_mtime (c0 :: cs0))) as [cmin|] eqn:Emin; [|simpl; discriminate].
    rewrite orb_true_r.
    destruct (l_intr _) eqn:Ei; [simpl; discriminate|].
    destruct (l_failed _) eqn:Ef; [|simpl; discriminate].
    simpl. intros _ f Hf. destruct (is_cache_of t f) eqn:Hc; auto. exfalso.
    assert (Hfl : In f l) by (eapply loop_sub; eauto).
    assert (In f (c0 :: cs0)) by (rewrite <- Ec; apply order_In, filter_In; auto).
    eapply (loop_clean e (c0 :: cs0)); eauto.
Qed.

(* with a benign environment the only possible failure is the missing table file *)
Lemma ac_benign_ok e force t l : benign e -> has_src l t ->
  a_err (auto_clear e force t None l) = ENone /\ a_budget (auto_clear e force t None l) = None.
Proof.
  intros Hb [g [Hg Hs]]. unfold auto_clear. cbv zeta.
  destruct (filter (is_src t) l) as [|g' srcs] eqn:Es.
  { assert (In g (filter (is_src t) l)) by (apply filter_In; auto). rewrite Es in H; destruct H. }
  destruct (order (e_ord e) (filter (is_cache_of t) l)) as [|c0 cs0] eqn:Ec; [simpl; auto|].
  destruct (maxl (map f_mtime (g' :: srcs))) eqn:Emax; [|unfold maxl in Emax; simpl in Emax; discriminate].
  destruct (minl (map f_mtime (c0 :: cs0))) eqn:Emin; [|unfold minl in Emin; simpl in Emin; discriminate].
  destruct ((z0 <? z) || force); [|simpl; auto].
  destruct (loop_benign e (c0 :: cs0) Hb l [] []) as [H1 [H2 [_ H4]]].
  rewrite H1, H2. simpl. auto.
Qed.

(* nothing is removed when no cache is older than the table (strict comparison: equal mtimes keep too) *)
Lemma ac_fresh_kept e t b l :
  (forall c g, In c l -> In g l -> is_cache_of t c = true -> is_src t g = true -> f_mtime g <= f_mtime c) ->
  a_fs (auto_clear e false t b l) = l /\ a_removed (auto_clear e false t b l) = [] /\ a_budget (auto_clear e false t b l) = b.
Proof.
  intro H. unfold auto_clear. cbv zeta.
  destruct (filter (is_src t) l) as [|g srcs] eqn:Es; [simpl; auto|].
  destruct (order (e_ord e) (filter (is_cache_of t) l)) as [|c0 cs0] eqn:Ec; [simpl; auto|].
  destruct (maxl (map f_mtime (g :: srcs))) as [smax|] eqn:Emax; [|simpl; auto].
  destruct (minl (map f_mtime (c0 :: cs0))) as [cmin|] eqn:Emin; [|simpl; auto].
  rewrite orb_false_r. destruct (cmin <? smax) eqn:Elt; [|simpl; auto]. exfalso.
  apply maxl_in in Emax. apply minl_in in Emin. apply in_map_iff in Emax. apply in_map_iff in Emin.
  destruct Emax as [g1 [E1 G1]]. destruct Emin as [c1 [E2 G2]].
  rewrite <- Es in G1. apply filter_In in G1. rewrite <- Ec in G2. apply order_In in G2. apply filter_In in G2.
  destruct G1, G2. pose proof (H c1 g1). apply Z.ltb_lt in Elt. intuition lia.
Qed.

(* ------------------------------------------------------------------ check_numba_cache / clear_numba_cache *)
Lemma cp_sub e force ps : forall b l acc f, In f (a_fs (check_pairs e force ps b l acc)) -> In f l.
Proof.
  induction ps as [|t ps IH]; simpl; intros b l acc f H; auto.
  destruct (a_err (auto_clear e force t b l)) eqn:E; simpl in H; [apply IH in H|..]; eapply ac_sub; eauto.
Qed.
Lemma cp_keeps_src e force ps : forall b l acc g, In g l -> is_cache g = false -> In g (a_fs (check_pairs e force ps b l acc)).
Proof.
  induction ps as [|t ps IH]; simpl; intros b l acc g Hg Hc; auto.
  destruct (a_err (auto_clear e force t b l)) eqn:E; simpl; [apply IH; auto|..]; apply ac_keeps_src; auto.
Qed.
Lemma cp_ok_no_stale e ps clk vf : forall b l acc, FsInv l clk vf -> a_err (check_pairs e false ps b l acc) = ENone ->
  forall t, In t ps -> no_stale_of (a_fs (check_pairs e false ps b l acc)) vf t.
Proof.
  induction ps as [|t0 ps IH]; simpl; intros b l acc HI Herr t Ht; [tauto|].
  destruct (a_err (auto_clear e false t0 b l)) eqn:E; simpl in Herr; try discriminate.
  assert (HI' : FsInv (a_fs (auto_clear e false t0 b l)) clk vf) by (apply (FsInv_sub l); [intros f0 Hf0; eapply ac_sub; eauto | exact HI]).
  destruct Ht as [<- | Ht]; [|eapply IH; eauto].
  eapply no_stale_of_sub; [intros; eapply cp_sub; eauto|]. eapply ac_ok_no_stale; eauto.
Qed.
Lemma cp_force_ok_clean e ps : forall b l acc, a_err (check_pairs e true ps b l acc) = ENone ->
  forall t f, In t ps -> In f (a_fs (check_pairs e true ps b l acc)) -> is_cache_of t f = false.
Proof.
  induction ps as [|t0 ps IH]; simpl; intros b l acc Herr t f Ht Hf; [tauto|].
  destruct (a_err (auto_clear e true t0 b l)) eqn:E; simpl in Herr; try discriminate.
  destruct Ht as [<- | Ht]; [|eapply IH; eauto].
  apply cp_sub in Hf. eapply ac_force_ok_clean; eauto.
Qed.
Lemma cp_benign_ok e force ps : benign e -> forall l acc, (forall t, In t ps -> has_src l t) ->
  a_err (check_pairs e force ps None l acc) = ENone.
Proof.
  intro Hb. induction ps as [|t0 ps IH]; simpl; intros l acc Hs; auto.
  destruct (ac_benign_ok e force t0 l Hb (Hs t0 (or_introl eq_refl))) as [H1 H2]. rewrite H1, H2.
  apply IH. intros t Ht. destruct (Hs t (or_intror Ht)) as [g [Hg Hsrc]].
  exists g; split; auto. apply ac_keeps_src; auto. eapply src_not_cache; eauto.
Qed.
Lemma cp_fresh_kept e ps : forall b l acc,
  (forall c g, In c l -> In g l -> is_cache c = true -> is_src (f_tbl c) g = true -> f_mtime g <= f_mtime c) ->
  a_fs (check_pairs e false ps b l acc) = l /\ a_removed (check_pairs e false ps b l acc) = acc.
Proof.
  induction ps as [|t0 ps IH]; simpl; intros b l acc H; auto.
  destruct (ac_fresh_kept e t0 b l) as [H1 [H2 H3]].
  { intros c g Hc Hg Hcc Hs. apply is_cache_of_split in Hcc. destruct Hcc as [Et Hcc]. apply H; auto. rewrite Et; auto. }
  rewrite H1, H2, H3, app_nil_r. destruct (a_err (auto_clear e false t0 b l)); simpl; auto.
Qed.
(* forced clear in a benign environment reports every cache file as removed *)
Lemma ac_benign_removed e t l c : benign e -> has_src l t -> In c l -> is_cache_of t c = true ->
  In (fid c) (a_removed (auto_clear e true t None l)).
Proof.
  intros Hb [g [Hg Hs]] Hc Hcc. unfold auto_clear. cbv zeta.
  destruct (filter (is_src t) l) as [|g' srcs] eqn:Es.
  { assert (In g (filter (is_src t) l)) by (apply filter_In; auto). rewrite Es in H; destruct H. }
  assert (Hin : In c (order (e_ord e) (filter (is_cache_of t) l))) by (apply order_In, filter_In; auto).
  destruct (order (e_ord e) (filter (is_cache_of t) l)) as [|c0 cs0] eqn:Ec; [destruct Hin|].
  destruct (maxl (map f_mtime (g' :: srcs))) eqn:Emax; [|unfold maxl in Emax; simpl in Emax; discriminate].
  destruct (minl (map f_mtime (c0 :: cs0))) eqn:Emin; [|unfold minl in Emin; simpl in Emin; discriminate].
  rewrite orb_true_r.
  destruct (loop_benign e (c0 :: cs0) Hb l [] []) as [H1 [H2 [H3 _]]].
  rewrite H1, H2. simpl a_removed. rewrite H3. change ([] ++ map fid (c0 :: cs0)) with (map fid (c0 :: cs0)). apply in_map. exact Hin.
Qed.

(* ------------------------------------------------------------------ steps *)
Definition op_okb (s : state) (o : op) : bool :=
  match o with
  | UpdateTable _ dt => 0 <? dt
  | FirstUse t fn dt => (0 <? dt) && (negb (will_compile s t fn) ||
                          match loaded s t with None => true | Some v => v =? ver s t end)
  | _ => true
  end.
(* clock assumption: every file-writing event happens in a later timestamp tick than all earlier ones (0 < dt);
   process assumption: when a process compiles a kernel (cache creation), the table it holds in memory is the
   current one, i.e. the table was not re-written between this process's lazy load and its cache creation *)
Definition op_ok (s : state) (o : op) : Prop := op_okb s o = true.
Fixpoint hist_ok (s : state) (ops : list op) : Prop :=
  match ops with [] => True | o :: r => op_ok s o /\ hist_ok (step s o) r end.
Fixpoint hist_okb (s : state) (ops : list op) : bool :=
  match ops with [] => true | o :: r => op_okb s o && hist_okb (step s o) r end.
Lemma hist_okb_ok ops : forall s, hist_okb s ops = true -> hist_ok s ops.
Proof. induction ops; simpl; intros s H; auto. apply andb_true_iff in H. destruct H; split; auto. Qed.

Lemma inv_init : Inv init.
Proof.
  unfold Inv, FsInv, ProcInv, init; simpl. repeat split.
  - intros f [<- | [<- | []]]; simpl; lia.
  - intros f [<- | [<- | []]]; simpl; discriminate.
  - intros f g [<- | [<- | []]]; simpl; discriminate.
  - intros [] v; discriminate.
  - intros; tauto.
Qed.

Lemma find_file_spec t k fn l c : find_file t k fn l = Some c -> In c l /\ f_tbl c = t /\ f_kind c = k /\ f_fn c = fn.
Proof.
  unfold find_file. intro H. apply find_some in H. destruct H as [H1 H2]. apply Z.eqb_eq in H2.
  unfold fid in H2. apply mkid_inj in H2. tauto.
Qed.
Lemma usable_spec l t fn c : usable l t fn = Some c -> In c l /\ f_tbl c = t /\ is_cache c = true.
Proof.
  unfold usable. destruct (find_file t KNbc fn l) eqn:E; [|discriminate].
  destruct (find_file t KNbi fn l); [|discriminate]. intros [= <-].
  apply find_file_spec in E. destruct E as [H1 [H2 [H3 _]]]. unfold is_cache. rewrite H3. auto.
Qed.
Lemma lookup_comp_In t fn c v : lookup_comp t fn c = Some v -> In (t, fn, v) c.
Proof.
  unfold lookup_comp. destruct (find _ c) as [[[t' fn'] v']|] eqn:E; [|discriminate]. intros [= <-].
  apply find_some in E. destruct E as [H1 H2]. apply andb_true_iff in H2. destruct H2 as [H2 H3].
  apply tbl_eqb_eq in H2. apply Z.eqb_eq in H3. subst; auto.
Qed.

Lemma inv_import s e : Inv s -> Inv (step s (Import e)).
Proof.
  intros [HF _]. unfold Inv, step. split.
  - simpl. eapply FsInv_sub; [|exact HF]. intros f. unfold check_numba_cache. apply cp_sub.
  - unfold ProcInv; simpl. split; [intros [] v; discriminate | intros; tauto].
Qed.
Lemma inv_set_out s l e rm : (forall f, In f l -> In f (fs s)) -> Inv s -> Inv (set_out s l e rm).
Proof. intros Hs [HF HP]. split; [eapply FsInv_sub; eauto | exact HP]. Qed.

Lemma inv_update s t dt : Inv s -> 0 < dt -> Inv (step s (UpdateTable t dt)).
Proof.
  intros [[A [B C]] [P1 P2]] Hdt. unfold Inv, FsInv, ProcInv, step. cbn [fs clock ver loaded comp v_mdc v_emc ld_mdc ld_emc].
  set (nf := mkFile t KTable 0 (clock s + dt) (ver s t + 1)).
  set (vf := fun t0 : tbl => match t0 with Mdc => match t with Mdc => v_mdc s + 1 | Emc => v_mdc s end
                                         | Emc => match t with Emc => v_emc s + 1 | Mdc => v_emc s end end).
  assert (Hvf : forall t0, ver s t0 <= vf t0 /\ (t0 <> t -> vf t0 = ver s t0)).
  { intros t0; unfold vf, ver; destruct t0, t; split; try lia; congruence. }
  assert (Hold : forall f, In f (nf :: filter (fun f0 => negb (is_src t f0)) (fs s)) ->
                 f = nf \/ (In f (fs s) /\ is_src t f = false)).
  { intros f [<- | H]; auto. apply filter_In in H. destruct H as [H1 H2]. apply negb_true_iff in H2. auto. }
  repeat split.
  - intros f Hf. destruct (Hold f Hf) as [-> | [H _]]; [simpl; lia | specialize (A f H); lia].
  - intros f Hf Hc. destruct (Hold f Hf) as [-> | [H _]]; [discriminate|]. specialize (B f H Hc). destruct (Hvf (f_tbl f)). change (f_built f <= vf (f_tbl f)). lia.
  - intros f g Hf Hg Hc Hst Hs. change (f_built f < vf (f_tbl f)) in Hst.
    destruct (Hold f Hf) as [-> | [Hf1 _]]; [discriminate|].
    destruct (Hold g Hg) as [-> | [Hg1 Hg2]].
    + simpl. specialize (A f Hf1). lia.
    + destruct (tbl_eqb (f_tbl f) t) eqn:Et.
      * apply tbl_eqb_eq in Et. rewrite Et in Hs. congruence.
      * assert (f_tbl f <> t) by (intro X; apply tbl_eqb_eq in X; congruence).
        destruct (Hvf (f_tbl f)) as [_ Hv]. rewrite (Hv H) in Hst. eapply C; eauto.
  - intros t0 v Hl. specialize (P1 t0 v Hl). destruct (Hvf t0). change (v <= vf t0). lia.
  - intros t0 fn v Hin. specialize (P2 t0 fn v Hin). destruct (Hvf t0). change (v <= vf t0). lia.
Qed.

Lemma ver_irrel s l c a lm le cp e rm v t : ver (mkState l c (v_mdc s) (v_emc s) a lm le cp e rm v) t = ver s t.
Proof. destruct t; reflexivity. Qed.

Lemma inv_first_use s t fn dt : Inv s -> op_ok s (FirstUse t fn dt) -> Inv (step s (FirstUse t fn dt)).
Proof.
  intros HI Hok. unfold op_ok, op_okb in Hok. apply andb_true_iff in Hok. destruct Hok as [Hdt Hg]. apply Z.ltb_lt in Hdt.
  unfold step. destruct (alive s) eqn:Ea; simpl negb; cbv iota; [|apply inv_set_out; auto].
  destruct (lookup_comp t fn (comp s)) as [v|] eqn:El.
  { destruct HI as [HF HP]. split; [exact HF | exact HP]. }
  destruct HI as [[A [B C]] [P1 P2]].
  set (ld := match loaded s t with Some v => v | None => ver s t end).
  assert (Hld : ld <= ver s t) by (unfold ld; destruct (loaded s t) eqn:E; [apply P1; auto | lia]).
  assert (HP' : forall lm le, lm = (match t with Mdc => Some ld | Emc => ld_mdc s end) -> le = (match t with Emc => Some ld | Mdc => ld_emc s end) ->
                forall t0 v, match t0 with Mdc => lm | Emc => le end = Some v -> v <= ver s t0).
  { intros lm le -> -> t0 v H. destruct t0, t; try (injection H as <-; exact Hld); first [apply (P1 Mdc) | apply (P1 Emc)]; exact H. }
  destruct (usable (fs s) t fn) as [c|] eqn:Eu.
  - apply usable_spec in Eu. destruct Eu as [Hc [Ht Hcc]].
    split; [exact (conj A (conj B C))|]. split.
    + intros t0 v. rewrite ver_irrel. apply HP'; auto.
    + intros t0 fn0 v. rewrite ver_irrel. simpl. intros [[= <- <- <-] | H]; [|eapply P2; eauto].
      rewrite <- Ht. apply B; auto.
  - assert (Hwc : will_compile s t fn = true) by (unfold will_compile; rewrite Ea, El, Eu; reflexivity).
    rewrite Hwc in Hg. simpl in Hg.
    assert (Heq : ld = ver s t). { unfold ld. destruct (loaded s t); [apply Z.eqb_eq; auto | auto]. }
    set (nbc := mkFile t KNbc fn (clock s + dt) ld). set (nbi := mkFile t KNbi fn (clock s + dt) ld).
    assert (Hold : forall f, In f (write nbi (write nbc (fs s))) -> f = nbi \/ f = nbc \/ In f (fs s)).
    { intros f H. apply write_In in H. destruct H as [H | H]; auto. apply write_In in H. tauto. }
    split; [|split].
    + unfold FsInv. cbn [fs clock]. repeat split.
      * intros f Hf. destruct (Hold f Hf) as [-> | [-> | H]]; simpl; try lia. specialize (A f H). lia.
      * intros f Hf Hc. rewrite ver_irrel. destruct (Hold f Hf) as [-> | [-> | H]]; simpl; auto.
      * intros f g Hf Hg' Hc. rewrite ver_irrel. intros Hst Hs.
        destruct (Hold f Hf) as [-> | [-> | Hf1]]; simpl in Hst; try lia.
        destruct (Hold g Hg') as [-> | [-> | Hg1]]; try (unfold is_src in Hs; simpl in Hs; rewrite andb_false_r in Hs; discriminate).
        eapply C; eauto.
    + intros t0 v. rewrite ver_irrel. apply HP'; auto.
    + intros t0 fn0 v. rewrite ver_irrel. simpl. intros [[= <- <- <-] | H]; [exact Hld | eapply P2; eauto].
Qed.

Lemma inv_step s o : Inv s -> op_ok s o -> Inv (step s o).
Proof.
  intros HI Hok. destruct o.
  - apply inv_update; auto. apply Z.ltb_lt; exact Hok.
  - unfold step. apply inv_set_out; auto. intros f Hf. apply filter_In in Hf. tauto.
  - apply inv_import; auto.
  - apply inv_first_use; auto.
  - unfold step. apply inv_set_out; auto. intros f. unfold clear_numba_cache. apply cp_sub.
  - unfold step. apply inv_set_out; auto. intros f. apply ac_sub.
Qed.

Theorem inv_run ops : forall s, Inv s -> hist_ok s ops -> Inv (run s ops).
Proof.
  unfold run. induction ops as [|o ops IH]; simpl; intros s HI Hok; auto.
  destruct Hok as [H1 H2]. apply IH; auto. apply inv_step; auto.
Qed.

(* ------------------------------------------------------------------ what an import achieves *)
Lemma in_pairs t : In t src_cache_list.
Proof. destruct t; simpl; auto. Qed.

Lemma import_no_stale s e : Inv s -> o_err (step s (Import e)) = ENone -> no_stale (step s (Import e)).
Proof.
  intros [HF _] Herr f Hf Hc. unfold step in *. cbn [fs o_err] in *. rewrite ver_irrel.
  unfold check_numba_cache in *.
  eapply (cp_ok_no_stale e src_cache_list (clock s) (ver s)); eauto using in_pairs.
  apply is_cache_of_split; auto.
Qed.

(* Good: a live process whose disk caches, in-memory tables and in-memory kernels all carry the current versions *)
Definition Good (s : state) : Prop :=
  alive s = true /\
  (forall f, In f (fs s) -> is_cache f = true -> f_built f = ver s (f_tbl f)) /\
  (forall t, loaded s t = None \/ loaded s t = Some (ver s t)) /\
  (forall t fn v, In (t, fn, v) (comp s) -> v = ver s t).

Lemma import_good s e : Inv s -> o_err (step s (Import e)) = ENone ->
  Good (step s (Import e)) /\ forall t, ver (step s (Import e)) t = ver s t.
Proof.
  intros HI Herr. pose proof (import_no_stale s e HI Herr) as Hns. pose proof (inv_import s e HI) as [[_ [B _]] _].
  split; [|intro t; unfold step; apply ver_irrel].
  unfold Good. repeat split.
  - unfold step in *. cbn [alive o_err] in *. rewrite Herr. reflexivity.
  - intros f Hf Hc. specialize (Hns f Hf Hc). specialize (B f Hf Hc). lia.
  - intros []; left; reflexivity.
  - unfold step; simpl; tauto.
Qed.

Lemma good_first_use s t fn dt : Good s ->
  Good (step s (FirstUse t fn dt)) /\ o_value (step s (FirstUse t fn dt)) = Some (ver s t) /\
  forall t', ver (step s (FirstUse t fn dt)) t' = ver s t'.
Proof.
  intros [Ha [Hc [Hl Hk]]]. unfold step. rewrite Ha. simpl negb. cbv iota.
  destruct (lookup_comp t fn (comp s)) as [v|] eqn:El.
  - apply lookup_comp_In in El. apply Hk in El. subst v.
    split; [|split; [reflexivity | intro; apply ver_irrel]].
    unfold Good. cbn [alive fs loaded comp ld_mdc ld_emc]. refine (conj eq_refl (conj _ (conj _ _))); intros; rewrite ver_irrel; eauto.
  - set (ld := match loaded s t with Some v => v | None => ver s t end).
    assert (Hld : ld = ver s t) by (unfold ld; destruct (Hl t) as [-> | ->]; reflexivity).
    assert (HL : forall t0, match t0 with Mdc => match t with Mdc => Some ld | Emc => ld_mdc s end
                                        | Emc => match t with Emc => Some ld | Mdc => ld_emc s end end = None \/
                            match t0 with Mdc => match t with Mdc => Some ld | Emc => ld_mdc s end
                                        | Emc => match t with Emc => Some ld | Mdc => ld_emc s end end = Some (ver s t0)).
    { intros t0. destruct t0, t; try (right; rewrite Hld; reflexivity); first [apply (Hl Mdc) | apply (Hl Emc)]. }
    destruct (usable (fs s) t fn) as [c|] eqn:Eu.
    + apply usable_spec in Eu. destruct Eu as [Hin [Ht Hcc]]. pose proof (Hc c Hin Hcc) as Hb. rewrite Ht in Hb.
      split; [|split; [rewrite Hb; reflexivity | intro; apply ver_irrel]].
      unfold Good. cbn [alive fs loaded comp ld_mdc ld_emc]. refine (conj eq_refl (conj _ (conj _ _))).
      * intros; rewrite ver_irrel; auto.
      * intros t0; rewrite ver_irrel; apply HL.
      * intros t0 fn0 v. rewrite ver_irrel. intros [[= <- <- <-] | H]; eauto.
    + split; [|split; [rewrite Hld; reflexivity | intro; apply ver_irrel]].
      unfold Good. cbn [alive fs loaded comp ld_mdc ld_emc]. refine (conj eq_refl (conj _ (conj _ _))).
      * intros f Hf Hcc. rewrite ver_irrel. apply write_In in Hf. destruct Hf as [-> | Hf]; [simpl; auto|].
        apply write_In in Hf. destruct Hf as [-> | Hf]; [simpl; auto | auto].
      * intros t0; rewrite ver_irrel; apply HL.
      * intros t0 fn0 v. rewrite ver_irrel. intros [[= <- <- <-] | H]; eauto.
Qed.

(* values returned by a sequence of first uses (t, fn, dt) *)
Fixpoint use_values (s : state) (us : list (tbl * Z * Z)) : list (option Z) :=
  match us with
  | [] => []
  | (t, fn, dt) :: r => let s' := step s (FirstUse t fn dt) in o_value s' :: use_values s' r
  end.
Lemma good_uses us : forall s, Good s -> use_values s us = map (fun u => Some (ver s (fst (fst u)))) us.
Proof.
  induction us as [|[[t fn] dt] us IH]; intros s HG; [reflexivity|].
  cbn [use_values map fst]. destruct (good_first_use s t fn dt HG) as [HG' [Hv Hver]]. rewrite Hv, (IH _ HG'). f_equal.
  apply map_ext. intros u. rewrite Hver. reflexivity.
Qed.

(* after a successful import: no stale cache on disk, and every lookup of the new process (any kernels, any order,
   compiled or loaded from disk) returns values of the current tables *)
Theorem import_discards_stale s e : Inv s -> o_err (step s (Import e)) = ENone ->
  no_stale (step s (Import e)) /\
  forall us, use_values (step s (Import e)) us = map (fun u => Some (ver s (fst (fst u)))) us.
Proof.
  intros HI Herr. split; [apply import_no_stale; auto|]. intros us.
  destruct (import_good s e HI Herr) as [HG Hver]. rewrite (good_uses us _ HG). apply map_ext. intro; rewrite Hver; auto.
Qed.

(* the import does succeed when nothing goes wrong in the environment and both table files exist *)
Definition tables_present (l : list file) : Prop := forall t, has_src l t.
Theorem import_succeeds s e : benign e -> tables_present (fs s) -> o_err (step s (Import e)) = ENone.
Proof.
  intros Hb Hs. unfold step. cbn [o_err]. unfold check_numba_cache. destruct Hb as [Hb1 Hb2]. rewrite Hb1.
  apply cp_benign_ok; [split; auto | intros; apply Hs].
Qed.

(* table files are never removed by the mirrored code; only DropTable removes one *)
Definition not_drop (o : op) : bool := match o with DropTable _ => false | _ => true end.
Lemma tables_step s o : not_drop o = true -> tables_present (fs s) -> tables_present (fs (step s o)).
Proof.
  intros Hnd Hs t. destruct o; try discriminate; unfold step.
  - cbn [fs]. destruct (tbl_eqb t t0) eqn:E.
    + apply tbl_eqb_eq in E. subst. eexists; split; [left; reflexivity|]. unfold is_src; simpl. rewrite tbl_eqb_refl. reflexivity.
    + destruct (Hs t) as [g [Hg Hsrc]]. exists g; split; auto. right. apply filter_In; split; auto.
      apply negb_true_iff. unfold is_src in *. apply andb_true_iff in Hsrc. destruct Hsrc as [H1 H2].
      apply tbl_eqb_eq in H1. rewrite H1, E. reflexivity.
  - cbn [fs]. destruct (Hs t) as [g [Hg Hsrc]]. exists g; split; auto. apply cp_keeps_src; auto. eapply src_not_cache; eauto.
  - destruct (alive s); simpl negb; cbv iota; [|apply Hs].
    destruct (lookup_comp t0 fn (comp s)); [apply Hs|]. destruct (usable (fs s) t0 fn); [apply Hs|].
    cbn [fs]. destruct (Hs t) as [g [Hg Hsrc]]. exists g; split; auto.
    unfold write. right. apply del_In. split.
    + right. apply del_In. split; auto. intro E. unfold fid in E; simpl in E. apply mkid_inj in E. destruct E as [_ [E _]].
      apply src_not_cache in Hsrc. unfold is_cache in Hsrc. rewrite E in Hsrc. discriminate.
    + intro E. unfold fid in E; simpl in E. apply mkid_inj in E. destruct E as [_ [E _]].
      apply src_not_cache in Hsrc. unfold is_cache in Hsrc. rewrite E in Hsrc. discriminate.
  - cbn [fs set_out]. destruct (Hs t) as [g [Hg Hsrc]]. exists g; split; auto. apply cp_keeps_src; auto. eapply src_not_cache; eauto.
  - cbn [fs set_out]. destruct (Hs t) as [g [Hg Hsrc]]. exists g; split; auto. apply ac_keeps_src; auto. eapply src_not_cache; eauto.
Qed.
Lemma tables_run ops : forall s, forallb not_drop ops = true -> tables_present (fs s) -> tables_present (fs (run s ops)).
Proof.
  unfold run. induction ops as [|o ops IH]; simpl; intros s H Hs; auto. apply andb_true_iff in H. destruct H.
  apply IH; auto. apply tables_step; auto.
Qed.
Lemma tables_init : tables_present (fs init).
Proof. intros []; [exists (mkFile Mdc KTable 0 1 1) | exists (mkFile Emc KTable 0 1 1)]; simpl; auto. Qed.

(* headline: for EVERY history (any length, any interleaving of the ops, any crash points / removal failures inside it)
   that satisfies the clock and process assumptions, the next import, if it completes, leaves no stale cache and all
   lookups of that process are current; and it does complete in a benign environment when no table file was deleted *)
Theorem stale_never_survives_import ops e : hist_ok init ops ->
  let s1 := step (run init ops) (Import e) in
  (o_err s1 = ENone -> no_stale s1 /\ forall us, use_values s1 us = map (fun u => Some (ver (run init ops) (fst (fst u)))) us) /\
  (benign e -> forallb not_drop ops = true -> o_err s1 = ENone).
Proof.
  intros Hok. cbv zeta. split.
  - intro Herr. apply import_discards_stale; auto. apply inv_run; auto. apply inv_init.
  - intros Hb Hnd. apply import_succeeds; auto. apply tables_run; auto. apply tables_init.
Qed.

(* ------------------------------------------------------------------ fresh caches are kept *)
Theorem fresh_kept s e :
  (forall c g, In c (fs s) -> In g (fs s) -> is_cache c = true -> is_src (f_tbl c) g = true -> f_mtime g <= f_mtime c) ->
  fs (step s (Import e)) = fs s /\ o_removed (step s (Import e)) = [].
Proof. intro H. unfold step. cbn [fs o_removed]. unfold check_numba_cache. apply cp_fresh_kept. exact H. Qed.

(* ------------------------------------------------------------------ interrupted clean-up *)
Theorem crash_safe s e1 k e2 : Inv s ->
  let s1 := step s (Import (with_budget e1 (Some k))) in   (* clean-up interrupted after k removals (or completed if fewer) *)
  let s2 := step s1 (Import e2) in
  Inv s1 /\
  (o_err s2 = ENone -> no_stale s2 /\ forall us, use_values s2 us = map (fun u => Some (ver s (fst (fst u)))) us) /\
  (benign e2 -> tables_present (fs s) -> o_err s2 = ENone).
Proof.
  intros HI. cbv zeta. pose proof (inv_import s (with_budget e1 (Some k)) HI) as HI1. split; auto. split.
  - intro Herr. destruct (import_discards_stale _ e2 HI1 Herr) as [H1 H2]. split; auto.
  - intros Hb Hs. apply import_succeeds; auto. apply tables_step; auto.
Qed.

(* ------------------------------------------------------------------ forced clear *)
Theorem forced_clear_all s e :
  (o_err (step s (ForcedClear e)) = ENone -> forall f, In f (fs (step s (ForcedClear e))) -> is_cache f = false) /\
  (benign e -> tables_present (fs s) ->
     o_err (step s (ForcedClear e)) = ENone /\
     forall c, In c (fs s) -> is_cache c = true -> In (fid c) (o_removed (step s (ForcedClear e)))).
Proof.
  unfold step, set_out. cbn [o_err fs o_removed]. unfold clear_numba_cache. split.
  - intros Herr f Hf. destruct (is_cache f) eqn:Hc; auto.
    pose proof (cp_force_ok_clean e src_cache_list _ _ _ Herr (f_tbl f) f (in_pairs _) Hf) as H.
    unfold is_cache_of in H. rewrite tbl_eqb_refl, Hc in H. discriminate.
  - intros Hb Hs. destruct Hb as [Hb1 Hb2]. rewrite Hb1. assert (Hb : benign e) by (split; auto). split.
    + apply cp_benign_ok; auto.
    + intros c Hc Hcc. unfold src_cache_list. simpl.
      destruct (ac_benign_ok e true Mdc (fs s) Hb (Hs Mdc)) as [E1 E2]. rewrite E1, E2.
      destruct (ac_benign_ok e true Emc (a_fs (auto_clear e true Mdc None (fs s))) Hb) as [E3 E4].
      { destruct (Hs Emc) as [g [Hg Hsrc]]. exists g; split; auto. apply ac_keeps_src; auto. eapply src_not_cache; eauto. }
      rewrite E3. simpl. rewrite in_app_iff. destruct (f_tbl c) eqn:Et.
      * left. apply ac_benign_removed; auto. apply is_cache_of_split; auto.
      * right. apply ac_benign_removed; auto.
        { destruct (Hs Emc) as [g [Hg Hsrc]]. exists g; split; auto. apply ac_keeps_src; auto. eapply src_not_cache; eauto. }
        { apply ac_keeps_other; auto. congruence. }
        { apply is_cache_of_split; auto. }
Qed.

(* ------------------------------------------------------------------ a purely syntactic sufficient condition *)
(* flags per table: (loaded in the current process, re-written since that load).  The discipline: timestamps strictly
   increase, and a process that holds table t in memory uses no further kernel of t once t has been re-written
   (in particular: every history in which each process makes its first uses before any later table update). *)
Definition upd (f : tbl -> bool) (t : tbl) (v : bool) : tbl -> bool := fun t' => if tbl_eqb t' t then v else f t'.
Fixpoint disciplined (ld dirty : tbl -> bool) (ops : list op) : bool :=
  match ops with
  | [] => true
  | Import _ :: r => disciplined (fun _ => false) (fun _ => false) r
  | FirstUse t _ dt :: r => (0 <? dt) && negb (dirty t) && disciplined (upd ld t true) dirty r
  | UpdateTable t dt :: r => (0 <? dt) && disciplined ld (if ld t then upd dirty t true else dirty) r
  | _ :: r => disciplined ld dirty r
  end.
Definition Rel (ld dirty : tbl -> bool) (s : state) : Prop :=
  forall t, (ld t = false -> loaded s t = None) /\ (dirty t = false -> loaded s t = None \/ loaded s t = Some (ver s t)).

Lemma disciplined_ok ops : forall ld dirty s, Rel ld dirty s -> disciplined ld dirty ops = true -> hist_ok s ops.
Proof.
  induction ops as [|o ops IH]; simpl; intros ld dirty s HR H; auto.
  destruct o.
  - (* UpdateTable *) apply andb_true_iff in H. destruct H as [Hdt H]. split; [exact Hdt|].
    eapply IH; [|exact H]. intros t0. destruct (HR t0) as [R1 R2]. unfold step, loaded; cbn [ld_mdc ld_emc ver v_mdc v_emc].
    split.
    + intros E. apply R1 in E. exact E.
    + destruct (ld t) eqn:El.
      * unfold upd. destruct (tbl_eqb t0 t) eqn:Et; [discriminate|]. intros Hd. specialize (R2 Hd).
        destruct t0, t; simpl in Et; try discriminate; exact R2.
      * intros Hd. specialize (R2 Hd). destruct (tbl_eqb t0 t) eqn:Et.
        -- apply tbl_eqb_eq in Et. subst t0. left. apply (proj1 (HR t)); auto.
        -- destruct t0, t; simpl in Et; try discriminate; exact R2.
  - (* DropTable *) split; [reflexivity|]. eapply IH; [|exact H]. exact HR.
  - (* Import *) split; [reflexivity|]. eapply IH; [|exact H]. intros t0; split; intros _; [|left]; destruct t0; reflexivity.
  - (* FirstUse *) apply andb_true_iff in H. destruct H as [H H3]. apply andb_true_iff in H. destruct H as [Hdt Hd].
    apply negb_true_iff in Hd. split.
    + unfold op_ok, op_okb. rewrite Hdt. simpl. destruct (proj2 (HR t) Hd) as [-> | ->]; [apply orb_true_r|].
      rewrite Z.eqb_refl. apply orb_true_r.
    + eapply IH; [|exact H3]. intros t0. unfold step.
      destruct (alive s); simpl negb; cbv iota.
      * destruct (lookup_comp t fn (comp s)).
        -- unfold loaded; cbn [ld_mdc ld_emc]. rewrite ver_irrel. destruct (HR t0) as [R1 R2]. split; auto.
           unfold upd. destruct (tbl_eqb t0 t) eqn:Et; [discriminate | exact R1].
        -- assert (Hld : match loaded s t with Some v => v | None => ver s t end = ver s t)
             by (destruct (proj2 (HR t) Hd) as [-> | ->]; reflexivity).
           rewrite Hld. destruct (HR t0) as [R1 R2].
           destruct (usable (fs s) t fn); unfold loaded; cbn [ld_mdc ld_emc]; rewrite ver_irrel; unfold upd;
             (split; [destruct (tbl_eqb t0 t) eqn:Et; [discriminate|]; intro E; specialize (R1 E); destruct t0, t; simpl in Et; try discriminate; exact R1
                     | intro E; destruct t0, t; try (right; reflexivity); exact (R2 E)]).
      * unfold set_out, loaded; cbn [ld_mdc ld_emc]. rewrite ver_irrel. destruct (HR t0) as [R1 R2]. split; auto.
        unfold upd. destruct (tbl_eqb t0 t) eqn:Et; [discriminate | exact R1].
  - (* ForcedClear *) split; [reflexivity|]. eapply IH; [|exact H]. exact HR.
  - (* AutoClear *) split; [reflexivity|]. eapply IH; [|exact H]. exact HR.
Qed.
Lemma rel_init : Rel (fun _ => false) (fun _ => false) init.
Proof. intros []; split; intros _; try left; reflexivity. Qed.
Theorem disciplined_hist_ok ops : disciplined (fun _ => false) (fun _ => false) ops = true -> hist_ok init ops.
Proof. apply disciplined_ok. apply rel_init. Qed.

(* ------------------------------------------------------------------ boolean forms for the examples *)
Definition all_fresh (l : list file) : bool :=
  forallb (fun c => forallb (fun g => negb (is_cache c && is_src (f_tbl c) g) || (f_mtime g <=? f_mtime c)) l) l.
Lemma all_fresh_spec l : all_fresh l = true ->
  forall c g, In c l -> In g l -> is_cache c = true -> is_src (f_tbl c) g = true -> f_mtime g <= f_mtime c.
Proof.
  unfold all_fresh. intros H c g Hc Hg Hcc Hs. rewrite forallb_forall in H. specialize (H c Hc).
  rewrite forallb_forall in H. specialize (H g Hg). rewrite Hcc, Hs in H. simpl in H. apply Z.leb_le; auto.
Qed.
Definition stale_ids (s : state) : list Z :=
  map fid (filter (fun f => is_cache f && (f_built f <? ver s (f_tbl f))) (fs s)).
Lemma stale_ids_nil s : stale_ids s = [] <-> no_stale s.
Proof.
  unfold stale_ids, no_stale. split.
  - intros H f Hf Hc. destruct (Z_lt_le_dec (f_built f) (ver s (f_tbl f))) as [Hlt|]; auto. exfalso.
    assert (In f (filter (fun f => is_cache f && (f_built f <? ver s (f_tbl f))) (fs s))).
    { apply filter_In; split; auto. rewrite Hc. simpl. apply Z.ltb_lt; auto. }
    destruct (filter _ (fs s)); [destruct H0 | discriminate].
  - intros H. destruct (filter _ (fs s)) as [|f r] eqn:E; auto. exfalso.
    assert (In f (filter (fun f => is_cache f && (f_built f <? ver s (f_tbl f))) (fs s))) by (rewrite E; left; auto).
    apply filter_In in H0. destruct H0 as [H1 H2]. apply andb_true_iff in H2. destruct H2 as [H2 H3].
    apply Z.ltb_lt in H3. specialize (H f H1 H2). lia.
Qed.

(* ------------------------------------------------------------------ where the assumptions are needed *)
(* (1) clock: a table re-written in the same timestamp tick as the cache (dt = 0) -> equal mtimes -> strict `>` keeps the
       stale cache; the import succeeds and the next lookup returns the OLD version *)
Definition hist_equal_mtime : list op :=
  [Import env0; FirstUse Mdc 1 1; UpdateTable Mdc 0; Import env0; FirstUse Mdc 1 1].
Lemma import_discards_stale_needs_clock :
  let s := run init hist_equal_mtime in
  o_err s = ENone /\ ver s Mdc = 2 /\ o_value s = Some 1 /\ stale_ids s = [mkid Mdc KNbi 1; mkid Mdc KNbc 1] /\
  hist_okb init hist_equal_mtime = false.
Proof. vm_compute. repeat split. Qed.

(* (2) process: a long-lived process that holds the old table in memory and compiles a further kernel after the table
       was re-written and the disk caches were force-cleared writes a cache that is stale but younger than the table;
       no later import removes it *)
Definition hist_long_lived : list op :=
  [Import env0; FirstUse Mdc 1 1; UpdateTable Mdc 1; ForcedClear env0; FirstUse Mdc 2 1; Import env0; FirstUse Mdc 2 1].
Lemma import_discards_stale_needs_fresh_load :
  let s := run init hist_long_lived in
  o_err s = ENone /\ ver s Mdc = 2 /\ o_value s = Some 1 /\ stale_ids s = [mkid Mdc KNbi 2; mkid Mdc KNbc 2] /\
  hist_okb init hist_long_lived = false /\
  forallb (fun o => match o with UpdateTable _ dt | FirstUse _ _ dt => 0 <? dt | _ => true end) hist_long_lived = true.
Proof. vm_compute. repeat split. Qed.

(* (3) forced clear: with a table file missing the first pair raises ValueError and the other pair is never reached *)
Definition hist_forced_no_table : list op := [Import env0; FirstUse Emc 1 1; DropTable Mdc; ForcedClear env0].
Lemma forced_clear_needs_tables :
  let s := run init hist_forced_no_table in
  o_err s = EValue /\ map fid (filter is_cache (fs s)) = [mkid Emc KNbi 1; mkid Emc KNbc 1].
Proof. vm_compute. repeat split. Qed.

(* ------------------------------------------------------------------ a non-trivial history satisfying all hypotheses *)
Definition hist_demo : list op :=
  [ Import env0; FirstUse Mdc 1 1; FirstUse Emc 1 2; FirstUse Mdc 2 1;      (* process 1 creates three kernels' caches *)
    Import env0; FirstUse Mdc 1 1;                                          (* process 2 loads from disk *)
    UpdateTable Mdc 3;                                                      (* mdc table re-written *)
    Crash 2;                                                                (* import interrupted after 2 removals *)
    Crash 1;                                                                (* ... and again after 1 more *)
    Import env0; FirstUse Mdc 2 1; FirstUse Emc 1 1;                        (* completes; recompiles mdc, loads emc *)
    UpdateTable Emc 1; UpdateTable Mdc 1;
    ForcedClear env0;
    Import (mkEnv [] None [] []); FirstUse Emc 7 5 ].

Lemma op_ok_meaning s o :
  op_ok s o <->
  match o with
  | UpdateTable _ dt => 0 < dt
  | FirstUse t fn dt => 0 < dt /\ (will_compile s t fn = true -> loaded s t = None \/ loaded s t = Some (ver s t))
  | _ => True
  end.
Proof.
  unfold op_ok, op_okb. destruct o; try tauto.
  - apply Z.ltb_lt.
  - rewrite andb_true_iff, Z.ltb_lt. split; intros [H1 H2]; split; auto.
    + intros Hw. rewrite Hw in H2. simpl in H2. destruct (loaded s t); auto. apply Z.eqb_eq in H2. subst; auto.
    + destruct (will_compile s t fn); auto. simpl. destruct (H2 eq_refl) as [-> | ->]; auto. apply Z.eqb_refl.
Qed.

Theorem invariant_reachable ops : hist_ok init ops ->
  let s := run init ops in
  (forall f g, In f (fs s) -> In g (fs s) -> is_cache f = true -> f_built f < ver s (f_tbl f) ->
               is_src (f_tbl f) g = true -> f_mtime f < f_mtime g) /\
  (forall f, In f (fs s) -> f_mtime f <= clock s) /\
  (forall f, In f (fs s) -> is_cache f = true -> f_built f <= ver s (f_tbl f)).
Proof. intros H. destruct (inv_run ops init inv_init H) as [[A [B C]] _]. cbv zeta. auto. Qed.
