(* C03 — the digi-unpacking and merge laws of fill_digi, for ALL word lists.
   (1) the mask-and-shift field extraction equals the documented bit slices (div/mod form);
   (2) EMC / MUC: one row per word in stream order; TRG / EF: the words themselves;
   (3) MDC / TOF: the emitted rows are characterised independently of the std::map mechanics:
       strictly ascending channel ids, exactly the channels that occur, and for each channel
       t = signal of the LAST word with t_or_q = 0 (0 if none), q likewise for t_or_q = 1, overflow = OR of all. *)
From Coq Require Import ZArith List Lia Bool Sorted.
From PV.Lib Require Import Bits BitTac.
From PV.Model Require Import RawFormat RawParser.
Import ListNotations.
Local Open Scope Z_scope.

(* ---------------------------------------------------------------- (1) bit slices *)
Lemma land_ones_mod w k : 0 <= k -> Z.land w (Z.ones k) = w mod 2^k.
Proof. intros. apply Z.land_ones. assumption. Qed.

Lemma mdc_fields_spec w :
  mdc_fields w = ((w / 2^18) mod 2^14, (w / 2^17) mod 2^1, w mod 2^16, (w / 2^16) mod 2^1).
Proof.
  unfold mdc_fields.
  rewrite (field_get w _ 14 18), (field_get w _ 1 17), (field_get w _ 1 16) by (try lia; reflexivity).
  change 0xFFFF with (Z.ones 16). rewrite land_ones_mod by lia. reflexivity.
Qed.
Lemma tof_fields_spec w :
  tof_fields w = ((w / 2^21) mod 2^10, (w / 2^20) mod 2^1, w mod 2^15, (w / 2^19) mod 2^1).
Proof.
  unfold tof_fields.
  rewrite (field_get w _ 10 21), (field_get w _ 1 20), (field_get w _ 1 19) by (try lia; reflexivity).
  change 0x7FFF with (Z.ones 15). rewrite land_ones_mod by lia. reflexivity.
Qed.
Lemma emc_row_spec w :
  emc_row w = [(w / 2^19) mod 2^13; (w / 2^13) mod 2^6; w mod 2^11; (w / 2^11) mod 2^2].
Proof.
  unfold emc_row.
  rewrite (field_get w _ 13 19), (field_get w _ 6 13), (field_get w _ 2 11) by (try lia; reflexivity).
  change 0x7FF with (Z.ones 11). rewrite land_ones_mod by lia. reflexivity.
Qed.
Lemma muc_row_spec w : muc_row w = [(w / 2^16) mod 2^11; w mod 2^16].
Proof.
  unfold muc_row. change 0x7FF with (Z.ones 11). change 0xFFFF with (Z.ones 16).
  rewrite !land_ones_mod by lia. rewrite Z.shiftr_div_pow2 by lia. reflexivity.
Qed.

(* ---------------------------------------------------------------- (2) one-to-one detectors *)
Lemma digi_rows_emc ws : digi_rows Emc ws = map emc_row ws.            Proof. reflexivity. Qed.
Lemma digi_rows_muc ws : digi_rows Muc ws = map muc_row ws.            Proof. reflexivity. Qed.
Lemma digi_rows_trg ws : digi_rows Trg ws = map (fun w => [w]) ws.     Proof. reflexivity. Qed.
Lemma digi_rows_ef ws : digi_rows Ef ws = map (fun w => [w]) ws.       Proof. reflexivity. Qed.
Lemma digi_rows_length_1to1 d ws : d <> Mdc -> d <> Tof -> length (digi_rows d ws) = length ws.
Proof. destruct d; intros; try contradiction; cbn; apply map_length. Qed.

(* ---------------------------------------------------------------- (3) the T/Q merge *)
Lemma fold_left_ext {A B} (f g : A -> B -> A) : (forall a b, f a b = g a b) -> forall l a, fold_left f l a = fold_left g l a.
Proof. intros H. induction l as [|b l IH]; intros a; cbn; [reflexivity|]. rewrite H. apply IH. Qed.

Section Merge.
Variable fields : Z -> Z * Z * Z * Z.       (* id, t_or_q, signal, overflow *)
Definition f_id (w : Z) : Z := fst (fst (fst (fields w))).
Definition f_tq (w : Z) : Z := snd (fst (fst (fields w))).
Definition f_sig (w : Z) : Z := snd (fst (fields w)).
Definition f_ovf (w : Z) : Z := snd (fields w).

(* independent specification, per channel *)
Definition chan_words (id : Z) (ws : list Z) : list Z := filter (fun w => f_id w =? id) ws.
Definition last_sig (half : bool) (cw : list Z) : Z :=       (* half = true: t (t_or_q = 0), false: q *)
  fold_left (fun acc w => if Bool.eqb (f_tq w =? 0) half then f_sig w else acc) cw 0.
Definition any_ovf (cw : list Z) : Z := fold_left (fun acc w => Z.lor acc (f_ovf w)) cw 0.
Definition chan_value (id : Z) (ws : list Z) : list Z :=
  let cw := chan_words id ws in [last_sig true cw; last_sig false cw; any_ovf cw].

Definition keys (m : list (Z * list Z)) : list Z := map fst m.
Fixpoint lookup (k : Z) (m : list (Z * list Z)) : option (list Z) :=
  match m with [] => None | (k', v) :: tl => if k =? k' then Some v else lookup k tl end.

Definition step (m : list (Z * list Z)) (w : Z) : list (Z * list Z) :=
  map_upd (f_id w) (tq_set (f_tq w) (f_sig w) (f_ovf w)) m.
Lemma merge_tq_fold ws : merge_tq fields ws = fold_left step ws [].
Proof.
  unfold merge_tq. apply fold_left_ext. intros m w. unfold step, f_id, f_tq, f_sig, f_ovf.
  destruct (fields w) as [[[i t] s] o]. reflexivity.
Qed.

(* map_upd on a strictly sorted association list *)
Lemma lookup_upd_same k f m : StronglySorted Z.lt (keys m) ->
  lookup k (map_upd k f m) = Some (f (match lookup k m with Some v => v | None => [0; 0; 0] end)).
Proof.
  induction m as [|[k' v] tl IH]; intros S; cbn [map_upd lookup].
  - rewrite Z.eqb_refl. reflexivity.
  - destruct (k <? k') eqn:L.
    + cbn [lookup]. rewrite Z.eqb_refl. apply Z.ltb_lt in L. replace (k =? k') with false by (symmetry; apply Z.eqb_neq; lia). 
      assert (E : lookup k tl = None).
      { cbn in S. inversion S as [|? ? S' F]; subst. clear - F L. induction tl as [|[k2 v2] tl IH]; [reflexivity|].
        cbn in *. inversion F; subst. replace (k =? k2) with false by (symmetry; apply Z.eqb_neq; lia). apply IH. assumption. }
      rewrite E. reflexivity.
    + destruct (k =? k') eqn:E; cbn [lookup]; rewrite E; [reflexivity|].
      apply IH. cbn in S. inversion S; assumption.
Qed.
Lemma lookup_upd_other k k2 f m : k2 <> k -> lookup k2 (map_upd k f m) = lookup k2 m.
Proof.
  intros N. induction m as [|[k' v] tl IH]; cbn [map_upd lookup].
  - replace (k2 =? k) with false by (symmetry; apply Z.eqb_neq; lia). reflexivity.
  - destruct (k <? k') eqn:L.
    + cbn [lookup]. replace (k2 =? k) with false by (symmetry; apply Z.eqb_neq; lia). reflexivity.
    + destruct (k =? k') eqn:E; cbn [lookup].
      * apply Z.eqb_eq in E. subst k'. replace (k2 =? k) with false by (symmetry; apply Z.eqb_neq; lia). reflexivity.
      * destruct (k2 =? k'); [reflexivity|apply IH].
Qed.
Lemma keys_upd k f m : StronglySorted Z.lt (keys m) ->
  StronglySorted Z.lt (keys (map_upd k f m)) /\ (forall x, In x (keys (map_upd k f m)) <-> x = k \/ In x (keys m)).
Proof.
  induction m as [|[k' v] tl IH]; intros S; cbn [map_upd keys map].
  - split; [repeat constructor|]. intros x. cbn. intuition congruence.
  - cbn in S. inversion S as [|? ? S' F]; subst. destruct (k <? k') eqn:L.
    + apply Z.ltb_lt in L. split.
      * cbn. constructor; [exact S|]. constructor; [exact L|]. rewrite Forall_forall in *. intros x Hx. specialize (F x Hx). lia.
      * intros x. cbn. intuition congruence.
    + apply Z.ltb_ge in L. destruct (k =? k') eqn:E.
      * apply Z.eqb_eq in E. subst k'. split; [cbn; exact S|]. intros x. cbn. intuition congruence.
      * apply Z.eqb_neq in E. destruct (IH S') as [IH1 IH2]. split.
        -- cbn. constructor; [exact IH1|]. rewrite Forall_forall in *. intros x Hx. apply IH2 in Hx.
           destruct Hx as [->|Hx]; [lia|apply F; exact Hx].
        -- intros x. cbn. rewrite IH2. intuition congruence.
Qed.

(* the invariant of the fold *)
Definition Inv (ws : list Z) (m : list (Z * list Z)) : Prop :=
  StronglySorted Z.lt (keys m) /\
  (forall id, In id (keys m) <-> exists w, In w ws /\ f_id w = id) /\
  (forall id, In id (keys m) -> lookup id m = Some (chan_value id ws)).

Lemma in_keys_lookup k m : In k (keys m) -> exists v, lookup k m = Some v.
Proof.
  induction m as [|[k' v] tl IH]; cbn; [tauto|]. intros [->|H]; [rewrite Z.eqb_refl; eauto|].
  destruct (k =? k'); [eauto|apply IH; exact H].
Qed.
Lemma lookup_in_keys k m v : lookup k m = Some v -> In k (keys m).
Proof.
  induction m as [|[k' v'] tl IH]; cbn; [discriminate|]. destruct (k =? k') eqn:E; [apply Z.eqb_eq in E; auto|]. intros H. right. apply IH. exact H.
Qed.

Lemma chan_words_snoc id ws w : chan_words id (ws ++ [w]) = chan_words id ws ++ (if f_id w =? id then [w] else []).
Proof. unfold chan_words. rewrite filter_app. cbn. destruct (f_id w =? id); reflexivity. Qed.

Lemma tq_set_value tq sig ovf t q o :
  tq_set tq sig ovf [t; q; o] = [if Bool.eqb (tq =? 0) true then sig else t; if Bool.eqb (tq =? 0) false then sig else q; Z.lor o ovf].
Proof. unfold tq_set. destruct (tq =? 0); reflexivity. Qed.

Lemma Inv_step ws m w : Inv ws m -> Inv (ws ++ [w]) (step m w).
Proof.
  intros (S & K & V). unfold step. destruct (keys_upd (f_id w) (tq_set (f_tq w) (f_sig w) (f_ovf w)) m S) as [S' K'].
  split; [exact S'|]. split.
  - intros id. rewrite K', K. split.
    + intros [->|(x & Hx & Ex)]; [exists w; split; [apply in_or_app; right; left; reflexivity|reflexivity]|].
      exists x. split; [apply in_or_app; left; exact Hx|exact Ex].
    + intros (x & Hx & Ex). apply in_app_or in Hx. destruct Hx as [Hx|[<-|[]]]; [right; eauto|left; symmetry; exact Ex].
  - intros id Hid. destruct (Z.eq_dec id (f_id w)) as [->|N].
    + rewrite lookup_upd_same by exact S. f_equal. unfold chan_value. rewrite chan_words_snoc, Z.eqb_refl.
      unfold last_sig, any_ovf. rewrite !fold_left_app. cbn [fold_left].
      destruct (lookup (f_id w) m) as [v|] eqn:L.
      * pose proof (V _ (lookup_in_keys _ _ _ L)) as E. rewrite L in E. inversion E; subst v. unfold chan_value.
        rewrite tq_set_value. unfold last_sig, any_ovf. reflexivity.
      * assert (Hn : chan_words (f_id w) ws = []).
        { unfold chan_words. destruct (filter _ ws) as [|x l] eqn:F; [reflexivity|]. exfalso.
          assert (Hx : In x (filter (fun w0 => f_id w0 =? f_id w) ws)) by (rewrite F; left; reflexivity).
          apply filter_In in Hx. destruct Hx as [Hx Ex]. apply Z.eqb_eq in Ex.
          assert (Hk : In (f_id w) (keys m)) by (apply K; eauto).
          destruct (in_keys_lookup _ _ Hk) as [v Lv]. congruence. }
        rewrite Hn. cbn [fold_left]. rewrite tq_set_value. reflexivity.
    + rewrite lookup_upd_other by exact N. apply K' in Hid. destruct Hid as [->|Hid]; [contradiction|].
      rewrite (V _ Hid). f_equal. unfold chan_value. rewrite chan_words_snoc.
      replace (f_id w =? id) with false by (symmetry; apply Z.eqb_neq; congruence). rewrite app_nil_r. reflexivity.
Qed.

Lemma Inv_fold ws : Inv ws (fold_left step ws []).
Proof.
  induction ws as [|w ws IH] using rev_ind.
  - split; [constructor|]. split; [intros id; cbn; split; [tauto|intros (w & [] & _)]|intros id []].
  - rewrite fold_left_app. cbn [fold_left]. apply Inv_step. exact IH.
Qed.

(* the law: what emit_tq (merge_tq ws) is, without reference to the map mechanics *)
Theorem merge_law ws :
  let out := emit_tq (merge_tq fields ws) in
  StronglySorted Z.lt (map (fun r => hd 0 r) out) /\
  (forall id, In id (map (fun r => hd 0 r) out) <-> exists w, In w ws /\ f_id w = id) /\
  (forall r, In r out -> r = hd 0 r :: chan_value (hd 0 r) ws).
Proof.
  intros out. unfold out. rewrite merge_tq_fold. destruct (Inv_fold ws) as (S & K & V).
  set (m := fold_left step ws []) in *.
  assert (E : map (fun r => hd 0 r) (emit_tq m) = keys m).
  { unfold emit_tq, keys. rewrite map_map. apply map_ext. intros [k v]. reflexivity. }
  rewrite E. split; [exact S|]. split; [exact K|].
  intros r Hr. unfold emit_tq in Hr. apply in_map_iff in Hr. destruct Hr as ([k v] & <- & Hkv). cbn [fst snd hd].
  f_equal. assert (Hk : In k (keys m)) by (unfold keys; apply in_map_iff; exists (k, v); auto).
  specialize (V k Hk).
  assert (L : lookup k m = Some v).
  { clear - S Hkv. induction m as [|[k' v'] tl IH]; [destruct Hkv|]. cbn in *. inversion S as [|? ? S' F]; subst.
    destruct Hkv as [H|H]; [inversion H; subst; rewrite Z.eqb_refl; reflexivity|].
    assert (In k (map fst tl)) by (apply in_map_iff; exists (k, v); auto).
    rewrite Forall_forall in F. specialize (F k H0). replace (k =? k') with false by (symmetry; apply Z.eqb_neq; lia).
    apply IH; assumption. }
  congruence.
Qed.
End Merge.

(* instances *)
Theorem mdc_merge_law ws :
  let out := digi_rows Mdc ws in
  StronglySorted Z.lt (map (fun r => hd 0 r) out) /\
  (forall id, In id (map (fun r => hd 0 r) out) <-> exists w, In w ws /\ f_id mdc_fields w = id) /\
  (forall r, In r out -> r = hd 0 r :: chan_value mdc_fields (hd 0 r) ws).
Proof. exact (merge_law mdc_fields ws). Qed.
Theorem tof_merge_law ws :
  let out := digi_rows Tof ws in
  StronglySorted Z.lt (map (fun r => hd 0 r) out) /\
  (forall id, In id (map (fun r => hd 0 r) out) <-> exists w, In w ws /\ f_id tof_fields w = id) /\
  (forall r, In r out -> r = hd 0 r :: chan_value tof_fields (hd 0 r) ws).
Proof. exact (merge_law tof_fields ws). Qed.

(* non-vacuity: T and Q halves of channel 5 merge, the duplicate T word overwrites, overflow is ORed, a channel with only Q
   reads T = 0, rows come out in ascending channel order although channel 3 appears last *)
Example mdc_merge_example :
  digi_rows Mdc [5 * 2^18 + 111; 5 * 2^18 + 2^17 + 2^16 + 222; 5 * 2^18 + 112; 3 * 2^18 + 2^17 + 7]
  = [[3; 0; 7; 0]; [5; 112; 222; 1]].
Proof. vm_compute. reflexivity. Qed.
