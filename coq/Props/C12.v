(* C12 — Helix error matrices are propagated with the true Jacobian of the pivot change.  Statements only.
   drL / phiL_* / dzL (C12Proofs) is a smooth local form of the parameter map around the point a0 = (dr0, phi00, kappa0, dz0,
   tanl0): it takes the regenerated code's values at a0, equals the code's dr' for all parameters of the same charge, and its
   angle is a polar angle of the code's direction sg*(centre - p') wherever that direction stays in the half plane around the
   one at a0 (so it is congruent to the code's phi0' modulo 2 pi there; dz' uses the turning angle along that branch).
   P f = the regenerated Jacobian entry f evaluated at a0 with r = HelixObject.radius. *)
From Coq Require Import Reals.
From Coquelicot Require Import Coquelicot.
From PV.Lib Require Import RealAux.
From PV.Model Require Import HelixSpec.
From PV.Gen Require Import HelixCode.
From PV.Props Require Import HelixCommon HelixLaws C12Proofs C11ErrProofs.
Local Open Scope R_scope.

Section Statement.
Variable atan2 : R -> R -> R.
Variables dr0 phi00 kappa0 dz0 tanl0 x0 y0 z0 x1 y1 z1 : R.
Let J f := P dr0 phi00 kappa0 dz0 tanl0 x0 y0 z0 x1 y1 z1 f.
Let th0 := nphi0 atan2 dr0 phi00 kappa0 dz0 tanl0 x0 y0 z0 x1 y1 z1.

(* all 25 entries: the 15 non-constant ones are derivatives of the local form; the 10 others are the constants 0 / 1 that
   the (dr', phi0') rows have with respect to dz, tanl and that the unchanged kappa, tanl rows have *)
Definition jacobian_is_derivative : Prop :=
  is_derive (fun t => drL kappa0 x0 y0 x1 y1 t phi00 kappa0) dr0 (J (cp_obj_J00 atan2)) /\
  is_derive (fun t => drL kappa0 x0 y0 x1 y1 dr0 t kappa0) phi00 (J (cp_obj_J01 atan2)) /\
  is_derive (fun t => drL kappa0 x0 y0 x1 y1 dr0 phi00 t) kappa0 (J (cp_obj_J02 atan2)) /\
  J cp_obj_J03 = 0 /\ J cp_obj_J04 = 0 /\
  is_derive (phiL_dr atan2 dr0 phi00 kappa0 dz0 tanl0 x0 y0 z0 x1 y1 z1) dr0 (J (cp_obj_J10 atan2)) /\
  is_derive (phiL_phi atan2 dr0 phi00 kappa0 dz0 tanl0 x0 y0 z0 x1 y1 z1) phi00 (J (cp_obj_J11 atan2)) /\
  is_derive (phiL_kap atan2 dr0 phi00 kappa0 dz0 tanl0 x0 y0 z0 x1 y1 z1) kappa0 (J (cp_obj_J12 atan2)) /\
  J cp_obj_J13 = 0 /\ J cp_obj_J14 = 0 /\
  J cp_obj_J20 = 0 /\ J cp_obj_J21 = 0 /\ J cp_obj_J22 = 1 /\ J cp_obj_J23 = 0 /\ J cp_obj_J24 = 0 /\
  is_derive (fun t => dzL atan2 dr0 phi00 kappa0 dz0 tanl0 x0 y0 z0 x1 y1 z1 (phiL_dr atan2 dr0 phi00 kappa0 dz0 tanl0 x0 y0 z0 x1 y1 z1 t) phi00 kappa0 dz0 tanl0) dr0 (J (cp_obj_J30 atan2)) /\
  is_derive (fun t => dzL atan2 dr0 phi00 kappa0 dz0 tanl0 x0 y0 z0 x1 y1 z1 (phiL_phi atan2 dr0 phi00 kappa0 dz0 tanl0 x0 y0 z0 x1 y1 z1 t) t kappa0 dz0 tanl0) phi00 (J (cp_obj_J31 atan2)) /\
  is_derive (fun t => dzL atan2 dr0 phi00 kappa0 dz0 tanl0 x0 y0 z0 x1 y1 z1 (phiL_kap atan2 dr0 phi00 kappa0 dz0 tanl0 x0 y0 z0 x1 y1 z1 t) phi00 t dz0 tanl0) kappa0 (J (cp_obj_J32 atan2)) /\
  is_derive (fun t => dzL atan2 dr0 phi00 kappa0 dz0 tanl0 x0 y0 z0 x1 y1 z1 th0 phi00 kappa0 t tanl0) dz0 (J cp_obj_J33) /\
  is_derive (fun t => dzL atan2 dr0 phi00 kappa0 dz0 tanl0 x0 y0 z0 x1 y1 z1 th0 phi00 kappa0 dz0 t) tanl0 (J (cp_obj_J34 atan2)) /\
  J cp_obj_J40 = 0 /\ J cp_obj_J41 = 0 /\ J cp_obj_J42 = 0 /\ J cp_obj_J43 = 0 /\ J cp_obj_J44 = 1.
End Statement.

Theorem C12_jacobian_is_derivative : forall atan2, atan2_spec atan2 ->
  forall dr0 phi00 kappa0 dz0 tanl0 x0 y0 z0 x1 y1 z1, kappa0 <> 0 ->
  (X dr0 phi00 kappa0 x0 x1 <> 0 \/ Y dr0 phi00 kappa0 y0 y1 <> 0) ->
  jacobian_is_derivative atan2 dr0 phi00 kappa0 dz0 tanl0 x0 y0 z0 x1 y1 z1.
Proof. exact jacobian_all. Qed.
Print Assumptions C12_jacobian_is_derivative.

(* the local form is the code: values at the point, dr' for every parameter of the same charge, polar-angle property *)
Theorem C12_local_form_is_the_code : forall atan2, atan2_spec atan2 ->
  forall dr0 phi00 kappa0 dz0 tanl0 x0 y0 z0 x1 y1 z1, kappa0 <> 0 ->
  (X dr0 phi00 kappa0 x0 x1 <> 0 \/ Y dr0 phi00 kappa0 y0 y1 <> 0) ->
  (drL kappa0 x0 y0 x1 y1 dr0 phi00 kappa0 = ndr dr0 phi00 kappa0 dz0 tanl0 x0 y0 z0 x1 y1 z1 /\
   phiL_dr atan2 dr0 phi00 kappa0 dz0 tanl0 x0 y0 z0 x1 y1 z1 dr0 = nphi0 atan2 dr0 phi00 kappa0 dz0 tanl0 x0 y0 z0 x1 y1 z1 /\
   phiL_phi atan2 dr0 phi00 kappa0 dz0 tanl0 x0 y0 z0 x1 y1 z1 phi00 = nphi0 atan2 dr0 phi00 kappa0 dz0 tanl0 x0 y0 z0 x1 y1 z1 /\
   phiL_kap atan2 dr0 phi00 kappa0 dz0 tanl0 x0 y0 z0 x1 y1 z1 kappa0 = nphi0 atan2 dr0 phi00 kappa0 dz0 tanl0 x0 y0 z0 x1 y1 z1 /\
   dzL atan2 dr0 phi00 kappa0 dz0 tanl0 x0 y0 z0 x1 y1 z1 (nphi0 atan2 dr0 phi00 kappa0 dz0 tanl0 x0 y0 z0 x1 y1 z1) phi00 kappa0 dz0 tanl0
     = ndz atan2 dr0 phi00 kappa0 dz0 tanl0 x0 y0 z0 x1 y1 z1) /\
  (forall dr phi0 kappa, kappa <> 0 -> sg kappa = sg kappa0 ->
     drL kappa0 x0 y0 x1 y1 dr phi0 kappa = ndr dr phi0 kappa dz0 tanl0 x0 y0 z0 x1 y1 z1).
Proof. exact local_form_ok. Qed.
Print Assumptions C12_local_form_is_the_code.

(* consequences for the propagated matrix J E J^T (any J, any E) *)
Theorem C12_error_symmetric : forall J E, (forall i j, E i j = E j i) -> forall i j, JEJt J E i j = JEJt J E j i.
Proof. exact JEJt_sym. Qed.
Print Assumptions C12_error_symmetric.

Theorem C12_error_psd : forall J E, psd E -> psd (JEJt J E).
Proof. exact JEJt_psd. Qed.
Print Assumptions C12_error_psd.

(* a move that changes nothing (turning angle 0, dr' = dr — e.g. to the same pivot on a canonical helix, C11) has J = identity,
   and J = identity leaves every error matrix unchanged *)
Theorem C12_identity_move : forall atan2 dr0 phi00 kappa0 dz0 tanl0 x0 y0 z0 x1 y1 z1, kappa0 <> 0 ->
  (X dr0 phi00 kappa0 x0 x1 <> 0 \/ Y dr0 phi00 kappa0 y0 y1 <> 0) ->
  dphi atan2 dr0 phi00 kappa0 dz0 tanl0 x0 y0 z0 x1 y1 z1 = 0 ->
  ndr dr0 phi00 kappa0 dz0 tanl0 x0 y0 z0 x1 y1 z1 = dr0 ->
  let J f := P dr0 phi00 kappa0 dz0 tanl0 x0 y0 z0 x1 y1 z1 f in
  J (cp_obj_J00 atan2) = 1 /\ J (cp_obj_J01 atan2) = 0 /\ J (cp_obj_J02 atan2) = 0 /\
  J (cp_obj_J10 atan2) = 0 /\ J (cp_obj_J11 atan2) = 1 /\ J (cp_obj_J12 atan2) = 0 /\
  J (cp_obj_J30 atan2) = 0 /\ J (cp_obj_J31 atan2) = 0 /\ J (cp_obj_J32 atan2) = 0 /\ J (cp_obj_J34 atan2) = 0.
Proof. exact J_identity_when_nothing_moves. Qed.
Print Assumptions C12_identity_move.

Theorem C12_identity_jacobian_keeps_error : forall E i j, (i < 5)%nat -> (j < 5)%nat -> JEJt mid E i j = E i j.
Proof. exact JEJt_identity. Qed.
Print Assumptions C12_identity_jacobian_keeps_error.

Example C12_nonvacuous : atan2_spec atan2_c /\ psd (fun i j => mid i j).
Proof. split; [exact atan2_c_spec | exact mid_psd]. Qed.

(* true Jacobians compose: the regenerated matrix of the direct move is the product of the matrices of the two partial moves
   (chain rule; turning angles within half a turn), so error matrices propagated in steps agree with the direct propagation *)
Theorem C12_jacobian_composes : forall atan2, atan2_spec atan2 -> forall kappa tanl, kappa <> 0 -> forall h p1 p2 E,
  off_centre kappa h p1 ->
  - PI < turn atan2 kappa tanl h p1 + turn atan2 kappa tanl (move atan2 kappa tanl h p1) p2 < PI ->
  forall i j, (i < 5)%nat -> (j < 5)%nat ->
  mmul (Jmove atan2 kappa tanl (move atan2 kappa tanl h p1) p2) (Jmove atan2 kappa tanl h p1) i j = Jmove atan2 kappa tanl h p2 i j /\
  JEJt (Jmove atan2 kappa tanl (move atan2 kappa tanl h p1) p2) (JEJt (Jmove atan2 kappa tanl h p1) E) i j = JEJt (Jmove atan2 kappa tanl h p2) E i j.
Proof.
  intros atan2 A2 kappa tanl Hk h p1 p2 E Ho Hs i j Hi Hj.
  split; [apply jacobian_chain_2; assumption | apply error_path_independent_2; assumption].
Qed.
Print Assumptions C12_jacobian_composes.
