(* C07 — Helix arrays behave exactly like independent single-track helices.  Statements only.
   (1) numeric part: the array branch of the regenerated pivot change contains no operation coupling different tracks and is,
       expression by expression, the scalar branch (outputs and all 25 Jacobian entries); the other array operations
       (momentum, position, charge, radius) are the same kernels the record/object front-ends use (C13_frontends_agree);
   (2) consequently an array operation is `map` of the single-track operation, hence independent of the other tracks and
       equivariant under permutations;
   (3) layout part: flatten -> transform -> rebuild restores the nesting for every depth (model of _extract_index + unflatten). *)
From Coq Require Import Reals List Permutation.
Import ListNotations.
From PV.Lib Require Import RealAux.
From PV.Gen Require Import HelixCode.
From PV.Props Require Import HelixCommon HelixLaws C07Proofs.
Local Open Scope R_scope.

Theorem C07_array_branch_is_scalar_branch : forall atan2 r_in dr phi0 dz kappa tanl x0 y0 z0 x1 y1 z1,
  cp_arr_elementwise = true /\ cp_obj_elementwise = true /\
  cp_arr_out_new_dr r_in dr phi0 dz kappa tanl x0 y0 z0 x1 y1 z1 = cp_obj_out_new_dr r_in dr phi0 dz kappa tanl x0 y0 z0 x1 y1 z1 /\
  cp_arr_out_new_phi0 atan2 r_in dr phi0 dz kappa tanl x0 y0 z0 x1 y1 z1 = cp_obj_out_new_phi0 atan2 r_in dr phi0 dz kappa tanl x0 y0 z0 x1 y1 z1 /\
  cp_arr_out_dphi atan2 r_in dr phi0 dz kappa tanl x0 y0 z0 x1 y1 z1 = cp_obj_out_dphi atan2 r_in dr phi0 dz kappa tanl x0 y0 z0 x1 y1 z1 /\
  cp_arr_out_new_dz atan2 r_in dr phi0 dz kappa tanl x0 y0 z0 x1 y1 z1 = cp_obj_out_new_dz atan2 r_in dr phi0 dz kappa tanl x0 y0 z0 x1 y1 z1.
Proof. exact array_branch_is_scalar_branch. Qed.
Print Assumptions C07_array_branch_is_scalar_branch.

Theorem C07_array_jacobian_is_scalar_jacobian : forall atan2 r_in dr phi0 dz kappa tanl x0 y0 z0 x1 y1 z1,
  jac_arr atan2 r_in dr phi0 dz kappa tanl x0 y0 z0 x1 y1 z1 = jac_obj atan2 r_in dr phi0 dz kappa tanl x0 y0 z0 x1 y1 z1.
Proof. exact array_jacobian_is_scalar_jacobian. Qed.
Print Assumptions C07_array_jacobian_is_scalar_jacobian.

(* an element-wise array operation = map of the per-track operation: independent of the other tracks, of their order *)
Theorem C07_elementwise_independent : forall (T U : Type) (f : T -> U) (pre post : list T) (t : T),
  nth (length pre) (map f (pre ++ t :: post)) (f t) = f t.
Proof. exact elementwise_independent. Qed.
Print Assumptions C07_elementwise_independent.

Theorem C07_perm_equivariant : forall (T U : Type) (f : T -> U) (l l' : list T), Permutation l l' -> Permutation (map f l) (map f l').
Proof. exact perm_equivariant. Qed.
Print Assumptions C07_perm_equivariant.

(* layout: for every nesting depth d and every uniformly nested array xs, rebuilding from the extracted per-level counts
   (innermost first, as the code does) the transformed flat tracks gives the input nesting with f applied to every track *)
Theorem C07_layout_preserved : forall (A B : Type) (f : A -> B) d (xs : list (nest A)), uniform d xs ->
  rebuild (rev (extract_index d xs)) (map (@Leaf B) (map f (flat d xs))) = Some (map (nest_map f) xs).
Proof. exact layout_preserved. Qed.
Print Assumptions C07_layout_preserved.

(* ... whereas applying the counts outermost-first (the defect fixed in the repository) fails already at depth 2 *)
Theorem C07_outermost_first_refuted : exists (xs : list (nest nat)), uniform 2 xs /\
  rebuild (extract_index 2 xs) (map (@Leaf nat) (flat 2 xs)) = None.
Proof. exact outermost_first_refuted. Qed.

Example C07_nonvacuous : uniform 2 [Node [Node [Leaf 1%nat; Leaf 2%nat]; Node []]; Node [Node [Leaf 3%nat]]] /\
  extract_index 2 [Node [Node [Leaf 1%nat; Leaf 2%nat]; Node []]; Node [Node [Leaf 3%nat]]] = [[2; 1]; [2; 0; 1]]%nat.
Proof. split; [cbn; repeat (first [exact I | split | constructor]) | reflexivity]. Qed.
