(* C05 — Digi identifiers compose and decompose without loss for every detector.
   Statements only; proofs live in C05Proofs.v.  All statements quantify over unbounded Z. *)
From Coq Require Import ZArith Bool.
From PV.Lib Require Import Bits.
From PV.Gen Require Import DigiId.
From PV.Props Require Import C05Proofs C05Inj.
Local Open Scope Z_scope.

(* decode (encode a) = a mod (field width): round trip for in-range values, truncation of wider values,
   no leak into neighbouring fields or the tag, own validity check true and every other one false *)
Theorem C05_mdc_decode_encode : forall wire layer wt,
  let w := get_mdc_digi_id wire layer wt in
  mdc_id_to_wire w = wire mod 512 /\ mdc_id_to_layer w = layer mod 64 /\
  mdc_id_to_is_stereo w = (wt mod 2 =? 1) /\ only_tag 16 w /\ 0 <= w < 2^32.
Proof. exact mdc_decode_encode. Qed.
Print Assumptions C05_mdc_decode_encode.

Theorem C05_tof_scint_decode_encode : forall part l p e, 0 <= part < 3 ->
  let w := get_tof_digi_id part l p e in
  tof_id_to_part w = part /\
  _tof_id_to_layer_or_module_1 w = l mod 2 /\ _tof_id_to_layer_or_module_2 w part = l mod 2 /\
  _tof_id_to_phi_or_strip_1 w = p mod 128 /\ _tof_id_to_phi_or_strip_2 w part = p mod 128 /\
  tof_id_to_end w = e mod 2 /\ only_tag 32 w /\ 0 <= w < 2^32.
Proof. exact tof_scint_decode_encode. Qed.
Print Assumptions C05_tof_scint_decode_encode.

Theorem C05_tof_mrpc_decode_encode : forall part l p e, 3 <= part ->
  let w := get_tof_digi_id part l p e in
  tof_id_to_part w = 3 + (part - 3) mod 2 /\
  _tof_id_to_layer_or_module_1 w = l mod 64 /\ _tof_id_to_layer_or_module_2 w part = l mod 64 /\
  _tof_id_to_phi_or_strip_1 w = p mod 16 /\ _tof_id_to_phi_or_strip_2 w part = p mod 16 /\
  tof_id_to_end w = e mod 2 /\ only_tag 32 w /\ 0 <= w < 2^32.
Proof. exact tof_mrpc_decode_encode. Qed.
Print Assumptions C05_tof_mrpc_decode_encode.

Theorem C05_emc_decode_encode : forall m t p,
  let w := get_emc_digi_id m t p in
  emc_id_to_module w = m mod 16 /\ emc_id_to_theta w = t mod 64 /\ emc_id_to_phi w = p mod 256 /\
  only_tag 48 w /\ 0 <= w < 2^32.
Proof. exact emc_decode_encode. Qed.
Print Assumptions C05_emc_decode_encode.

Theorem C05_muc_decode_encode : forall p s l c,
  let w := get_muc_digi_id p s l c in
  muc_id_to_part w = p mod 16 /\ muc_id_to_segment w = s mod 16 /\ muc_id_to_layer w = l mod 16 /\
  muc_id_to_channel w = c mod 256 /\ muc_id_to_gap w = l mod 16 /\ muc_id_to_strip w = c mod 256 /\
  only_tag 64 w /\ 0 <= w < 2^32.
Proof. exact muc_decode_encode. Qed.
Print Assumptions C05_muc_decode_encode.

Theorem C05_cgem_decode_encode_int_flag : forall l sh st f,
  let w := get_cgem_digi_id l sh st f in
  cgem_id_to_layer w = l mod 8 /\ cgem_id_to_sheet w = sh mod 8 /\ cgem_id_to_strip w = st mod 4096 /\
  cgem_id_to_is_x_strip w = (f mod 2 =? 1) /\ only_tag 96 w /\ 0 <= w < 2^32.
Proof. exact cgem_decode_encode. Qed.
Print Assumptions C05_cgem_decode_encode_int_flag.

Theorem C05_cgem_decode_encode_bool_flag : forall l sh st b,
  let w := get_cgem_digi_id_b l sh st b in
  cgem_id_to_layer w = l mod 8 /\ cgem_id_to_sheet w = sh mod 8 /\ cgem_id_to_strip w = st mod 4096 /\
  cgem_id_to_is_x_strip w = b /\ only_tag 96 w /\ 0 <= w < 2^32.
Proof. exact cgem_decode_encode_b. Qed.
Print Assumptions C05_cgem_decode_encode_bool_flag.

(* "without loss", stated directly: in-range field tuples with equal identifiers are equal tuples (corollaries of the round trips),
   and identifiers of different detectors / of the two TOF families never coincide, whatever the arguments *)
Theorem C05_mdc_encode_injective : forall wire layer wt wire' layer' wt',
  0 <= wire < 512 -> 0 <= layer < 64 -> 0 <= wt < 2 -> 0 <= wire' < 512 -> 0 <= layer' < 64 -> 0 <= wt' < 2 ->
  get_mdc_digi_id wire layer wt = get_mdc_digi_id wire' layer' wt' -> wire = wire' /\ layer = layer' /\ wt = wt'.
Proof. exact mdc_encode_injective. Qed.
Print Assumptions C05_mdc_encode_injective.

Theorem C05_emc_encode_injective : forall m t p m' t' p',
  0 <= m < 16 -> 0 <= t < 64 -> 0 <= p < 256 -> 0 <= m' < 16 -> 0 <= t' < 64 -> 0 <= p' < 256 ->
  get_emc_digi_id m t p = get_emc_digi_id m' t' p' -> m = m' /\ t = t' /\ p = p'.
Proof. exact emc_encode_injective. Qed.
Print Assumptions C05_emc_encode_injective.

Theorem C05_muc_encode_injective : forall p s l c p' s' l' c',
  0 <= p < 16 -> 0 <= s < 16 -> 0 <= l < 16 -> 0 <= c < 256 -> 0 <= p' < 16 -> 0 <= s' < 16 -> 0 <= l' < 16 -> 0 <= c' < 256 ->
  get_muc_digi_id p s l c = get_muc_digi_id p' s' l' c' -> p = p' /\ s = s' /\ l = l' /\ c = c'.
Proof. exact muc_encode_injective. Qed.
Print Assumptions C05_muc_encode_injective.

Theorem C05_cgem_encode_injective : forall l sh st f l' sh' st' f',
  0 <= l < 8 -> 0 <= sh < 8 -> 0 <= st < 4096 -> 0 <= f < 2 -> 0 <= l' < 8 -> 0 <= sh' < 8 -> 0 <= st' < 4096 -> 0 <= f' < 2 ->
  get_cgem_digi_id l sh st f = get_cgem_digi_id l' sh' st' f' -> l = l' /\ sh = sh' /\ st = st' /\ f = f'.
Proof. exact cgem_encode_injective. Qed.
Print Assumptions C05_cgem_encode_injective.

Theorem C05_tof_scint_encode_injective : forall part l p e part' l' p' e',
  0 <= part < 3 -> 0 <= l < 2 -> 0 <= p < 128 -> 0 <= e < 2 -> 0 <= part' < 3 -> 0 <= l' < 2 -> 0 <= p' < 128 -> 0 <= e' < 2 ->
  get_tof_digi_id part l p e = get_tof_digi_id part' l' p' e' -> part = part' /\ l = l' /\ p = p' /\ e = e'.
Proof. exact tof_scint_encode_injective. Qed.
Print Assumptions C05_tof_scint_encode_injective.

Theorem C05_tof_mrpc_encode_injective : forall part l p e part' l' p' e',
  3 <= part < 5 -> 0 <= l < 64 -> 0 <= p < 16 -> 0 <= e < 2 -> 3 <= part' < 5 -> 0 <= l' < 64 -> 0 <= p' < 16 -> 0 <= e' < 2 ->
  get_tof_digi_id part l p e = get_tof_digi_id part' l' p' e' -> part = part' /\ l = l' /\ p = p' /\ e = e'.
Proof. exact tof_mrpc_encode_injective. Qed.
Print Assumptions C05_tof_mrpc_encode_injective.

Theorem C05_tof_scint_mrpc_disjoint : forall part l p e part' l' p' e', 0 <= part < 3 -> 3 <= part' ->
  get_tof_digi_id part l p e <> get_tof_digi_id part' l' p' e'.
Proof. exact tof_scint_mrpc_disjoint. Qed.
Print Assumptions C05_tof_scint_mrpc_disjoint.

Theorem C05_detectors_never_collide : forall t t' w w', only_tag t w -> only_tag t' w' ->
  List.In t (16 :: 32 :: 48 :: 64 :: 96 :: nil) -> List.In t' (16 :: 32 :: 48 :: 64 :: 96 :: nil) -> t <> t' -> w <> w'.
Proof. exact only_tag_distinct. Qed.
Print Assumptions C05_detectors_never_collide.

(* every 32-bit word carrying the detector's tag: re-composing the decoded fields reproduces all defined bits *)
Theorem C05_mdc_recompose : forall w, 0 <= w < 2^32 -> check_mdc_id w = true ->
  get_mdc_digi_id (mdc_id_to_wire w) (mdc_id_to_layer w) (b2z (mdc_id_to_is_stereo w)) = Z.land w DEFINED_MDC.
Proof. exact mdc_recompose. Qed.
Print Assumptions C05_mdc_recompose.

Theorem C05_tof_recompose : forall w, 0 <= w < 2^32 -> check_tof_id w = true ->
  get_tof_digi_id (tof_id_to_part w) (_tof_id_to_layer_or_module_1 w) (_tof_id_to_phi_or_strip_1 w) (tof_id_to_end w)
  = Z.land w (if tof_id_to_part w <? 3 then DEFINED_TOF_SCINT else DEFINED_TOF_MRPC).
Proof. exact tof_recompose. Qed.
Print Assumptions C05_tof_recompose.

Theorem C05_emc_recompose : forall w, 0 <= w < 2^32 -> check_emc_id w = true ->
  get_emc_digi_id (emc_id_to_module w) (emc_id_to_theta w) (emc_id_to_phi w) = Z.land w DEFINED_EMC.
Proof. exact emc_recompose. Qed.
Print Assumptions C05_emc_recompose.

Theorem C05_muc_recompose : forall w, 0 <= w < 2^32 -> check_muc_id w = true ->
  get_muc_digi_id (muc_id_to_part w) (muc_id_to_segment w) (muc_id_to_layer w) (muc_id_to_channel w)
  = Z.land w DEFINED_MUC.
Proof. exact muc_recompose. Qed.
Print Assumptions C05_muc_recompose.

Theorem C05_cgem_recompose : forall w, 0 <= w < 2^32 -> check_cgem_id w = true ->
  get_cgem_digi_id_b (cgem_id_to_layer w) (cgem_id_to_sheet w) (cgem_id_to_strip w) (cgem_id_to_is_x_strip w)
  = Z.land w DEFINED_CGEM /\
  get_cgem_digi_id (cgem_id_to_layer w) (cgem_id_to_sheet w) (cgem_id_to_strip w) (b2z (cgem_id_to_is_x_strip w))
  = Z.land w DEFINED_CGEM.
Proof. intros w H1 H2; split; [exact (cgem_recompose_b w H1 H2) | exact (cgem_recompose w H1 H2)]. Qed.
Print Assumptions C05_cgem_recompose.

(* the DEFINED_* masks used above are tag | union of the field masks regenerated from the source *)
Theorem C05_defined_masks : 
  DEFINED_MDC = Z.lor DIGI_FLAG_MASK (Z.lor DIGI_MDC_WIRE_MASK (Z.lor DIGI_MDC_LAYER_MASK DIGI_MDC_WIRETYPE_MASK)) /\
  DEFINED_EMC = Z.lor DIGI_FLAG_MASK (Z.lor DIGI_EMC_MODULE_MASK (Z.lor DIGI_EMC_THETA_MASK DIGI_EMC_PHI_MASK)) /\
  DEFINED_MUC = Z.lor DIGI_FLAG_MASK (Z.lor DIGI_MUC_PART_MASK (Z.lor DIGI_MUC_SEGMENT_MASK
                   (Z.lor DIGI_MUC_LAYER_MASK DIGI_MUC_CHANNEL_MASK))) /\
  DEFINED_CGEM = Z.lor DIGI_FLAG_MASK (Z.lor DIGI_CGEM_STRIP_MASK (Z.lor DIGI_CGEM_STRIPTYPE_MASK
                   (Z.lor DIGI_CGEM_SHEET_MASK DIGI_CGEM_LAYER_MASK))) /\
  DEFINED_TOF_SCINT = Z.lor DIGI_FLAG_MASK (Z.lor DIGI_TOF_PART_MASK (Z.lor DIGI_TOF_END_MASK
                   (Z.lor DIGI_TOF_SCINT_LAYER_MASK DIGI_TOF_SCINT_PHI_MASK))) /\
  DEFINED_TOF_MRPC = Z.lor DIGI_FLAG_MASK (Z.lor DIGI_TOF_PART_MASK (Z.lor DIGI_TOF_END_MASK
                   (Z.lor DIGI_TOF_MRPC_ENDCAP_MASK (Z.lor DIGI_TOF_MRPC_MODULE_MASK DIGI_TOF_MRPC_STRIP_MASK)))).
Proof. exact defined_masks_are_field_unions. Qed.
Print Assumptions C05_defined_masks.

(* non-vacuity: maximal in-range field values satisfy the hypotheses and decode to themselves *)
Example C05_nonvacuous :
  mdc_id_to_wire (get_mdc_digi_id 511 63 1) = 511 /\ mdc_id_to_layer (get_mdc_digi_id 511 63 1) = 63 /\
  tof_id_to_part (get_tof_digi_id 2 1 127 1) = 2 /\ _tof_id_to_phi_or_strip_1 (get_tof_digi_id 2 1 127 1) = 127 /\
  tof_id_to_part (get_tof_digi_id 4 63 15 1) = 4 /\ _tof_id_to_layer_or_module_1 (get_tof_digi_id 4 63 15 1) = 63 /\
  emc_id_to_theta (get_emc_digi_id 15 63 255) = 63 /\ muc_id_to_segment (get_muc_digi_id 15 15 15 255) = 15 /\
  cgem_id_to_strip (get_cgem_digi_id 7 7 4095 1) = 4095 /\ check_tof_id 0x2000C1FF = true /\ check_mdc_id 0x10FFFFFF = true.
Proof. vm_compute. repeat split. Qed.
