(* C08 — Global IDs are a dense, documented, invertible numbering of detector elements.
   Statements only (proofs in C08Proofs.v).  Tables and kernels are regenerated from the working tree on every run;
   every statement is a complete computation over all 6796 wires / 6240 crystals or a lemma quantified over them. *)
From Coq Require Import ZArith List Bool.
Import ListNotations.
From PV.Lib Require Import Bits Tables.
From PV.Gen Require Import DigiId TabMdcInt TabEmcInt GidMdc GidEmc.
From PV.Props Require Import C08Proofs.
Local Open Scope Z_scope.

(* density + range + documented monotone order, in one equation each *)
Theorem C08_emc_gid_enumerates_documented_order :
  map (fun c => get_emc_gid (fst (fst c)) (snd (fst c)) (snd c)) emc_documented_order = zseq 6240.
Proof. exact emc_enumeration. Qed.
Print Assumptions C08_emc_gid_enumerates_documented_order.

Theorem C08_mdc_gid_enumerates_documented_order :
  map (fun c => get_mdc_gid (fst c) (snd c)) mdc_documented_order = zseq 6796.
Proof. exact mdc_enumeration. Qed.
Print Assumptions C08_mdc_gid_enumerates_documented_order.

(* the published tables list exactly the documented elements, in gid order, and their gid column is the row index *)
Theorem C08_tables_are_documented_order :
  emc_rows = emc_documented_order /\ emc_gid = zseq 6240 /\ mdc_rows = mdc_documented_order /\ mdc_gid = zseq 6796.
Proof. exact (conj emc_table_in_documented_order (conj emc_gid_column_is_index
              (conj mdc_table_in_documented_order mdc_gid_column_is_index))). Qed.
Print Assumptions C08_tables_are_documented_order.

(* mutually inverse maps over all real elements *)
Theorem C08_emc_fields_to_gid_to_fields : forall p t f, emc_real p t f ->
  let g := get_emc_gid p t f in
  0 <= g < 6240 /\ emc_gid_to_part g = p /\ emc_gid_to_theta g = t /\ emc_gid_to_phi g = f /\ tlookup emc_gid g = g.
Proof. exact emc_gid_then_row. Qed.
Print Assumptions C08_emc_fields_to_gid_to_fields.

Theorem C08_emc_gid_to_fields_to_gid : forall g, 0 <= g < 6240 ->
  emc_real (emc_gid_to_part g) (emc_gid_to_theta g) (emc_gid_to_phi g) /\
  get_emc_gid (emc_gid_to_part g) (emc_gid_to_theta g) (emc_gid_to_phi g) = g.
Proof. exact emc_row_then_gid. Qed.
Print Assumptions C08_emc_gid_to_fields_to_gid.

Theorem C08_mdc_fields_to_gid_to_fields : forall l w, mdc_real l w ->
  let g := get_mdc_gid l w in
  0 <= g < 6796 /\ mdc_gid_to_layer g = l /\ mdc_gid_to_wire g = w /\ tlookup mdc_gid g = g.
Proof. exact mdc_gid_then_row. Qed.
Print Assumptions C08_mdc_fields_to_gid_to_fields.

Theorem C08_mdc_gid_to_fields_to_gid : forall g, 0 <= g < 6796 ->
  mdc_real (mdc_gid_to_layer g) (mdc_gid_to_wire g) /\ get_mdc_gid (mdc_gid_to_layer g) (mdc_gid_to_wire g) = g.
Proof. exact mdc_row_then_gid. Qed.
Print Assumptions C08_mdc_gid_to_fields_to_gid.

Theorem C08_mdc_real_elements : forall l w, mdc_real l w <-> 0 <= l < 43 /\ 0 <= w < tlookup mdc_wires_per_layer l.
Proof. exact mdc_real_iff. Qed.
Print Assumptions C08_mdc_real_elements.

(* gid from a parsed digi identifier = gid from its decoded fields (composition with the C05 codecs), any wire-type bit *)
Theorem C08_mdc_digi_gid_agree : forall l w wt, mdc_real l w ->
  let id := get_mdc_digi_id w l wt in
  get_mdc_gid (mdc_id_to_layer id) (mdc_id_to_wire id) = get_mdc_gid l w /\ check_mdc_id id = true.
Proof. exact mdc_parse_digi_gid. Qed.
Print Assumptions C08_mdc_digi_gid_agree.

Theorem C08_emc_digi_gid_agree : forall p t f, emc_real p t f ->
  let id := get_emc_digi_id p t f in
  get_emc_gid (emc_id_to_module id) (emc_id_to_theta id) (emc_id_to_phi id) = get_emc_gid p t f /\ check_emc_id id = true.
Proof. exact emc_parse_digi_gid. Qed.
Print Assumptions C08_emc_digi_gid_agree.

Example C08_nonvacuous : emc_real 2 0 63 /\ get_emc_gid 2 0 63 = 6239 /\ mdc_real 42 287 /\ get_mdc_gid 42 287 = 6795 /\
  emc_real 1 43 119 /\ get_emc_gid 1 43 119 = 5759 /\ get_mdc_gid 1 0 = 40.
Proof.
  split; [apply emc_realb_sound; vm_compute; reflexivity|].
  split; [vm_compute; reflexivity|].
  split; [apply mdc_real_iff; vm_compute; repeat split; congruence|].
  split; [vm_compute; reflexivity|].
  split; [apply emc_realb_sound; vm_compute; reflexivity|].
  split; vm_compute; reflexivity.
Qed.
