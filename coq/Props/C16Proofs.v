(* C16 — proofs about the REGENERATED packed-symmetric-matrix code (PV.Gen.SymMatrixCode, emitted from
   root_io.hh's Bes3SymMatrixArrayReader and root_io.py's Bes3SymMatrixArrayFactory on every run).
   `int` arithmetic is 32-bit two's complement with explicit wrap-around (wrap32); the bound 46341 is the
   largest dimension for which no product j*(j+1) leaves the `int` range. *)
From Coq Require Import String.
From Coq Require Import ZArith List Lia Bool ZifyBool.
Import ListNotations.
From PV.Model Require Import SymMatrix.
From PV.Gen Require Import SymMatrixCode.
Local Open Scope Z_scope.
Ltac Zify.zify_post_hook ::= Z.to_euclidean_division_equations.

Definition DMAX : Z := 46341.

(* the members the property lists for expansion (track, shower, extrapolation and vertex error matrices) *)
Definition spec_items : list string := [
  "/Event:TDstEvent/m_mdcTrackCol.TMdcTrack.m_err";
  "/Event:TDstEvent/m_emcTrackCol.TEmcTrack.m_err";
  "/Event:TDstEvent/m_extTrackCol.TExtTrack.myTof1ErrorMatrix";
  "/Event:TDstEvent/m_extTrackCol.TExtTrack.myTof2ErrorMatrix";
  "/Event:TDstEvent/m_extTrackCol.TExtTrack.myEmcErrorMatrix";
  "/Event:TDstEvent/m_extTrackCol.TExtTrack.myMucErrorMatrix";
  "/Event:TDstEvent/m_mdcKalTrackCol.TMdcKalTrack.m_zerror";
  "/Event:TDstEvent/m_mdcKalTrackCol.TMdcKalTrack.m_zerror_e";
  "/Event:TDstEvent/m_mdcKalTrackCol.TMdcKalTrack.m_zerror_mu";
  "/Event:TDstEvent/m_mdcKalTrackCol.TMdcKalTrack.m_zerror_k";
  "/Event:TDstEvent/m_mdcKalTrackCol.TMdcKalTrack.m_zerror_p";
  "/Event:TDstEvent/m_mdcKalTrackCol.TMdcKalTrack.m_ferror";
  "/Event:TDstEvent/m_mdcKalTrackCol.TMdcKalTrack.m_ferror_e";
  "/Event:TDstEvent/m_mdcKalTrackCol.TMdcKalTrack.m_ferror_mu";
  "/Event:TDstEvent/m_mdcKalTrackCol.TMdcKalTrack.m_ferror_k";
  "/Event:TDstEvent/m_mdcKalTrackCol.TMdcKalTrack.m_ferror_p";
  "/Event:TEvtRecObject/m_evtRecVeeVertexCol.TEvtRecVeeVertex.m_Ew";
  "/Event:TRecEvent/m_recMdcTrackCol.TRecMdcTrack.m_err";
  "/Event:TRecEvent/m_recEmcShowerCol.TRecEmcShower.m_err";
  "/Event:TRecEvent/m_recMdcKalTrackCol.TRecMdcKalTrack.m_terror" ]%string.

(* ---------------------------------------------------------------- index map *)
Ltac nowrap :=
  repeat match goal with
         | |- context [wrap32 ?x] => rewrite (wrap32_id x) by nia
         | |- context [Z.quot ?x 2] => rewrite (Z.quot_div_nonneg x 2) by nia
         end.

Lemma index_spec i j : 0 <= i < DMAX -> 0 <= j < DMAX -> get_symmetric_matrix_index i j = pidx i j.
Proof.
  unfold DMAX. intros Hi Hj. unfold get_symmetric_matrix_index, pidx.
  destruct (i <? j) eqn:E.
  - assert (i < j) by lia. nowrap. rewrite Z.max_r, Z.min_l by lia. reflexivity.
  - assert (j <= i) by lia. nowrap. rewrite Z.max_l, Z.min_r by lia. reflexivity.
Qed.

Lemma index_in_range n i j : n <= DMAX -> 0 <= i < n -> 0 <= j < n ->
  0 <= get_symmetric_matrix_index i j < n * (n + 1) / 2.
Proof.
  intros Hn Hi Hj. rewrite index_spec by (unfold DMAX in *; lia). apply (pidx_range n); assumption.
Qed.

Lemma index_symmetric i j : 0 <= i < DMAX -> 0 <= j < DMAX ->
  get_symmetric_matrix_index i j = get_symmetric_matrix_index j i.
Proof. intros. rewrite !index_spec by assumption. apply pidx_sym. Qed.

(* ---------------------------------------------------------------- constructor check *)
Lemma ctor_accepts_iff flat dim :
  ctor_accepts flat dim = true <->
  (forall i j, 0 <= i < dim -> 0 <= j < dim -> ctor_throws_at flat dim i j = false).
Proof.
  unfold ctor_accepts. rewrite forallb_forall. split.
  - intros H i j Hi Hj. specialize (H i ltac:(apply zrange_In; lia)).
    rewrite forallb_forall in H. specialize (H j ltac:(apply zrange_In; lia)).
    now apply negb_true_iff in H.
  - intros H i Hi. apply zrange_In in Hi. rewrite forallb_forall. intros j Hj. apply zrange_In in Hj.
    apply negb_true_iff. apply H; lia.
Qed.

Lemma throws_spec flat dim i j : 0 <= i < DMAX -> 0 <= j < DMAX ->
  ctor_throws_at flat dim i j = (flat <=? pidx i j).
Proof.
  intros Hi Hj. unfold ctor_throws_at. cbv zeta. rewrite index_spec by assumption.
  pose proof (pidx_range DMAX i j Hi Hj) as R. change (tri DMAX) with 1073767311 in R.
  rewrite u32_id by lia. lia.
Qed.

Lemma ctor_check flat dim : 0 <= flat < 4294967296 -> 0 <= dim <= DMAX ->
  (ctor_accepts flat dim = true <-> dim * (dim + 1) / 2 <= flat).
Proof.
  intros Hf Hd. rewrite ctor_accepts_iff. fold (tri dim). split.
  - intros H. destruct (Z.eq_dec dim 0) as [->|Hne]; [rewrite tri_0; lia|].
    specialize (H (dim - 1) (dim - 1) ltac:(lia) ltac:(lia)).
    rewrite throws_spec in H by (unfold DMAX in *; lia).
    rewrite pidx_tri, Z.max_id, Z.min_id in H.
    pose proof (tri_succ (dim - 1)) as S. replace (dim - 1 + 1) with dim in S by lia. lia.
  - intros H i j Hi Hj. rewrite throws_spec by (unfold DMAX in *; lia).
    pose proof (pidx_range dim i j Hi Hj). lia.
Qed.

Lemma read_indices_grid fs d : read_indices fs d = grid d get_symmetric_matrix_index.
Proof. reflexivity. Qed.
Lemma read_count_spec fs d : 0 <= fs -> read_count fs d = fs.
Proof. intros H. unfold read_count, zlen. rewrite zrange_length. lia. Qed.

Lemma ctor_safe flat dim : 0 <= flat < 4294967296 -> 0 <= dim <= DMAX -> ctor_accepts flat dim = true ->
  let fs := ctor_member_flat_size flat dim in
  let fd := ctor_member_full_dim flat dim in
  read_alloc fs fd = flat /\ read_count fs fd = flat /\
  forall idx, In idx (read_indices fs fd) -> 0 <= idx < read_alloc fs fd.
Proof.
  intros Hf Hd Hacc. cbv zeta. unfold ctor_member_flat_size, ctor_member_full_dim, read_alloc.
  split; [reflexivity|]. split; [apply read_count_spec; lia|].
  intros idx Hin. rewrite read_indices_grid in Hin. apply grid_In in Hin.
  destruct Hin as (i & j & Hi & Hj & ->).
  apply ctor_check in Hacc; try assumption.
  pose proof (index_in_range dim i j ltac:(lia) Hi Hj). lia.
Qed.

(* wrap-around model of the overflowing product (formally undefined behaviour in C++): the pair (0, 46341) is
   visited by the constructor loops of every larger dimension and its wrapped index, converted to uint32_t,
   is 3221250959 *)
Lemma ctor_rejects_overflowing_dim flat dim : 0 <= flat <= 3221250959 -> DMAX < dim ->
  ctor_accepts flat dim = false.
Proof.
  intros Hf Hd. destruct (ctor_accepts flat dim) eqn:E; [|reflexivity].
  rewrite ctor_accepts_iff in E. specialize (E 0 DMAX ltac:(unfold DMAX in *; lia) ltac:(unfold DMAX in *; lia)).
  unfold ctor_throws_at in E. cbv zeta in E.
  change (u32 (get_symmetric_matrix_index 0 DMAX)) with 3221250959 in E. lia.
Qed.

(* ---------------------------------------------------------------- expansion *)
Definition expand (n : Z) (p : list Z) : list Z := map (nthZ OOB p) (read_indices (tri n) n).

Lemma read_one_expand n p rest : 0 <= n -> zlen p = tri n ->
  read_one (tri n) n (p ++ rest) = Some (expand n p, rest).
Proof.
  intros Hn Hp. unfold read_one. pose proof (tri_nonneg n Hn) as T.
  rewrite read_count_spec by exact T. unfold read_alloc. rewrite Z.eqb_refl. cbv [negb].
  apply read_with_exact. exact Hp.
Qed.

Lemma expand_length n p : 0 <= n -> zlen (expand n p) = n * n.
Proof.
  intros Hn. unfold expand, zlen. rewrite map_length. rewrite read_indices_grid.
  apply (grid_length n get_symmetric_matrix_index Hn).
Qed.

Lemma expand_nth n p i j : 0 <= n <= DMAX -> 0 <= i < n -> 0 <= j < n ->
  nthZ OOB (expand n p) (i * n + j) = nthZ OOB p (pidx i j).
Proof.
  intros Hn Hi Hj. unfold expand. rewrite read_indices_grid.
  assert (G : map (nthZ OOB p) (grid n get_symmetric_matrix_index) =
              grid n (fun i j => nthZ OOB p (get_symmetric_matrix_index i j))).
  { unfold grid. rewrite flat_map_concat_map, concat_map, map_map, <- flat_map_concat_map.
    apply flat_map_ext. intros a. now rewrite map_map. }
  rewrite G, grid_nth by assumption. rewrite index_spec by (unfold DMAX in *; lia). reflexivity.
Qed.

Lemma symm_expand n p rest : 0 <= n <= DMAX -> zlen p = n * (n + 1) / 2 ->
  exists M, read_one (n * (n + 1) / 2) n (p ++ rest) = Some (M, rest) /\ zlen M = n * n /\
  forall i j, 0 <= i < n -> 0 <= j < n ->
    0 <= pidx i j < zlen p /\
    nthZ OOB M (i * n + j) = nthZ OOB p (pidx i j) /\
    nthZ OOB M (i * n + j) = nthZ OOB M (j * n + i).
Proof.
  intros Hn Hp. exists (expand n p). fold (tri n) in *.
  split; [apply read_one_expand; lia|]. split; [apply expand_length; lia|].
  intros i j Hi Hj. split; [rewrite Hp; apply pidx_range; assumption|].
  split; [apply expand_nth; assumption|].
  rewrite !expand_nth by assumption. now rewrite pidx_sym.
Qed.

(* every packed entry appears in the full matrix: the lower triangle enumerates [0, tri n) *)
Lemma pidx_surj n : 0 <= n -> forall k, 0 <= k < tri n -> exists i j, 0 <= j <= i /\ i < n /\ pidx i j = k.
Proof.
  intros Hn. pattern n. apply natlike_ind; [| |exact Hn].
  - intros k Hk. rewrite tri_0 in Hk. lia.
  - intros m Hm IH k Hk. change (Z.succ m) with (m + 1) in *. rewrite tri_succ in Hk.
    destruct (Z_lt_le_dec k (tri m)) as [L|G].
    + destruct (IH k ltac:(lia)) as (i & j & H1 & H2 & H3). exists i, j. repeat split; lia.
    + exists m, (k - tri m). repeat split; try lia.
      rewrite pidx_tri, Z.max_l, Z.min_r by lia. lia.
Qed.

(* ---------------------------------------------------------------- Python factory *)
Lemma sqrt_odd_square n : 0 <= n -> Z.sqrt (1 + 8 * tri n) = 2 * n + 1.
Proof.
  intros Hn. pose proof (tri_double n).
  replace (1 + 8 * tri n) with ((2 * n + 1) * (2 * n + 1)) by nia.
  apply Z.sqrt_square. lia.
Qed.
Lemma dim_of_packed n : 0 <= n -> py_full_dim (n * (n + 1) / 2) = n.
Proof.
  intros Hn. unfold py_full_dim. fold (tri n). rewrite sqrt_odd_square by assumption.
  replace (2 * n + 1 - 1) with (n * 2) by lia. apply Z.div_mul. lia.
Qed.
Lemma dim_never_too_large flat : 0 <= flat ->
  let d := py_full_dim flat in 0 <= d /\ d * (d + 1) / 2 <= flat < (d + 1) * (d + 1 + 1) / 2.
Proof.
  intros Hf. cbv zeta. unfold py_full_dim.
  pose proof (Z.sqrt_spec (1 + 8 * flat) ltac:(lia)) as [S1 S2].
  set (s := Z.sqrt (1 + 8 * flat)) in *.
  assert (1 <= s) by (unfold s; apply Z.sqrt_le_square; lia).
  set (d := (s - 1) / 2).
  assert (Hd : 2 * d + 1 <= s < 2 * d + 3) by (unfold d; lia).
  fold (tri d). fold (tri (d + 1)).
  pose proof (tri_double d). pose proof (tri_double (d + 1)).
  split; [unfold d; lia|]. split; nia.
Qed.

Lemma factory_args_accepted n : 1 <= n <= DMAX ->
  let flat := tri n in let dim := py_full_dim flat in
  py_reader_args flat dim = (tri n, n) /\
  ctor_accepts (fst (py_reader_args flat dim)) (snd (py_reader_args flat dim)) = true.
Proof.
  intros Hn. cbv zeta. assert (D : py_full_dim (tri n) = n) by (apply dim_of_packed; lia). rewrite D.
  unfold py_reader_args. cbn [fst snd]. split; [reflexivity|].
  apply ctor_check.
  - pose proof (tri_mono n DMAX ltac:(lia)). pose proof (tri_nonneg n ltac:(lia)).
    change (tri DMAX) with 1073767311 in *. lia.
  - lia.
  - fold (tri n). lia.
Qed.

Definition rows (n : Z) (m : list Z) : list (list Z) := chunks (Z.to_nat n) m.

Lemma factory_end_to_end n (ps : list (list Z)) rest : 1 <= n <= DMAX ->
  (forall p, In p ps -> zlen p = tri n) ->
  let flat := tri n in let dim := py_full_dim flat in
  let cf := ctor_member_flat_size (fst (py_reader_args flat dim)) (snd (py_reader_args flat dim)) in
  let cd := ctor_member_full_dim (fst (py_reader_args flat dim)) (snd (py_reader_args flat dim)) in
  exists raw, iter_read (read_one cf cd) (length ps) (concat ps ++ rest) = Some (raw, rest) /\
    py_content flat dim raw = Some (map (fun p => rows n (expand n p)) ps).
Proof.
  intros Hn Hps. cbv zeta. destruct (factory_args_accepted n Hn) as [-> _]. simpl fst; simpl snd.
  unfold ctor_member_flat_size, ctor_member_full_dim.
  assert (D : py_full_dim (tri n) = n) by (apply dim_of_packed; lia). rewrite D.
  exists (concat (map (expand n) ps)). split.
  - apply iter_read_concat. intros p r Hin. apply read_one_expand; [lia|]. apply Hps, Hin.
  - unfold py_content, reshape_m1.
    assert ((n <=? 0) || (n <=? 0) = false) as -> by lia.
    assert (L : forall x, In x (map (expand n) ps) -> length x = Z.to_nat (n * n)).
    { intros x Hx. apply in_map_iff in Hx. destruct Hx as (p & <- & _).
      pose proof (expand_length n p ltac:(lia)) as E. unfold zlen in E. lia. }
    assert (zlen (concat (map (expand n) ps)) mod (n * n) =? 0 = true) as ->.
    { unfold zlen. rewrite (concat_length_const (Z.to_nat (n * n))) by exact L.
      rewrite map_length. rewrite Nat2Z.inj_mul, Z2Nat.id by nia. rewrite Z.mod_mul by nia. reflexivity. }
    simpl negb. cbv iota. f_equal.
    rewrite chunks_concat by (try exact L; nia). rewrite map_map. reflexivity.
Qed.

(* ---------------------------------------------------------------- target list *)
Definition str_in (s : string) (l : list string) : bool := existsb (String.eqb s) l.
Lemma str_in_In s l : str_in s l = true -> In s l.
Proof.
  unfold str_in. rewrite existsb_exists. intros (x & Hx & E). apply String.eqb_eq in E. now subst.
Qed.
Lemma target_items_cover_spec : forall s, In s spec_items -> In s target_items.
Proof.
  assert (H : forallb (fun s => str_in s target_items) spec_items = true) by (vm_compute; reflexivity).
  rewrite forallb_forall in H. intros s Hs. apply str_in_In, H, Hs.
Qed.
