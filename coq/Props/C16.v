(* C16 — Packed symmetric error matrices are expanded to the right full matrices.
   Statements only; proofs live in C16Proofs.v.  All definitions named here that are not from PV.Model.SymMatrix
   (get_symmetric_matrix_index, ctor_accepts, ctor_member_*, read_one, read_indices, read_alloc, py_full_dim,
   py_reader_args, py_content, target_items) are REGENERATED from root_io.hh / root_io.py on every run.
   Values are 64-bit patterns (arbitrary, not only symmetric-looking data); OOB (= -1) marks an access outside
   the flat array and can therefore never equal a value.  C++ `int` is 32-bit two's complement with wrap-around
   written explicitly; 46341 is the largest dimension for which no index product leaves the `int` range. *)
From Coq Require Import String.
From Coq Require Import ZArith List Bool.
Import ListNotations.
From PV.Model Require Import SymMatrix.
From PV.Gen Require Import SymMatrixCode.
From PV.Props Require Import C16Proofs.
Local Open Scope Z_scope.

(* the C++ index function IS the packed lower-triangle map, for every index pair of every dimension <= 46341 *)
Theorem C16_index_map : forall i j, 0 <= i < 46341 -> 0 <= j < 46341 ->
  get_symmetric_matrix_index i j = Z.max i j * (Z.max i j + 1) / 2 + Z.min i j.
Proof. exact index_spec. Qed.
Print Assumptions C16_index_map.

Theorem C16_index_in_range : forall n i j, n <= 46341 -> 0 <= i < n -> 0 <= j < n ->
  0 <= get_symmetric_matrix_index i j < n * (n + 1) / 2.
Proof. exact index_in_range. Qed.
Print Assumptions C16_index_in_range.

(* one read() of an accepted reader on ANY packed content p of length n(n+1)/2 followed by anything:
   consumes exactly p, yields n*n values with M[i][j] = p[max(max+1)/2+min] = M[j][i], every index in range *)
Theorem C16_symm_expand : forall n p rest, 0 <= n <= 46341 -> zlen p = n * (n + 1) / 2 ->
  exists M, read_one (n * (n + 1) / 2) n (p ++ rest) = Some (M, rest) /\ zlen M = n * n /\
  forall i j, 0 <= i < n -> 0 <= j < n ->
    0 <= Z.max i j * (Z.max i j + 1) / 2 + Z.min i j < zlen p /\
    nthZ OOB M (i * n + j) = nthZ OOB p (Z.max i j * (Z.max i j + 1) / 2 + Z.min i j) /\
    nthZ OOB M (i * n + j) = nthZ OOB M (j * n + i).
Proof. exact symm_expand. Qed.
Print Assumptions C16_symm_expand.

(* no packed entry is lost: every position of the packed array is the image of a (row, column) pair *)
Theorem C16_every_packed_entry_used : forall n, 0 <= n -> forall k, 0 <= k < n * (n + 1) / 2 ->
  exists i j, 0 <= j <= i /\ i < n /\ Z.max i j * (Z.max i j + 1) / 2 + Z.min i j = k.
Proof. exact pidx_surj. Qed.
Print Assumptions C16_every_packed_entry_used.

(* the constructor accepts exactly the (packed length, dimension) pairs with dim(dim+1)/2 <= flat ... *)
Theorem C16_ctor_check : forall flat dim, 0 <= flat < 4294967296 -> 0 <= dim <= 46341 ->
  (ctor_accepts flat dim = true <-> dim * (dim + 1) / 2 <= flat).
Proof. exact ctor_check. Qed.
Print Assumptions C16_ctor_check.

(* ... and an accepted reader allocates `flat` entries, fills all of them from the stream, and only ever
   indexes inside them *)
Theorem C16_ctor_safe : forall flat dim, 0 <= flat < 4294967296 -> 0 <= dim <= 46341 ->
  ctor_accepts flat dim = true ->
  let fs := ctor_member_flat_size flat dim in
  let fd := ctor_member_full_dim flat dim in
  read_alloc fs fd = flat /\ read_count fs fd = flat /\
  forall idx, In idx (read_indices fs fd) -> 0 <= idx < read_alloc fs fd.
Proof. exact ctor_safe. Qed.
Print Assumptions C16_ctor_safe.

(* beyond 46341 the `int` product overflows (undefined behaviour in C++); in the wrap-around model every such
   dimension is still rejected unless the packed length exceeds 3221250959 entries (> 25 GB of doubles) *)
Theorem C16_ctor_rejects_overflowing_dim : forall flat dim, 0 <= flat <= 3221250959 -> 46341 < dim ->
  ctor_accepts flat dim = false.
Proof. exact ctor_rejects_overflowing_dim. Qed.
Print Assumptions C16_ctor_rejects_overflowing_dim.

(* Python side: the dimension computed from a packed length n(n+1)/2 is n (sqrt over exact integers) ... *)
Theorem C16_dim_of_packed : forall n, 0 <= n -> py_full_dim (n * (n + 1) / 2) = n.
Proof. exact dim_of_packed. Qed.
Print Assumptions C16_dim_of_packed.

(* ... and for ANY packed length the factory never offers a dimension that is too large for it *)
Theorem C16_dim_never_too_large : forall flat, 0 <= flat ->
  let d := py_full_dim flat in 0 <= d /\ d * (d + 1) / 2 <= flat < (d + 1) * (d + 1 + 1) / 2.
Proof. exact dim_never_too_large. Qed.
Print Assumptions C16_dim_never_too_large.

(* factory -> reader -> reshape, for every object of a collection: the reader built by the factory for a
   member of packed length n(n+1)/2 is accepted, consecutive read() calls consume the objects' packed arrays
   in order, and reshape(-1, dim, dim) yields per object the n rows of its expanded matrix *)
Theorem C16_factory_end_to_end : forall n (ps : list (list Z)) rest, 1 <= n <= 46341 ->
  (forall p, In p ps -> zlen p = n * (n + 1) / 2) ->
  let flat := n * (n + 1) / 2 in
  let dim := py_full_dim flat in
  let cf := ctor_member_flat_size (fst (py_reader_args flat dim)) (snd (py_reader_args flat dim)) in
  let cd := ctor_member_full_dim (fst (py_reader_args flat dim)) (snd (py_reader_args flat dim)) in
  ctor_accepts (fst (py_reader_args flat dim)) (snd (py_reader_args flat dim)) = true /\
  exists raw, iter_read (read_one cf cd) (length ps) (concat ps ++ rest) = Some (raw, rest) /\
    py_content flat dim raw = Some (map (fun p => chunks (Z.to_nat n) (map (nthZ OOB p) (read_indices flat n))) ps).
Proof.
  intros n ps rest Hn Hps. split.
  - exact (proj2 (factory_args_accepted n Hn)).
  - exact (factory_end_to_end n ps rest Hn Hps).
Qed.
Print Assumptions C16_factory_end_to_end.

(* every member the property lists is registered for expansion *)
Theorem C16_target_items_cover : forall s, In s spec_items -> In s target_items.
Proof. exact target_items_cover_spec. Qed.
Print Assumptions C16_target_items_cover.

(* ---- non-vacuity: concrete evaluations of the regenerated code *)
Example C16_ex_expand3 :
  read_one 6 3 [10; 11; 12; 13; 14; 15; 99] = Some ([10; 11; 13; 11; 12; 14; 13; 14; 15], [99]).
Proof. vm_compute. reflexivity. Qed.
Example C16_ex_ctor : ctor_accepts 6 3 = true /\ ctor_accepts 5 3 = false /\ ctor_accepts 15 5 = true /\
  ctor_accepts 14 5 = false /\ ctor_accepts 28 7 = true /\ ctor_accepts 0 0 = true /\ ctor_accepts 0 1 = false.
Proof. vm_compute. repeat split; reflexivity. Qed.
Example C16_ex_dim : map py_full_dim [1; 3; 6; 15; 21; 28; 7; 1073767311] = [1; 2; 3; 5; 6; 7; 3; 46341].
Proof. vm_compute. reflexivity. Qed.
Example C16_ex_overflow_index : get_symmetric_matrix_index 0 46341 = -1073716337.
Proof. vm_compute. reflexivity. Qed.
