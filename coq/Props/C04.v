(* C04 — Raw reads depend only on content and selection, and always terminate.   Statements only.

   Model: PV.Model.RawReader (mirror of raw_io.py RawBinaryReader.arrays / concatenate) over PV.Model.RawParser.
   The thread pool is ANY completion order [sched n] (a permutation of the n submitted tasks) gathered in submission
   order.  The batch loop exists in two variants [lfix]: false = the originally pinned tree, true = the repair (committed to /repo as b37e1e6 + 17ed0bd)
   proposed_fixes/C04_raw_reader_batch_loop.diff (leave the loop when a batch reads 0 blocks); which one mirrors the
   working tree is decided on every run by the correspondence.
   Outcome: batch size, completion order, selection, re-reading and concatenation hold for both variants; "first n
   blocks" holds for 1 <= n <= N; for n > N the pinned loop never returns (C04_first_n_beyond_never_terminates) so the
   property is REFUTED there and termination holds exactly under the guard n_blocks = -1 or 0 <= n_blocks <= N
   (C04_arrays_terminates_guarded); the repaired loop returns the whole file (C04_first_n_beyond_whole_file) and
   always terminates (C04_arrays_terminates). *)
From Coq Require Import ZArith List Bool Permutation Lia.
From PV.Model Require Import RawFormat RawParser RawReader.
From PV.Props Require Import C03Proofs C03Wf C03Reader C04Proofs.
Import ListNotations.
Local Open Scope Z_scope.

(* every batch size >= 1 gives the same array *)
Theorem C04_batch_independent : forall f, wf_file f -> f_blocks f <> [] ->
  forall chk lfix sched dets pb1 pb2, 1 <= pb1 -> 1 <= pb2 -> (forall n, Permutation (sched n) (seq 0 n)) ->
  arrays_gen chk lfix (reader_fuel (enc_file f)) (enc_file f) (-1) pb1 (map Some dets) sched =
  arrays_gen chk lfix (reader_fuel (enc_file f)) (enc_file f) (-1) pb2 (map Some dets) sched.
Proof.
  intros f Hwf Hne chk lfix sched dets pb1 pb2 H1 H2 Hs.
  rewrite (arrays_all f Hwf lfix pb1 H1 sched Hs chk _ dets Hne (blocks_lt_reader_fuel f Hwf)).
  rewrite (arrays_all f Hwf lfix pb2 H2 sched Hs chk _ dets Hne (blocks_lt_reader_fuel f Hwf)). reflexivity.
Qed.
Print Assumptions C04_batch_independent.

(* every completion order of the decoding threads (hence every max_workers >= 1) gives the same array *)
Theorem C04_schedule_independent : forall f, wf_file f -> f_blocks f <> [] ->
  forall chk lfix dets pb sched1 sched2, 1 <= pb ->
  (forall n, Permutation (sched1 n) (seq 0 n)) -> (forall n, Permutation (sched2 n) (seq 0 n)) ->
  arrays_gen chk lfix (reader_fuel (enc_file f)) (enc_file f) (-1) pb (map Some dets) sched1 =
  arrays_gen chk lfix (reader_fuel (enc_file f)) (enc_file f) (-1) pb (map Some dets) sched2.
Proof.
  intros f Hwf Hne chk lfix dets pb s1 s2 Hpb H1 H2.
  rewrite (arrays_all f Hwf lfix pb Hpb s1 H1 chk _ dets Hne (blocks_lt_reader_fuel f Hwf)).
  rewrite (arrays_all f Hwf lfix pb Hpb s2 H2 chk _ dets Hne (blocks_lt_reader_fuel f Hwf)). reflexivity.
Qed.
Print Assumptions C04_schedule_independent.
(* the pool itself: gathering in submission order undoes any complete completion order *)
Theorem C04_pool_gathers_in_submission_order : forall (A B : Type) (task : A -> B) l order,
  Permutation order (seq 0 (length l)) -> run_pool task l order = map (fun a => Some (task a)) l.
Proof. exact run_pool_perm. Qed.
Print Assumptions C04_pool_gathers_in_submission_order.

(* the first n blocks, 1 <= n <= N: the events of the first n blocks = a prefix of the events of the full read *)
Theorem C04_first_n_blocks : forall f, wf_file f ->
  forall chk lfix pb sched dets n, 1 <= pb -> (forall k, Permutation (sched k) (seq 0 k)) ->
  1 <= n <= Z.of_nat (length (f_blocks f)) ->
  let evs_n := flat_map bk_events (firstn (Z.to_nat n) (f_blocks f)) in
  arrays_gen chk lfix (reader_fuel (enc_file f)) (enc_file f) n pb (map Some dets) sched =
    ROk (columnar (sel_of (eff_dets dets)) evs_n) /\
  evs_n = firstn (length evs_n) (file_events f).
Proof.
  intros f Hwf chk lfix pb sched dets n Hpb Hs Hn evs_n. split.
  - apply (arrays_first_n f Hwf lfix pb Hpb sched Hs chk _ dets n Hn). pose proof (blocks_lt_reader_fuel f Hwf). lia.
  - apply flat_map_firstn_prefix.
Qed.
Print Assumptions C04_first_n_blocks.

(* n larger than the number of blocks, pinned loop: NOT the whole file — the call never returns (no fuel suffices) *)
Theorem C04_first_n_beyond_never_terminates : forall f, wf_file f ->
  forall chk pb sched names n fuel, 1 <= pb -> Z.of_nat (length (f_blocks f)) < n ->
  arrays_gen chk false fuel (enc_file f) n pb names sched = ROutOfFuel.
Proof. intros f Hwf chk pb sched names n fuel Hpb Hn. apply arrays_beyond_never_terminates; solve [assumption|reflexivity]. Qed.
Print Assumptions C04_first_n_beyond_never_terminates.
(* ... repaired loop: the whole file, as the property demands *)
Theorem C04_first_n_beyond_whole_file : forall f, wf_file f ->
  forall chk pb sched dets n, 1 <= pb -> (forall k, Permutation (sched k) (seq 0 k)) -> Z.of_nat (length (f_blocks f)) < n ->
  arrays_gen chk true (reader_fuel (enc_file f)) (enc_file f) n pb (map Some dets) sched =
  ROk (columnar (sel_of (eff_dets dets)) (file_events f)).
Proof.
  intros f Hwf chk pb sched dets n Hpb Hs Hn.
  apply arrays_beyond_fixed; try assumption; [reflexivity|apply blocks_lt_reader_fuel; exact Hwf].
Qed.
Print Assumptions C04_first_n_beyond_whole_file.

(* selecting sub-detectors returns exactly those fields of the full read (all six selected) *)
Theorem C04_selection_projects : forall f, wf_file f -> f_blocks f <> [] ->
  forall chk lfix pb sched dets, 1 <= pb -> (forall n, Permutation (sched n) (seq 0 n)) ->
  exists full,
    arrays_gen chk lfix (reader_fuel (enc_file f)) (enc_file f) (-1) pb (map Some [Mdc; Tof; Emc; Muc; Trg; Ef]) sched = ROk full /\
    arrays_gen chk lfix (reader_fuel (enc_file f)) (enc_file f) (-1) pb (map Some dets) sched = ROk (project (sel_of (eff_dets dets)) full).
Proof.
  intros f Hwf Hne chk lfix pb sched dets Hpb Hs. eexists. split.
  - apply (arrays_all f Hwf lfix pb Hpb sched Hs chk _ [Mdc; Tof; Emc; Muc; Trg; Ef] Hne (blocks_lt_reader_fuel f Hwf)).
  - rewrite (arrays_all f Hwf lfix pb Hpb sched Hs chk _ dets Hne (blocks_lt_reader_fuel f Hwf)). f_equal.
    rewrite columnar_project.
    replace (columnar (sel_of (eff_dets [Mdc; Tof; Emc; Muc; Trg; Ef])) (file_events f)) with (columnar (fun _ => true) (file_events f));
      [reflexivity|]. apply columnar_ext. intros d. symmetry. apply sel_of_all.
Qed.
Print Assumptions C04_selection_projects.

(* reading the same reader again: arrays() starts with _reset_cursor(), the result does not depend on where an earlier
   call left the file position *)
Theorem C04_reread_same : forall chk lfix fuel fw st c1 c2 nb pb names sched,
  arrays_from chk lfix fuel fw st c1 nb pb names sched = arrays_from chk lfix fuel fw st c2 nb pb names sched.
Proof. reflexivity. Qed.
Print Assumptions C04_reread_same.

(* concatenate_raw: the events of all files in order *)
Theorem C04_concatenate_raw : forall fs, fs <> [] -> Forall (fun f => wf_file f /\ f_blocks f <> []) fs ->
  forall chk lfix pb dets, 1 <= pb ->
  concatenate_gen chk lfix (map enc_file fs) pb (map Some dets) = ROk (columnar (sel_of (eff_dets dets)) (flat_map file_events fs)).
Proof. intros fs Hne Hwf chk lfix pb dets Hpb. apply concatenate_files; assumption. Qed.
Print Assumptions C04_concatenate_raw.
(* ak.concatenate re-bases offsets: concatenating the columns of two event lists = the columns of the appended list *)
Theorem C04_concatenate_rebases_offsets : forall sel a b,
  concat_result (columnar sel a) (columnar sel b) = columnar sel (a ++ b).
Proof. exact concat_columnar. Qed.
Print Assumptions C04_concatenate_rebases_offsets.

(* concatenate_raw(<pattern>): whatever order the directory lists the matching files in, the same array comes back (the reader
   sorts the listing by name; distinct files have distinct names), and it is the files in name order *)
Theorem C04_pattern_listing_order_irrelevant : forall chk lfix l1 l2 pb names, Permutation l1 l2 -> NoDup (map fst l1) ->
  concatenate_pattern chk lfix l1 pb names = concatenate_pattern chk lfix l2 pb names.
Proof. exact concatenate_pattern_listing_order. Qed.
Print Assumptions C04_pattern_listing_order_irrelevant.
Theorem C04_pattern_reads_in_name_order : forall chk lfix listing pb names,
  concatenate_pattern chk lfix listing pb names = concatenate_gen chk lfix (map snd (sort_by_name listing)) pb names /\
  Sorted.StronglySorted name_le (sort_by_name listing) /\ Permutation (sort_by_name listing) listing.
Proof. intros. split; [reflexivity|apply concatenate_pattern_name_order]. Qed.
Print Assumptions C04_pattern_reads_in_name_order.
(* a single name that IS a file: that file's events, whatever the pattern reading of the name would match *)
Theorem C04_existing_name_is_literal : forall chk lfix fw l1 l2 pb names,
  concatenate_name chk lfix (Some fw) l1 pb names = concatenate_name chk lfix (Some fw) l2 pb names /\
  concatenate_name chk lfix (Some fw) l1 pb names = concatenate_gen chk lfix [fw] pb names.
Proof. intros. split; reflexivity. Qed.
Print Assumptions C04_existing_name_is_literal.
Example C04_pattern_example :
  map fst (sort_by_name [(5, [1]); (2, [2]); (9, [3]); (3, [4])]) = [2; 3; 5; 9] /\
  sort_by_name [(5, [1]); (2, [2]); (9, [3]); (3, [4])] = sort_by_name [(9, [3]); (3, [4]); (2, [2]); (5, [1])].
Proof. split; vm_compute; reflexivity. Qed.
Print Assumptions C04_pattern_example.

(* termination, pinned loop: exactly under the guard n_blocks = -1 or 0 <= n_blocks <= N, fuel N + 2 is enough *)
Theorem C04_arrays_terminates_guarded : forall f chk pb sched dets nb fuel,
  wf_file f -> 1 <= pb -> (forall n, Permutation (sched n) (seq 0 n)) ->
  nb = -1 \/ 0 <= nb <= Z.of_nat (length (f_blocks f)) ->
  (length (f_blocks f) + 1 < fuel)%nat ->
  arrays_gen chk false fuel (enc_file f) nb pb (map Some dets) sched <> ROutOfFuel.
Proof. exact arrays_terminates_guarded. Qed.
Print Assumptions C04_arrays_terminates_guarded.
Theorem C04_arrays_terminates_refuted : exists f nb pb, wf_file f /\ 1 <= pb /\
  forall fuel, arrays_gen false false fuel (enc_file f) nb pb [] in_order = ROutOfFuel.
Proof. exists ex_file, 3, 1000. split; [apply wf_fileb_ok; vm_compute; reflexivity|]. split; [discriminate|exact ex_never_ends]. Qed.
Print Assumptions C04_arrays_terminates_refuted.
(* termination, repaired loop: every call (n_blocks >= -1) terminates with fuel N + 2 *)
Theorem C04_arrays_terminates : forall f chk pb sched dets nb fuel,
  wf_file f -> 1 <= pb -> (forall n, Permutation (sched n) (seq 0 n)) -> -1 <= nb ->
  (length (f_blocks f) + 1 < fuel)%nat ->
  arrays_gen chk true fuel (enc_file f) nb pb (map Some dets) sched <> ROutOfFuel.
Proof. exact arrays_terminates_fixed. Qed.
Print Assumptions C04_arrays_terminates.

(* non-vacuity: the 2-block example file read with batch size 1 in reversed completion order, with batch size 1000,
   and block-limited *)
Example C04_example :
  arrays_gen false false 50 (enc_file ex_file) (-1) 1 [Some Emc] (fun n => rev (seq 0 n)) =
  arrays_gen false false 50 (enc_file ex_file) (-1) 1000 [Some Emc] in_order /\
  arrays_gen false true 50 (enc_file ex_file) 7 1 [Some Emc] in_order =
  arrays_gen false false 50 (enc_file ex_file) (-1) 1000 [Some Emc] in_order /\
  arrays_gen false false 50 (enc_file ex_file) 1 1 [Some Emc] in_order =
  ROk {| r_hdr := [[100; 0; 77; 0; 1; 2; 3; 4294967295]]; r_dets := [(Emc, {| offsets := [0; 1]; rows := [[77; 5; 291; 2]] |})] |}.
Proof. repeat split; vm_compute; reflexivity. Qed.
Print Assumptions C04_example.
