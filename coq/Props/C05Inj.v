From Coq Require Import ZArith Lia Bool ZifyBool List.
Import ListNotations.
From PV.Lib Require Import Bits BitTac.
From PV.Gen Require Import DigiId.
From PV.Props Require Import C05Proofs.
Local Open Scope Z_scope.
Ltac Zify.zify_post_hook ::= Z.to_euclidean_division_equations.

(* Without loss: two in-range field tuples with the same identifier are the same tuple (corollaries of the round trips). *)
Lemma mdc_encode_injective wire layer wt wire' layer' wt' :
  0 <= wire < 512 -> 0 <= layer < 64 -> 0 <= wt < 2 -> 0 <= wire' < 512 -> 0 <= layer' < 64 -> 0 <= wt' < 2 ->
  get_mdc_digi_id wire layer wt = get_mdc_digi_id wire' layer' wt' -> wire = wire' /\ layer = layer' /\ wt = wt'.
Proof. intros H1 H2 H3 H1' H2' H3' E.
  destruct (mdc_decode_encode wire layer wt) as (A & B & C & _).
  destruct (mdc_decode_encode wire' layer' wt') as (A' & B' & C' & _).
  cbv zeta in *. rewrite E in A, B, C. rewrite A in A'. rewrite B in B'. rewrite C in C'.
  rewrite !Z.mod_small in A', B' by lia. repeat split; lia. Qed.

Lemma emc_encode_injective m t p m' t' p' :
  0 <= m < 16 -> 0 <= t < 64 -> 0 <= p < 256 -> 0 <= m' < 16 -> 0 <= t' < 64 -> 0 <= p' < 256 ->
  get_emc_digi_id m t p = get_emc_digi_id m' t' p' -> m = m' /\ t = t' /\ p = p'.
Proof. intros H1 H2 H3 H1' H2' H3' E.
  destruct (emc_decode_encode m t p) as (A & B & C & _).
  destruct (emc_decode_encode m' t' p') as (A' & B' & C' & _).
  cbv zeta in *. rewrite E in A, B, C. rewrite A in A'. rewrite B in B'. rewrite C in C'.
  rewrite !Z.mod_small in A', B', C' by lia. repeat split; lia. Qed.

Lemma muc_encode_injective p s l c p' s' l' c' :
  0 <= p < 16 -> 0 <= s < 16 -> 0 <= l < 16 -> 0 <= c < 256 -> 0 <= p' < 16 -> 0 <= s' < 16 -> 0 <= l' < 16 -> 0 <= c' < 256 ->
  get_muc_digi_id p s l c = get_muc_digi_id p' s' l' c' -> p = p' /\ s = s' /\ l = l' /\ c = c'.
Proof. intros H1 H2 H3 H4 H1' H2' H3' H4' E.
  destruct (muc_decode_encode p s l c) as (A & B & C & D & _).
  destruct (muc_decode_encode p' s' l' c') as (A' & B' & C' & D' & _).
  cbv zeta in *. rewrite E in A, B, C, D. rewrite A in A'. rewrite B in B'. rewrite C in C'. rewrite D in D'.
  rewrite !Z.mod_small in A', B', C', D' by lia. repeat split; lia. Qed.

Lemma cgem_encode_injective l sh st f l' sh' st' f' :
  0 <= l < 8 -> 0 <= sh < 8 -> 0 <= st < 4096 -> 0 <= f < 2 -> 0 <= l' < 8 -> 0 <= sh' < 8 -> 0 <= st' < 4096 -> 0 <= f' < 2 ->
  get_cgem_digi_id l sh st f = get_cgem_digi_id l' sh' st' f' -> l = l' /\ sh = sh' /\ st = st' /\ f = f'.
Proof. intros H1 H2 H3 H4 H1' H2' H3' H4' E.
  destruct (cgem_decode_encode l sh st f) as (A & B & C & D & _).
  destruct (cgem_decode_encode l' sh' st' f') as (A' & B' & C' & D' & _).
  cbv zeta in *. rewrite E in A, B, C, D. rewrite A in A'. rewrite B in B'. rewrite C in C'. rewrite D in D'.
  rewrite !Z.mod_small in A', B', C' by lia. repeat split; lia. Qed.

Lemma tof_scint_encode_injective part l p e part' l' p' e' :
  0 <= part < 3 -> 0 <= l < 2 -> 0 <= p < 128 -> 0 <= e < 2 -> 0 <= part' < 3 -> 0 <= l' < 2 -> 0 <= p' < 128 -> 0 <= e' < 2 ->
  get_tof_digi_id part l p e = get_tof_digi_id part' l' p' e' -> part = part' /\ l = l' /\ p = p' /\ e = e'.
Proof. intros H1 H2 H3 H4 H1' H2' H3' H4' E.
  destruct (tof_scint_decode_encode part l p e) as (A & B & _ & C & _ & D & _); [lia|].
  destruct (tof_scint_decode_encode part' l' p' e') as (A' & B' & _ & C' & _ & D' & _); [lia|].
  cbv zeta in *. rewrite E in A, B, C, D. rewrite A in A'. rewrite B in B'. rewrite C in C'. rewrite D in D'.
  rewrite !Z.mod_small in B', C', D' by lia. repeat split; lia. Qed.

Lemma tof_mrpc_encode_injective part l p e part' l' p' e' :
  3 <= part < 5 -> 0 <= l < 64 -> 0 <= p < 16 -> 0 <= e < 2 -> 3 <= part' < 5 -> 0 <= l' < 64 -> 0 <= p' < 16 -> 0 <= e' < 2 ->
  get_tof_digi_id part l p e = get_tof_digi_id part' l' p' e' -> part = part' /\ l = l' /\ p = p' /\ e = e'.
Proof. intros H1 H2 H3 H4 H1' H2' H3' H4' E.
  destruct (tof_mrpc_decode_encode part l p e) as (A & B & _ & C & _ & D & _); [lia|].
  destruct (tof_mrpc_decode_encode part' l' p' e') as (A' & B' & _ & C' & _ & D' & _); [lia|].
  cbv zeta in *. rewrite E in A, B, C, D. rewrite A in A'. rewrite B in B'. rewrite C in C'. rewrite D in D'.
  rewrite !Z.mod_small in B', C', D' by lia. repeat split; lia. Qed.

(* a scintillator identifier never equals an MRPC identifier *)
Lemma tof_scint_mrpc_disjoint part l p e part' l' p' e' : 0 <= part < 3 -> 3 <= part' ->
  get_tof_digi_id part l p e <> get_tof_digi_id part' l' p' e'.
Proof. intros H1 H2 E.
  destruct (tof_scint_decode_encode part l p e) as (A & _); [lia|].
  destruct (tof_mrpc_decode_encode part' l' p' e') as (A' & _); [lia|].
  cbv zeta in *. rewrite E in A. lia. Qed.

(* identifiers of different detectors never collide: the tag decides, whatever the arguments *)
Lemma only_tag_distinct t t' w w' : only_tag t w -> only_tag t' w' ->
  In t [16; 32; 48; 64; 96]%list -> In t' [16; 32; 48; 64; 96]%list -> t <> t' -> w <> w'.
Proof. unfold only_tag. intros (A1 & A2 & A3 & A4 & A5) (B1 & B2 & B3 & B4 & B5) Ht Ht' Hne E. subst w'.
  rewrite A1 in B1. rewrite A2 in B2. rewrite A3 in B3. rewrite A4 in B4. rewrite A5 in B5.
  cbn [In] in Ht, Ht'. lia. Qed.
