(* C02 — proofs: reads are invariant under entry ranges, chunking and basket layout (models PV.Model.AwkList/BasketRead). *)
From Coq Require Import String ZArith Lia Bool List.
Import ListNotations.
From PV.Model Require Import AwkList BasketRead.
Local Open Scope Z_scope.

Definition U32 : Z := 4294967296.

(* ------------------------------------------------------------------------------------------------ *)
Section TObjArray.
  Context {Ev El : Type}.
  Variable dec : Ev -> list El.

  (* the full read: one reader over the whole event stream (what a one-basket branch gives) *)
  Definition full_read (evs : list Ev) : loa El := read_basket dec evs.

  Lemma full_read_lists evs : n_elems dec evs < U32 -> to_lists (full_read evs) = map dec evs.
  Proof. intros H. unfold full_read. rewrite read_basket_canonical by exact H. apply to_lists_of_lists. Qed.

  Lemma baskets_canonical (bs : list (list Ev)) :
    n_elems dec (concat bs) < U32 -> map (read_basket dec) bs = map (@of_lists El) (map (map dec) bs).
  Proof.
    intros H. rewrite map_map. apply map_ext_in. intros bk Hbk. apply read_basket_canonical.
    pose proof (n_elems_concat_le dec bs bk Hbk). unfold U32 in H. lia.
  Qed.

  (* decoding basket by basket (offsets restart at 0) and concatenating with re-basing = decoding the whole stream *)
  Theorem decode_concat (bs : list (list Ev)) :
    bs <> [] -> n_elems dec (concat bs) < U32 ->
    loa_concat_list (map (read_basket dec) bs) = Some (read_basket dec (concat bs)).
  Proof.
    intros Hne H. rewrite baskets_canonical by exact H.
    rewrite loa_concat_list_of_lists by (destruct bs; [congruence|discriminate]).
    rewrite <- concat_map. rewrite read_basket_canonical by exact H. reflexivity.
  Qed.

  (* every non-empty interval of every basket partition is the slice of the full read *)
  Theorem final_array_slice (bs : list (list Ev)) (a b : nat) :
    n_elems dec (concat bs) < U32 -> (a < b <= length (concat bs))%nat ->
    exists x, read_range dec bs a b = Some x /\
              to_lists x = firstn (b - a) (skipn a (to_lists (full_read (concat bs)))).
  Proof.
    intros H Hab. destruct (read_range_spec dec bs (a := a) (b := b) H Hab) as (x & E & T).
    exists x. split; [exact E|]. rewrite full_read_lists by exact H. exact T.
  Qed.

  (* the result does not depend on how the events are distributed over baskets *)
  Theorem basket_layout_independent (bs1 bs2 : list (list Ev)) (a b : nat) :
    concat bs1 = concat bs2 -> n_elems dec (concat bs1) < U32 -> (a < b <= length (concat bs1))%nat ->
    exists x1 x2, read_range dec bs1 a b = Some x1 /\ read_range dec bs2 a b = Some x2 /\ to_lists x1 = to_lists x2.
  Proof.
    intros E H Hab.
    destruct (final_array_slice bs1 a b H Hab) as (x1 & E1 & T1).
    rewrite E in H, Hab. destruct (final_array_slice bs2 a b H Hab) as (x2 & E2 & T2).
    exists x1, x2. repeat split; auto. rewrite T1, T2, E. reflexivity.
  Qed.

  (* TTree.iterate(step_size): the chunks, in order, concatenate to the full read — for every step size >= 1 *)
  Theorem chunks_concat (bs : list (list Ev)) (step : nat) :
    n_elems dec (concat bs) < U32 -> (1 <= step)%nat ->
    exists xs, mapM (fun r => read_range dec bs (fst r) (snd r)) (iterate_ranges step (length (concat bs))) = Some xs /\
               concat (map (@to_lists El) xs) = to_lists (full_read (concat bs)).
  Proof.
    intros H Hstep. rewrite full_read_lists by exact H.
    pose proof (@iterate_ranges_valid step (length (concat bs)) Hstep) as Hv.
    assert (Hslices : concat (map (fun r => slice (fst r) (snd r) (map dec (concat bs)))
                                  (iterate_ranges step (length (concat bs)))) = map dec (concat bs)).
    { unfold iterate_ranges.
      pose proof (@slices_of_ranges _ (map dec (concat bs)) step Hstep (length (concat bs)) 0%nat) as S.
      rewrite map_length in S. rewrite S by lia. reflexivity. }
    assert (G : forall rs, Forall (fun r => (fst r < snd r <= length (concat bs))%nat) rs ->
              exists xs, mapM (fun r => read_range dec bs (fst r) (snd r)) rs = Some xs /\
                         map (@to_lists El) xs = map (fun r => slice (fst r) (snd r) (map dec (concat bs))) rs).
    { clear -H. induction rs as [|r rs IH]; intros Hv; [exists []; split; reflexivity|].
      inversion Hv as [|? ? Hr Hrs]; subst.
      destruct (IH Hrs) as (xs & E & M).
      destruct (read_range_spec dec bs (a := fst r) (b := snd r) H Hr) as (x & Ex & Tx).
      exists (x :: xs). simpl. rewrite Ex, E. split; [reflexivity|]. rewrite Tx, M. reflexivity. }
    destruct (G _ Hv) as (xs & E & M). exists xs. split; [exact E|].
    rewrite M. exact Hslices.
  Qed.

  (* uproot.concatenate over an ordered list of files: the full reads, concatenated, are the decoding of all events in order *)
  Theorem files_concat (files : list (list (list Ev))) :
    Forall (fun bs => n_elems dec (concat bs) < U32 /\ (0 < length (concat bs))%nat) files ->
    exists xs, mapM (fun bs => read_range dec bs 0 (length (concat bs))) files = Some xs /\
               concat (map (@to_lists El) xs) = map dec (concat (map (@concat Ev) files)) /\
               Forall2 (fun bs x => to_lists x = to_lists (full_read (concat bs))) files xs.
  Proof.
    induction files as [|bs r IH]; intros Hf.
    - exists []. repeat split; constructor.
    - inversion Hf as [|? ? [Hb Hn] Hr]; subst. destruct (IH Hr) as (xs & E & C & F).
      destruct (read_range_spec dec bs (a := 0%nat) (b := length (concat bs)) Hb ltac:(lia)) as (x & Ex & Tx).
      exists (x :: xs). simpl. rewrite Ex, E. split; [reflexivity|]. split.
      + rewrite C, Tx, map_app. f_equal. rewrite <- (map_length dec (concat bs)). apply slice_all.
      + constructor; [|exact F]. rewrite Tx, full_read_lists by exact Hb.
        rewrite <- (map_length dec (concat bs)). apply slice_all.
  Qed.

  (* Bes3Interpretation.final_array applies the (column-wise = element-wise) post-processing AFTER trimming;
     that is the same as trimming the post-processed full read *)
  Theorem postprocess_commutes_with_slice {El2} (g : El -> El2) (bs : list (list Ev)) (a b : nat) :
    n_elems dec (concat bs) < U32 -> (a < b <= length (concat bs))%nat ->
    let offsets := entry_offsets (map (@length Ev) bs) in
    exists y, bes3_final_array (loa_map g) (basket_dict (map (read_basket dec) bs) offsets (Z.of_nat a) (Z.of_nat b))
                               (Z.of_nat a) (Z.of_nat b) offsets = Some y /\
              to_lists y = firstn (b - a) (skipn a (to_lists (loa_map g (full_read (concat bs))))) /\
              to_lists y = map (map g) (firstn (b - a) (skipn a (to_lists (full_read (concat bs))))).
  Proof.
    intros H Hab offsets. destruct (final_array_slice bs a b H Hab) as (x & E & T).
    unfold read_range in E. fold offsets in E. unfold bes3_final_array. rewrite E. simpl.
    exists (loa_map g x). split; [reflexivity|]. rewrite !to_lists_map, T. split; [|reflexivity].
    rewrite <- firstn_map, <- skipn_map. reflexivity.
  Qed.
End TObjArray.

(* reading a subset of the branches gives the same columns as reading all of them *)
Theorem branch_subset_same_columns {B V} (read : B -> V) (want : string -> bool) (tree : list (string * B)) k :
  want k = true -> assoc k (tree_arrays read want tree) = assoc k (tree_arrays read (fun _ => true) tree).
Proof.
  intros Hk. unfold assoc, tree_arrays. f_equal.
  induction tree as [|[k' b] r IH]; [reflexivity|]. simpl.
  destruct (want k') eqn:W; simpl.
  - destruct (String.eqb k k'); [reflexivity|exact IH].
  - destruct (String.eqb k k') eqn:E; [|exact IH].
    apply String.eqb_eq in E. subst. congruence.
Qed.

(* ------------------------------------------------------------------------------------------------ *)
(** * The CGEM cluster reader *)

Definition has_cl (evs : list (list cluster)) : bool := match concat evs with [] => false | _ => true end.
Definition ver_of (nb : Z) : Z := if nb =? 96 then 0 else 1.
(* the flag the reader's data() ends up with after a basket: m_recPositionY present iff a cluster of version 0 was seen *)
Definition cg_flag (nb : Z) (evs : list (list cluster)) : bool := has_cl evs && (nb =? 96).
Definition mkrow (hy : bool) (c : cluster) : crow := (c_common c, if hy then Some (c_y c) else None).

Definition homogeneous (nb : Z) (evs : list (list cluster)) : Prop :=
  Forall (Forall (fun c => c_nbytes c = nb)) evs.

Definition cg_state (nb : Z) (acc : list (list cluster)) : cgstate :=
  let v := if has_cl acc then ver_of nb else -1 in
  mkCg v (psums (lens acc)) (map c_common (concat acc)) (if v =? 0 then map c_y (concat acc) else []).

Lemma cg_clusters_step nb (Hnb : nb = 96 \/ nb = 88) cs : Forall (fun c => c_nbytes c = nb) cs ->
  forall v0 o rows ys, (v0 = -1 \/ v0 = ver_of nb) ->
  fold_left cg_read_cluster cs (Some (mkCg v0 o rows ys)) =
  let v1 := match cs with [] => v0 | _ => ver_of nb end in
  Some (mkCg v1 o (rows ++ map c_common cs) (if v1 =? 0 then ys ++ map c_y cs else ys)).
Proof.
  induction 1 as [|c r Hc Hr IH]; intros v0 o rows ys Hv; simpl.
  - rewrite app_nil_r. destruct (v0 =? 0); [rewrite app_nil_r|]; reflexivity.
  - assert (Ever : (if v0 =? -1 then (if c_nbytes c =? 96 then Some 0 else if c_nbytes c =? 88 then Some 1 else None)
                    else Some v0) = Some (ver_of nb)).
    { rewrite Hc. unfold ver_of. destruct Hv as [->| ->].
      - simpl. destruct Hnb as [->| ->]; reflexivity.
      - destruct Hnb as [->| ->]; reflexivity. }
    rewrite Ever.
    rewrite IH by (right; reflexivity).
    assert (E : match r with [] => ver_of nb | _ :: _ => ver_of nb end = ver_of nb) by (destruct r; reflexivity).
    cbv zeta. rewrite E. rewrite <- !app_assoc. simpl.
    destruct (ver_of nb =? 0); [rewrite <- app_assoc|]; reflexivity.
Qed.

Lemma has_cl_app acc ev : has_cl (acc ++ [ev]) = has_cl acc || (match ev with [] => false | _ => true end).
Proof.
  unfold has_cl. rewrite concat_app. simpl. rewrite app_nil_r.
  destruct (concat acc); simpl; [destruct ev; reflexivity|reflexivity].
Qed.

Lemma cg_event_step nb (Hnb : nb = 96 \/ nb = 88) acc ev :
  Forall (fun c => c_nbytes c = nb) ev -> zsum (lens (acc ++ [ev])) < U32 ->
  cg_read_event (Some (cg_state nb acc)) ev = Some (cg_state nb (acc ++ [ev])).
Proof.
  intros Hev Hb. unfold cg_read_event.
  change (g_offs (cg_state nb acc)) with (psums (lens acc)).
  change (g_ver (cg_state nb acc)) with (if has_cl acc then ver_of nb else -1).
  change (g_rows (cg_state nb acc)) with (map c_common (concat acc)).
  change (g_ys (cg_state nb acc)) with (if (if has_cl acc then ver_of nb else -1) =? 0 then map c_y (concat acc) else []).
  rewrite last_psums.
  assert (Ha : 0 <= zsum (lens acc)) by apply zsum_lens_nonneg.
  rewrite lens_app, zsum_app in Hb. simpl in Hb.
  unfold wrap32. rewrite Z.mod_small by (unfold U32 in Hb; lia).
  rewrite (cg_clusters_step nb Hnb ev Hev) by (destruct (has_cl acc); [right|left]; reflexivity).
  cbv zeta. unfold cg_state. rewrite has_cl_app.
  rewrite lens_app. simpl lens. rewrite psums_snoc.
  rewrite concat_app. simpl concat. rewrite app_nil_r. rewrite !map_app.
  destruct (has_cl acc) eqn:Hc; simpl orb.
  - assert (E : match ev with [] => ver_of nb | _ :: _ => ver_of nb end = ver_of nb) by (destruct ev; reflexivity).
    rewrite E. destruct (ver_of nb =? 0); reflexivity.
  - assert (Hnil : concat acc = []) by (unfold has_cl in Hc; destruct (concat acc); [reflexivity|discriminate]).
    rewrite Hnil. simpl. destruct ev as [|c r]; simpl.
    + reflexivity.
    + destruct (ver_of nb =? 0); reflexivity.
Qed.

Lemma cg_fold nb (Hnb : nb = 96 \/ nb = 88) evs : forall acc,
  homogeneous nb evs -> zsum (lens (acc ++ evs)) < U32 ->
  fold_left cg_read_event evs (Some (cg_state nb acc)) = Some (cg_state nb (acc ++ evs)).
Proof.
  induction evs as [|ev r IH]; intros acc Hh Hb; cbn [fold_left].
  - rewrite app_nil_r. reflexivity.
  - inversion Hh as [|? ? Hev Hr]; subst.
    assert (Hnn : 0 <= zsum (lens r)) by apply zsum_lens_nonneg.
    assert (E3 : acc ++ ev :: r = (acc ++ [ev]) ++ r) by (rewrite <- app_assoc; reflexivity).
    rewrite E3 in *. rewrite cg_event_step; try assumption.
    + apply IH; assumption.
    + rewrite lens_app, zsum_app in Hb. lia.
Qed.

Lemma lens_map_map A B (f : A -> B) (ls : list (list A)) : lens (map (map f) ls) = lens ls.
Proof. unfold lens. rewrite map_map. apply map_ext. intros. rewrite map_length. reflexivity. Qed.

(* a basket decodes to the canonical array of its rows, with or without m_recPositionY according to its own flag *)
Theorem cg_read_basket_canonical nb (Hnb : nb = 96 \/ nb = 88) evs :
  homogeneous nb evs -> zsum (lens evs) < U32 ->
  cg_read_basket evs = Some (mkCgArr (cg_flag nb evs) (of_lists (map (map (mkrow (cg_flag nb evs))) evs))).
Proof.
  intros Hh Hb. unfold cg_read_basket.
  change cg_init with (cg_state nb []). rewrite cg_fold by assumption. simpl app. simpl option_map.
  unfold cg_data, cg_state. cbn [g_ver g_offs g_rows g_ys].
  assert (Ef : ((if has_cl evs then ver_of nb else -1) =? 0) = cg_flag nb evs).
  { unfold cg_flag, ver_of. destruct (has_cl evs); [|reflexivity]. destruct (nb =? 96); reflexivity. }
  rewrite Ef. unfold of_lists. rewrite lens_map_map, <- concat_map.
  assert (Ec : (if cg_flag nb evs
                then map (fun ry : list Z * Z => (fst ry, Some (snd ry))) (combine (map c_common (concat evs)) (map c_y (concat evs)))
                else map (fun r : list Z => (r, @None Z)) (map c_common (concat evs)))
               = map (mkrow (cg_flag nb evs)) (concat evs)).
  { destruct (cg_flag nb evs).
    - unfold mkrow. generalize (concat evs) as cs. induction cs as [|c r IH]; simpl; [reflexivity|]. rewrite IH. reflexivity.
    - rewrite map_map. reflexivity. }
  destruct (cg_flag nb evs); rewrite Ec; reflexivity.
Qed.

Lemma homogeneous_concat nb (bs : list (list (list cluster))) : homogeneous nb (concat bs) -> Forall (homogeneous nb) bs.
Proof.
  induction bs as [|b r IH]; intros H; [constructor|]. simpl in H. unfold homogeneous in *.
  apply Forall_app in H. destruct H as [H1 H2]. constructor; auto.
Qed.

Lemma zsum_lens_basket_le A (bs : list (list (list A))) bk : In bk bs -> zsum (lens bk) <= zsum (lens (concat bs)).
Proof.
  induction bs as [|x r IH]; intros H; [destruct H|]. simpl. rewrite lens_app, zsum_app.
  destruct H as [->|H]; [pose proof (zsum_lens_nonneg (concat r)); lia|].
  specialize (IH H). pose proof (zsum_lens_nonneg x). lia.
Qed.

Lemma mapM_ext X Y (f g : X -> option Y) l : (forall x, In x l -> f x = g x) -> mapM f l = mapM g l.
Proof.
  induction l as [|x r IH]; intros H; simpl; [reflexivity|].
  rewrite (H x (or_introl eq_refl)). rewrite IH; [reflexivity|]. intros y Hy. apply H. right. exact Hy.
Qed.

Lemma final_array_ext A (f g : nat -> option (loa A)) a b offsets :
  (forall si ei i, basket_range a b offsets = Some (si, ei) -> (si <= i <= ei)%nat -> f i = g i) ->
  final_array f a b offsets = final_array g a b offsets.
Proof.
  intros H. unfold final_array. destruct (basket_range a b offsets) as [[si ei]|] eqn:E; [|reflexivity].
  rewrite (mapM_ext _ _ f g).
  - reflexivity.
  - intros i Hi. unfold py_range in Hi. apply in_seq in Hi. apply (H si ei); [reflexivity|lia].
Qed.

Lemma concat_type_repeat (hy : bool) n : cg_concat_type (repeat hy (S n)) = CgRec hy.
Proof.
  simpl. assert (E : forallb (Bool.eqb hy) (repeat hy n) = true).
  { induction n as [|n IH]; [reflexivity|]. simpl. rewrite Bool.eqb_reflx. exact IH. }
  rewrite E. reflexivity.
Qed.

Lemma mapM_const X Y (f : X -> option Y) y l : (forall x, In x l -> f x = Some y) -> mapM f l = Some (repeat y (length l)).
Proof.
  induction l as [|x r IH]; intros H; simpl; [reflexivity|].
  rewrite (H x (or_introl eq_refl)). rewrite IH; [reflexivity|]. intros z Hz. apply H. right. exact Hz.
Qed.

(* main lemma: if every basket ends up with the same flag as the whole stream, any interval of any partition is the
   slice of the full read, in type and in values *)
Lemma cg_uniform nb (Hnb : nb = 96 \/ nb = 88) (bs : list (list (list cluster))) (a b : nat) :
  homogeneous nb (concat bs) -> zsum (lens (concat bs)) < U32 -> (a < b <= length (concat bs))%nat ->
  Forall (fun bk => cg_flag nb bk = cg_flag nb (concat bs)) bs ->
  exists x full, cg_read_range bs a b = Some (CgRec (cg_has_y full), x) /\
                 cg_read_basket (concat bs) = Some full /\
                 to_lists x = firstn (b - a) (skipn a (to_lists (cg_arr full))).
Proof.
  intros Hh Hb Hab Hu. set (hy := cg_flag nb (concat bs)).
  rewrite (cg_read_basket_canonical nb Hnb (concat bs) Hh Hb). fold hy.
  set (lss := map (map (map (mkrow hy))) bs).
  assert (Hlen : map (@length (list crow)) lss = map (@length (list cluster)) bs).
  { unfold lss. rewrite map_map. apply map_ext. intros. apply map_length. }
  assert (Hcat : concat lss = map (map (mkrow hy)) (concat bs)) by (unfold lss; rewrite concat_map; reflexivity).
  destruct (read_canonical_spec lss (a := a) (b := b)) as (x & si & ei & Ex & Tx & Er & Hse & _).
  { rewrite Hcat, map_length. exact Hab. }
  unfold read_canonical in Ex. cbv zeta in Ex. rewrite Hlen in Ex, Er.
  assert (Hsz : nsum (map (@length (list cluster)) bs) = length (concat bs)) by apply nsum_concat_lengths.
  assert (Hll : length lss = length bs) by (unfold lss; apply map_length).
  (* what the dictionary of decoded baskets holds on the requested range *)
  assert (Hdict : forall i, (si <= i <= ei)%nat ->
     (if loaded (entry_offsets (map (@length (list cluster)) bs)) (Z.of_nat a) (Z.of_nat b) i
      then match nth_error bs i with Some bk => cg_read_basket bk | None => None end else None)
     = Some (mkCgArr hy (nth i (map (@of_lists crow) lss) (of_lists [])))).
  { intros i Hi.
    rewrite (range_loaded (map (@length (list cluster)) bs) (a := a) (b := b) (si := si) (ei := ei)) by (try lia; exact Er).
    destruct (nth_error bs i) as [bk|] eqn:En; [|apply nth_error_None in En; lia].
    assert (Hin : In bk bs) by (eapply nth_error_In; eassumption).
    pose proof (homogeneous_concat nb bs Hh) as Hhs. rewrite Forall_forall in Hhs, Hu.
    rewrite (cg_read_basket_canonical nb Hnb bk (Hhs bk Hin)).
    2:{ pose proof (zsum_lens_basket_le _ bs bk Hin). unfold U32 in *. lia. }
    rewrite (Hu bk Hin). fold hy. do 2 f_equal.
    unfold lss. rewrite !map_map. erewrite nth_indep by (rewrite map_length; apply nth_error_Some; congruence).
    erewrite map_nth. apply nth_error_nth with (d := []) in En. rewrite En. reflexivity. }
  unfold cg_read_range. cbv zeta. rewrite Er.
  rewrite (mapM_const _ _ _ hy).
  2:{ intros i Hi. unfold py_range in Hi. apply in_seq in Hi. rewrite Hdict by lia. reflexivity. }
  erewrite final_array_ext.
  2:{ intros si' ei' i Er' Hi. rewrite Er in Er'. injection Er' as <- <-. rewrite Hdict by exact Hi. simpl. reflexivity. }
  assert (Efa : final_array (fun i => Some (nth i (map (@of_lists crow) lss) (of_lists [])))
                   (Z.of_nat a) (Z.of_nat b) (entry_offsets (map (@length (list cluster)) bs)) = Some x).
  { rewrite <- Ex. apply final_array_ext. intros si' ei' i Er' Hi. rewrite Er in Er'. injection Er' as <- <-.
    unfold basket_dict.
    rewrite (range_loaded (map (@length (list cluster)) bs) (a := a) (b := b) (si := si) (ei := ei)) by (try lia; exact Er).
    symmetry. apply nth_error_nth'. rewrite map_length. lia. }
  rewrite Efa.
  unfold py_range. rewrite seq_length. replace (ei + 1 - si)%nat with (S (ei - si)) by lia.
  rewrite concat_type_repeat.
  exists x, (mkCgArr hy (of_lists (map (map (mkrow hy)) (concat bs)))). split; [reflexivity|]. split; [reflexivity|]. simpl.
  rewrite Tx, Hcat. rewrite to_lists_of_lists. reflexivity.
Qed.

(* the guard of the positive statement: the class version without m_recPositionY, or no basket made only of empty events *)
Theorem cgem_partition_ok nb (bs : list (list (list cluster))) (a b : nat) :
  (nb = 88 \/ (nb = 96 /\ Forall (fun bk => has_cl bk = true) bs)) ->
  homogeneous nb (concat bs) -> zsum (lens (concat bs)) < U32 -> (a < b <= length (concat bs))%nat ->
  exists x full, cg_read_range bs a b = Some (CgRec (cg_has_y full), x) /\
                 cg_read_basket (concat bs) = Some full /\
                 to_lists x = firstn (b - a) (skipn a (to_lists (cg_arr full))).
Proof.
  intros G Hh Hb Hab. apply cg_uniform with (nb := nb); try assumption.
  - destruct G as [->|[-> _]]; auto.
  - destruct G as [->|[-> Hc]].
    + apply Forall_forall. intros bk _. unfold cg_flag. simpl. rewrite !andb_false_r. reflexivity.
    + rewrite Forall_forall in Hc. apply Forall_forall. intros bk Hin. unfold cg_flag. rewrite (Hc bk Hin).
      assert (Hc2 : has_cl (concat bs) = true).
      { specialize (Hc bk Hin). unfold has_cl in *. clear -Hc Hin.
        induction bs as [|x r IH]; [destruct Hin|]. simpl. rewrite concat_app.
        destruct Hin as [->|Hin]; [destruct (concat bk); [discriminate|reflexivity]|].
        specialize (IH Hin). destruct (concat x); [exact IH|reflexivity]. }
      rewrite Hc2. reflexivity.
Qed.

(* the defect: two empty events followed by three real ones (class version with m_recPositionY), stored as baskets 2+3 *)
Definition wit_cluster (k : Z) : cluster := mkCluster 96 [k; 0; 1; 2; 3; 4; 5; 6; 7; 8; 9; 10; 11; 12; 13] (100 + k).
Definition wit_events : list (list cluster) := [[]; []; [wit_cluster 1]; [wit_cluster 2; wit_cluster 3]; [wit_cluster 4]].
Definition wit_partition : list (list (list cluster)) := [firstn 2 wit_events; skipn 2 wit_events].

Definition dflt_arr : loa crow := mkLoa [] [].
Definition range_ty (r : option (cgtype * loa crow)) : cgtype := match r with Some (t, _) => t | None => CgUnion [] end.
Definition range_arr (r : option (cgtype * loa crow)) : loa crow := match r with Some (_, x) => x | None => dflt_arr end.
Definition basket_or_dflt (r : option cgarr) : cgarr := match r with Some f => f | None => mkCgArr false dflt_arr end.

Theorem cgem_partition_refuted :
  exists (bs : list (list (list cluster))) (a b : nat) ty x full,
    homogeneous 96 (concat bs) /\ (a < b <= length (concat bs))%nat /\
    cg_read_range bs a b = Some (ty, x) /\ cg_read_basket (concat bs) = Some full /\
    to_lists x = firstn (b - a) (skipn a (to_lists (cg_arr full))) /\     (* values agree ... *)
    ty <> CgRec (cg_has_y full) /\ ty = CgUnion [false; true].            (* ... the type does not *)
Proof.
  exists wit_partition, 0%nat, 5%nat.
  exists (range_ty (cg_read_range wit_partition 0 5)), (range_arr (cg_read_range wit_partition 0 5)),
         (basket_or_dflt (cg_read_basket (concat wit_partition))).
  split; [repeat constructor|]. split; [simpl; lia|].
  split; [vm_compute; reflexivity|]. split; [vm_compute; reflexivity|].
  split; [vm_compute; reflexivity|]. split; [vm_compute; discriminate|vm_compute; reflexivity].
Qed.

(* reading only the all-empty basket: the interval read has a different type than the slice of the full read *)
Theorem cgem_interval_refuted :
  exists x full, cg_read_range wit_partition 0 2 = Some (CgRec false, x) /\
                 cg_read_basket (concat wit_partition) = Some full /\ cg_has_y full = true /\
                 to_lists x = firstn 2 (to_lists (cg_arr full)).
Proof.
  exists (range_arr (cg_read_range wit_partition 0 2)), (basket_or_dflt (cg_read_basket (concat wit_partition))).
  split; [vm_compute; reflexivity|]. split; [vm_compute; reflexivity|]. split; vm_compute; reflexivity.
Qed.
