(* PV.Model.ReidGlue — hand model of pybes3.besio._reid.convert_reid_to_teid (and of the decode_reid switch of
   RawBinaryReader.arrays) on an abstract raw dict, i.e. the structure returned by the C++ read_bes_raw:

     { "evt_header": {name: array, ...},
       "mdc"/"tof"/"emc"/"muc": (offsets, {"id": array, other columns ...}),
       "trg"/"ef": (offsets, data) }

   Python dicts are association lists in insertion order (keys unique); arrays are lists of Z.
   The model is OPERATIONAL: four sequential `if key in raw_dict:` steps, each reading data_dict["id"], indexing the
   detector's table with it (numpy raises IndexError outside [0, len) for the unsigned ids -> None) and storing the
   result back under "id" (an existing key keeps its position).  The theorems at the end characterise the result
   declaratively for ALL dicts: only the id column of the four sub-detectors changes, into its table image.
   The tie to the real function is the correspondence check of tools/props/c10.py (tools/impl/c10_impl.py). *)
From Coq Require Import ZArith List Bool String Lia.
From PV.Lib Require Import Tables.
Import ListNotations.
Local Open Scope Z_scope.
Local Open Scope string_scope.
Local Arguments String.eqb : simpl never.

Definition columns := list (string * list Z).

Inductive entry :=
| Header (cols : columns)                          (* evt_header : dict of arrays *)
| Digi (offsets : list Z) (cols : columns)         (* (offsets, data_dict) of mdc/tof/emc/muc *)
| Words (offsets : list Z) (data : list Z).        (* (offsets, data) of trg/ef *)

Definition rawdict := list (string * entry).

Section Assoc.
  Context {V : Type}.
  Fixpoint lookup (k : string) (d : list (string * V)) : option V :=
    match d with
    | [] => None
    | (k', v) :: r => if String.eqb k k' then Some v else lookup k r
    end.
  (* d[k] = v for a key that is present: position kept (Python dict semantics); absent keys are never stored to here *)
  Fixpoint update (k : string) (v : V) (d : list (string * V)) : list (string * V) :=
    match d with
    | [] => []
    | (k', v') :: r => if String.eqb k k' then (k', v) :: r else (k', v') :: update k v r
    end.
  Definition keys (d : list (string * V)) : list string := map fst d.
End Assoc.

(* table[reid.astype(np.intp)] for an unsigned id array: every index must lie in [0, len table) *)
Definition take (table : list Z) (ids : list Z) : option (list Z) :=
  if forallb (in_range table) ids then Some (map (tlookup table) ids) else None.

(* one `if "<key>" in raw_dict:` block of convert_reid_to_teid; None = the Python statement raises *)
Definition step (key : string) (table : list Z) (d : rawdict) : option rawdict :=
  match lookup key d with
  | None => Some d
  | Some (Digi offs cols) =>
      match lookup "id" cols with
      | None => None                                             (* KeyError: 'id' *)
      | Some ids =>
          match take table ids with
          | None => None                                         (* IndexError *)
          | Some teid => Some (update key (Digi offs (update "id" teid cols)) d)
          end
      end
  | Some _ => None                                               (* not an (offsets, data_dict) pair *)
  end.

Definition bind {A B} (x : option A) (f : A -> option B) : option B := match x with Some a => f a | None => None end.

Record tables := { t_mdc : list Z; t_tof : list Z; t_emc : list Z; t_muc : list Z }.

Definition convert_reid_to_teid (T : tables) (d : rawdict) : option rawdict :=
  bind (step "mdc" (t_mdc T) d) (fun d1 =>
  bind (step "tof" (t_tof T) d1) (fun d2 =>
  bind (step "emc" (t_emc T) d2) (fun d3 =>
  step "muc" (t_muc T) d3))).

(* RawBinaryReader.arrays: each batch dict is converted iff decode_reid, before being turned into an array *)
Definition arrays_dicts (T : tables) (decode_reid : bool) (batches : list rawdict) : option (list rawdict) :=
  fold_right (fun d acc => bind (if decode_reid then convert_reid_to_teid T d else Some d) (fun d' =>
                            bind acc (fun r => Some (d' :: r)))) (Some []) batches.

(* ------------------------------------------------------------------------------------------------------------ *)
(* declarative description                                                                                       *)
Definition table_for (T : tables) (k : string) : option (list Z) :=
  if String.eqb k "mdc" then Some (t_mdc T) else if String.eqb k "tof" then Some (t_tof T)
  else if String.eqb k "emc" then Some (t_emc T) else if String.eqb k "muc" then Some (t_muc T) else None.

Definition image_cols (table : list Z) (cols : columns) : columns :=
  map (fun kv => if String.eqb (fst kv) "id" then (fst kv, map (tlookup table) (snd kv)) else kv) cols.

Definition image_entry (table : list Z) (e : entry) : entry :=
  match e with Digi offs cols => Digi offs (image_cols table cols) | _ => e end.

Definition image (T : tables) (d : rawdict) : rawdict :=
  map (fun ke => match table_for T (fst ke) with Some t => (fst ke, image_entry t (snd ke)) | None => ke end) d.

(* the shape read_bes_raw produces, as far as the conversion depends on it *)
Definition digi_ok (table : list Z) (e : entry) : Prop :=
  match e with
  | Digi _ cols => NoDup (keys cols) /\ exists ids, lookup "id" cols = Some ids /\ forallb (in_range table) ids = true
  | _ => False
  end.
Definition wf (T : tables) (d : rawdict) : Prop :=
  NoDup (keys d) /\ forall k e t, lookup k d = Some e -> table_for T k = Some t -> digi_ok t e.

(* ---- association-list facts ---- *)
Section AssocFacts.
  Context {V : Type}.
  Implicit Types d : list (string * V).

  Lemma keys_update k v d : keys (update k v d) = keys d.
  Proof. induction d as [|[k' v'] r IH]; simpl; [reflexivity|]. destruct (String.eqb k k'); simpl; congruence. Qed.

  Lemma lookup_update_same k v d : lookup k d <> None -> lookup k (update k v d) = Some v.
  Proof. induction d as [|[k' v'] r IH]; simpl; [congruence|]. destruct (String.eqb k k') eqn:E; simpl; rewrite E; auto. Qed.

  Lemma lookup_update_other k k' v d : k' <> k -> lookup k' (update k v d) = lookup k' d.
  Proof. intro N. induction d as [|[k2 v2] r IH]; simpl; [reflexivity|].
    destruct (String.eqb k k2) eqn:E; simpl.
    - apply String.eqb_eq in E. subst k2. destruct (String.eqb k' k) eqn:E2; [apply String.eqb_eq in E2; congruence|reflexivity].
    - rewrite IH. reflexivity. Qed.

  Lemma lookup_in k v d : lookup k d = Some v -> In k (keys d).
  Proof. induction d as [|[k' v'] r IH]; simpl; [discriminate|]. destruct (String.eqb k k') eqn:E.
    - apply String.eqb_eq in E. auto. - auto. Qed.

  (* with unique keys, update k v = pointwise replacement of the binding of k *)
  Lemma update_as_map k v d : NoDup (keys d) ->
    update k v d = map (fun kv => if String.eqb k (fst kv) then (fst kv, v) else kv) d.
  Proof. induction d as [|[k' v'] r IH]; simpl; [reflexivity|]. intro ND. inversion ND as [|? ? Hn ND']; subst.
    destruct (String.eqb k k') eqn:E.
    - f_equal. apply String.eqb_eq in E. subst k'. clear IH ND ND'. induction r as [|[k2 v2] r IH]; simpl; [reflexivity|].
      simpl in Hn. destruct (String.eqb k k2) eqn:E2; [apply String.eqb_eq in E2; subst; tauto|]. f_equal. apply IH. tauto.
    - f_equal. apply IH. exact ND'. Qed.
End AssocFacts.

Lemma take_ok table ids : forallb (in_range table) ids = true -> take table ids = Some (map (tlookup table) ids).
Proof. unfold take. intros ->. reflexivity. Qed.

Lemma image_cols_as_update table cols ids : NoDup (keys cols) -> lookup "id" cols = Some ids ->
  update "id" (map (tlookup table) ids) cols = image_cols table cols.
Proof. intros ND L. rewrite update_as_map by exact ND. unfold image_cols. apply map_ext_in. intros [k v] Hin. simpl.
  rewrite (String.eqb_sym k "id"). destruct (String.eqb "id" k) eqn:E; [|reflexivity]. apply String.eqb_eq in E. subst k.
  f_equal. f_equal.
  (* the binding of "id" is unique, so v = ids *)
  clear - ND L Hin. induction cols as [|[k2 v2] r IH]; simpl in *; [tauto|]. inversion ND as [|? ? Hn ND']; subst.
  destruct (String.eqb "id" k2) eqn:E.
  - apply String.eqb_eq in E. subst k2. inversion L; subst. destruct Hin as [H|H]; [congruence|].
    exfalso. apply Hn. change (In (fst ("id", v)) (keys r)). apply in_map. exact H.
  - destruct Hin as [H|H]; [inversion H; subst; rewrite String.eqb_refl in E; discriminate|]. apply IH; assumption. Qed.

(* one step = replacement of that key's entry by its image, everything else identical *)
Definition image1 (key : string) (table : list Z) (d : rawdict) : rawdict :=
  map (fun ke => if String.eqb key (fst ke) then (fst ke, image_entry table (snd ke)) else ke) d.

Lemma step_spec key table d : NoDup (keys d) ->
  (forall e, lookup key d = Some e -> digi_ok table e) -> step key table d = Some (image1 key table d).
Proof. intros ND W. unfold step. destruct (lookup key d) as [e|] eqn:L.
  - specialize (W e eq_refl). destruct e as [c|offs cols|o w]; simpl in W; try tauto.
    destruct W as (NDc & ids & Lid & R). rewrite Lid, (take_ok _ _ R). f_equal.
    rewrite update_as_map by exact ND. unfold image1. apply map_ext_in. intros [k e] Hin. simpl.
    destruct (String.eqb key k) eqn:E; [|reflexivity]. apply String.eqb_eq in E. subst k. f_equal.
    assert (e = Digi offs cols).
    { clear - ND L Hin. induction d as [|[k2 e2] r IH]; simpl in *; [tauto|]. inversion ND as [|? ? Hn ND']; subst.
      destruct (String.eqb key k2) eqn:E.
      - apply String.eqb_eq in E. subst k2. inversion L; subst. destruct Hin as [H|H]; [congruence|].
        exfalso. apply Hn. change (In (fst (key, e)) (keys r)). apply in_map. exact H.
      - destruct Hin as [H|H]; [inversion H; subst; rewrite String.eqb_refl in E; discriminate|]. apply IH; assumption. }
    subst e. simpl. f_equal. apply image_cols_as_update; assumption.
  - f_equal. unfold image1. rewrite <- (map_id d) at 1. apply map_ext_in. intros [k e] Hin. simpl.
    destruct (String.eqb key k) eqn:E; [|reflexivity]. apply String.eqb_eq in E. subst k. exfalso.
    clear - L Hin. induction d as [|[k2 e2] r IH]; simpl in *; [tauto|]. destruct (String.eqb key k2) eqn:E; [discriminate|].
    destruct Hin as [H|H]; [inversion H; subst; rewrite String.eqb_refl in E; discriminate|]. auto. Qed.

Lemma keys_image1 key table d : keys (image1 key table d) = keys d.
Proof. unfold image1, keys. rewrite map_map. apply map_ext. intros [k e]. simpl. destruct (String.eqb key k); reflexivity. Qed.

Lemma lookup_image1_other key table d k : k <> key -> lookup k (image1 key table d) = lookup k d.
Proof. intro N. induction d as [|[k2 e2] r IH]; simpl; [reflexivity|]. destruct (String.eqb key k2) eqn:E; simpl; rewrite IH.
  - apply String.eqb_eq in E. subst k2. destruct (String.eqb k key) eqn:E2; [apply String.eqb_eq in E2; congruence|reflexivity].
  - reflexivity. Qed.

Lemma image1_compose T d :
  image1 "muc" (t_muc T) (image1 "emc" (t_emc T) (image1 "tof" (t_tof T) (image1 "mdc" (t_mdc T) d))) = image T d.
Proof. unfold image1, image. rewrite !map_map. apply map_ext. intros [k e]. unfold table_for. simpl.
  destruct (String.eqb "mdc" k) eqn:E1.
  { apply String.eqb_eq in E1. subst k. reflexivity. }
  simpl. destruct (String.eqb "tof" k) eqn:E2.
  { apply String.eqb_eq in E2. subst k. reflexivity. }
  simpl. destruct (String.eqb "emc" k) eqn:E3.
  { apply String.eqb_eq in E3. subst k. reflexivity. }
  simpl. destruct (String.eqb "muc" k) eqn:E4.
  { apply String.eqb_eq in E4. subst k. reflexivity. }
  rewrite (String.eqb_sym k "mdc"), E1, (String.eqb_sym k "tof"), E2, (String.eqb_sym k "emc"), E3, (String.eqb_sym k "muc"), E4.
  reflexivity. Qed.

(* MAIN: for every well-formed raw dict the conversion succeeds and equals the declarative image *)
Theorem convert_is_image T d : wf T d -> convert_reid_to_teid T d = Some (image T d).
Proof.
  intros [ND W]. unfold convert_reid_to_teid.
  rewrite (step_spec "mdc" (t_mdc T) d ND) by (intros e L; apply (W "mdc" e); [exact L|reflexivity]).
  cbn [bind]. set (d1 := image1 "mdc" (t_mdc T) d).
  assert (ND1 : NoDup (keys d1)) by (unfold d1; rewrite keys_image1; exact ND).
  rewrite (step_spec "tof" (t_tof T) d1 ND1)
    by (intros e L; unfold d1 in L; rewrite lookup_image1_other in L by discriminate; apply (W "tof" e); [exact L|reflexivity]).
  cbn [bind]. set (d2 := image1 "tof" (t_tof T) d1).
  assert (ND2 : NoDup (keys d2)) by (unfold d2; rewrite keys_image1; exact ND1).
  rewrite (step_spec "emc" (t_emc T) d2 ND2)
    by (intros e L; unfold d2, d1 in L; rewrite !lookup_image1_other in L by discriminate; apply (W "emc" e); [exact L|reflexivity]).
  cbn [bind]. set (d3 := image1 "emc" (t_emc T) d2).
  assert (ND3 : NoDup (keys d3)) by (unfold d3; rewrite keys_image1; exact ND2).
  rewrite (step_spec "muc" (t_muc T) d3 ND3)
    by (intros e L; unfold d3, d2, d1 in L; rewrite !lookup_image1_other in L by discriminate; apply (W "muc" e); [exact L|reflexivity]).
  f_equal. unfold d3, d2, d1. apply image1_compose.
Qed.

(* ---- what `image` does and does not touch (read off the definition, stated for the record) ---- *)
Lemma image_keys T d : keys (image T d) = keys d.
Proof. unfold image, keys. rewrite map_map. apply map_ext. intros [k e]. simpl. destruct (table_for T k); reflexivity. Qed.

Lemma lookup_image T d k :
  lookup k (image T d) = match table_for T k with
                         | Some t => option_map (image_entry t) (lookup k d)
                         | None => lookup k d end.
Proof. induction d as [|[k2 e2] r IH]; simpl.
  - destruct (table_for T k); reflexivity.
  - destruct (String.eqb k k2) eqn:E.
    + apply String.eqb_eq in E. subst k2. destruct (table_for T k); simpl; rewrite String.eqb_refl; reflexivity.
    + destruct (table_for T k2); simpl; rewrite E; exact IH. Qed.

Lemma image_cols_keys t cols : keys (image_cols t cols) = keys cols.
Proof. unfold image_cols, keys. rewrite map_map. apply map_ext. intros [k v]. simpl. destruct (String.eqb k "id"); reflexivity. Qed.

Lemma lookup_image_cols t cols c :
  lookup c (image_cols t cols) = if String.eqb c "id" then option_map (map (tlookup t)) (lookup c cols) else lookup c cols.
Proof. induction cols as [|[k v] r IH]; simpl.
  - destruct (String.eqb c "id"); reflexivity.
  - destruct (String.eqb k "id") eqn:Ek; simpl; destruct (String.eqb c k) eqn:E; try exact IH.
    + apply String.eqb_eq in E. subst k. rewrite Ek. reflexivity.
    + apply String.eqb_eq in E. subst k. rewrite Ek. reflexivity. Qed.

Lemma arrays_no_decode T bs : arrays_dicts T false bs = Some bs.
Proof. induction bs as [|d r IH]; simpl; [reflexivity|]. rewrite IH. reflexivity. Qed.

Lemma arrays_decode T bs : Forall (wf T) bs -> arrays_dicts T true bs = Some (map (image T) bs).
Proof. induction 1 as [|d r Hd Hr IH]; simpl; [reflexivity|]. rewrite (convert_is_image T d Hd), IH. reflexivity. Qed.

(* ---- decidable well-formedness (used for concrete dicts: non-vacuity examples, correspondence inputs) ---- *)
Definition nodup_keys_b (l : list string) : bool := forallb (fun s => Nat.eqb (count_occ string_dec l s) 1) l.
Lemma nodup_keys_b_sound l : nodup_keys_b l = true -> NoDup l.
Proof. intro H. apply (NoDup_count_occ' string_dec). intros x Hx. unfold nodup_keys_b in H. rewrite forallb_forall in H.
  specialize (H x Hx). apply Nat.eqb_eq in H. exact H. Qed.

Definition digi_ok_b (table : list Z) (e : entry) : bool :=
  match e with
  | Digi _ cols => nodup_keys_b (keys cols) &&
                   match lookup "id" cols with Some ids => forallb (in_range table) ids | None => false end
  | _ => false
  end.
Definition wf_b (T : tables) (d : rawdict) : bool :=
  nodup_keys_b (keys d) &&
  forallb (fun ke => match table_for T (fst ke) with Some t => digi_ok_b t (snd ke) | None => true end) d.

Lemma lookup_in_pair {V} k (v : V) d : lookup k d = Some v -> In (k, v) d.
Proof. induction d as [|[k' v'] r IH]; simpl; [discriminate|]. destruct (String.eqb k k') eqn:E.
  - apply String.eqb_eq in E. subst k'. intro H. inversion H. auto.
  - auto. Qed.

Lemma wf_b_sound T d : wf_b T d = true -> wf T d.
Proof. unfold wf_b. intro H. apply andb_true_iff in H. destruct H as [H1 H2]. split; [apply nodup_keys_b_sound; exact H1|].
  intros k e t L Tf. rewrite forallb_forall in H2. specialize (H2 (k, e) (lookup_in_pair _ _ _ L)). cbn [fst snd] in H2.
  rewrite Tf in H2. destruct e as [c|offs cols|o w]; simpl in H2; try discriminate. simpl.
  apply andb_true_iff in H2. destruct H2 as [A B]. split; [apply nodup_keys_b_sound; exact A|].
  destruct (lookup "id" cols) as [ids|]; [|discriminate]. exists ids. split; [reflexivity|exact B]. Qed.

(* ---- boolean equality of raw dicts (used when the model is run inside coqc on correspondence inputs) ---- *)
Fixpoint zlist_eqb (a b : list Z) : bool :=
  match a, b with [], [] => true | x :: r, y :: s => Z.eqb x y && zlist_eqb r s | _, _ => false end.
Fixpoint cols_eqb (a b : columns) : bool :=
  match a, b with
  | [], [] => true
  | (k, v) :: r, (k', v') :: s => String.eqb k k' && zlist_eqb v v' && cols_eqb r s
  | _, _ => false
  end.
Definition entry_eqb (e f : entry) : bool :=
  match e, f with
  | Header a, Header b => cols_eqb a b
  | Digi o a, Digi o' b => zlist_eqb o o' && cols_eqb a b
  | Words o a, Words o' b => zlist_eqb o o' && zlist_eqb a b
  | _, _ => false
  end.
Fixpoint rawdict_eqb (a b : rawdict) : bool :=
  match a, b with
  | [], [] => true
  | (k, e) :: r, (k', e') :: s => String.eqb k k' && entry_eqb e e' && rawdict_eqb r s
  | _, _ => false
  end.
Definition result_eqb (r : option rawdict) (d : rawdict) : bool :=
  match r with Some d' => rawdict_eqb d' d | None => false end.

Lemma zlist_eqb_sound a : forall b, zlist_eqb a b = true -> a = b.
Proof. induction a as [|x r IH]; intros [|y s]; simpl; try discriminate; auto. intro H. apply andb_true_iff in H.
  destruct H as [H1 H2]. apply Z.eqb_eq in H1. f_equal; auto. Qed.
Lemma cols_eqb_sound a : forall b, cols_eqb a b = true -> a = b.
Proof. induction a as [|[k v] r IH]; intros [|[k' v'] s]; simpl; try discriminate; auto. intro H.
  apply andb_true_iff in H. destruct H as [H H3]. apply andb_true_iff in H. destruct H as [H1 H2].
  apply String.eqb_eq in H1. apply zlist_eqb_sound in H2. subst. f_equal. auto. Qed.
Lemma entry_eqb_sound e f : entry_eqb e f = true -> e = f.
Proof. destruct e, f; simpl; try discriminate; intro H.
  - f_equal. apply cols_eqb_sound; exact H.
  - apply andb_true_iff in H. destruct H as [H1 H2]. apply zlist_eqb_sound in H1. apply cols_eqb_sound in H2. congruence.
  - apply andb_true_iff in H. destruct H as [H1 H2]. apply zlist_eqb_sound in H1. apply zlist_eqb_sound in H2. congruence. Qed.
Lemma rawdict_eqb_sound a : forall b, rawdict_eqb a b = true -> a = b.
Proof. induction a as [|[k e] r IH]; intros [|[k' e'] s]; simpl; try discriminate; auto. intro H.
  apply andb_true_iff in H. destruct H as [H H3]. apply andb_true_iff in H. destruct H as [H1 H2].
  apply String.eqb_eq in H1. apply entry_eqb_sound in H2. subst. f_equal. auto. Qed.
