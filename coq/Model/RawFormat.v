(* PV.Model.RawFormat — M-RAW (i): structured description of a BES3 raw-data file and the ENCODER to 32-bit words.

   Everything the reader (raw_io.py) and the parser (raw_io.cc) look at is a 32-bit little-endian word at a
   4-byte-aligned file position; the model therefore works on lists of words (Z in [0,2^32)); [file_bytes] gives the
   byte image (each word little-endian) that the harness writes to disk.

   Nesting (sizes are in words and include the fragment's own header):
     file   = 8 header words | FILE_NAME, nchar, name padded to 4 bytes, nchar, tag padded | RUN_PARAMS + 8 words
              | blocks | 10-word tail (entry count at word 4)
     block  = DATA_SEPERATOR, w1, w2, 4*len(body) | body = one or more events
     event  = FULL_EVENT, total, header_size, 0x3000000, source, n_status, status..., 10,
              time, evt_no, run_no, l1_id, 2 spare words, tag1..tag4 | sub-detector fragments
     subdet = SUB_DETECTOR, total, header_size, version, source (id = bits 16..31), n_status, status..., n_spec, spec...
              | ROS fragments   (or, for a sub-detector id the decoder does not know, arbitrary words)
     ros    = ROS, total, header_size, version, source, n_status, status..., 3, 3 words | ROB fragments
     rob    = ROB, total, header_size, version, source, n_status, status..., n_spec, spec...
              | ROD, 9, 7 words | status+data or data+status | n_status, n_data, status_pos
*)
From Coq Require Import ZArith List Lia Bool.
Import ListNotations.
Local Open Scope Z_scope.

Definition FILE_START      := 0x1234AAAA.
Definition FILE_NAME       := 0x1234AABB.
Definition RUN_PARAMS      := 0x1234BBBB.
Definition DATA_SEPERATOR  := 0x1234CCCC.
Definition FILE_TAIL_START := 0x1234DDDD.
Definition FILE_END        := 0x1234EEEE.
Definition FULL_EVENT      := 0xAA1234AA.
Definition SUB_DETECTOR    := 0xBB1234BB.
Definition ROS_FLAG        := 0xCC1234CC.
Definition ROB_FLAG        := 0xDD1234DD.
Definition ROD_FLAG        := 0xEE1234EE.
Definition EVT_VERSION     := 0x3000000.

Definition zlen {A} (l : list A) : Z := Z.of_nat (length l).

(* the six sub-detectors the decoder knows *)
Inductive det := Mdc | Tof | Emc | Muc | Trg | Ef.
Definition det_id (d : det) : Z :=
  match d with Mdc => 0xA1 | Tof => 0xA2 | Emc => 0xA3 | Muc => 0xA4 | Trg => 0xA5 | Ef => 0x7C end.
Definition all_dets : list det := [Ef; Mdc; Tof; Emc; Muc; Trg].   (* ascending id = std::set iteration order *)
Definition det_eqb (a b : det) : bool := det_id a =? det_id b.
Definition det_of_id (i : Z) : option det :=
  if i =? 0xA1 then Some Mdc else if i =? 0xA2 then Some Tof else if i =? 0xA3 then Some Emc
  else if i =? 0xA4 then Some Muc else if i =? 0xA5 then Some Trg else if i =? 0x7C then Some Ef else None.

Record rob := {
  rb_version : Z; rb_source : Z; rb_status : list Z; rb_spec : list Z;   (* ROB header *)
  rd_hdr7 : list Z;                                                      (* the 7 ROD header words after its size *)
  rd_status : list Z; rd_data : list Z; rd_pos : Z                       (* ROD status words, data words, status position *)
}.
Record ros := { rs_version : Z; rs_source : Z; rs_status : list Z; rs_spec3 : list Z; rs_robs : list rob }.
Inductive sdbody := SDRos (l : list ros) | SDRaw (ws : list Z).
Record subdet := { sd_version : Z; sd_source : Z; sd_status : list Z; sd_spec : list Z; sd_body : sdbody }.
Record event := {
  ev_source : Z; ev_status : list Z;
  ev_time : Z; ev_no : Z; ev_run : Z; ev_l1 : Z; ev_spare : list Z;
  ev_tag1 : Z; ev_tag2 : Z; ev_tag3 : Z; ev_tag4 : Z;
  ev_subs : list subdet
}.
Record block := { bk_w1 : Z; bk_w2 : Z; bk_events : list event }.
Record rawfile := {
  f_hdr1 : Z; f_version : Z; f_number : Z; f_date : Z; f_time : Z; f_hdr6 : Z; f_hdr7 : Z;
  f_name : list Z; f_name_pad : Z; f_tag : list Z; f_tag_pad : Z;        (* bytes; pad byte used up to 4-byte alignment *)
  f_rp1 : Z; f_run_params : list Z;                                      (* 7 run parameter words *)
  f_blocks : list block;
  f_tail1 : list Z; f_entries : Z; f_tail2 : list Z                      (* 3 + 1 + 4 tail words between the two flags *)
}.

(* ---------------------------------------------------------------- encoder *)
Definition enc_rob (r : rob) : list Z :=
  let hdr_size := 7 + zlen (rb_status r) + zlen (rb_spec r) in
  let body := if rd_pos r =? 0 then rd_status r ++ rd_data r else rd_data r ++ rd_status r in
  let total := hdr_size + 9 + zlen body + 3 in
  [ROB_FLAG; total; hdr_size; rb_version r; rb_source r; zlen (rb_status r)] ++ rb_status r
  ++ [zlen (rb_spec r)] ++ rb_spec r
  ++ [ROD_FLAG; 9] ++ rd_hdr7 r
  ++ body ++ [zlen (rd_status r); zlen (rd_data r); rd_pos r].

Definition enc_ros (r : ros) : list Z :=
  let hdr_size := 10 + zlen (rs_status r) in
  let body := flat_map enc_rob (rs_robs r) in
  [ROS_FLAG; hdr_size + zlen body; hdr_size; rs_version r; rs_source r; zlen (rs_status r)] ++ rs_status r
  ++ [3] ++ rs_spec3 r ++ body.

Definition enc_sdbody (b : sdbody) : list Z :=
  match b with SDRos l => flat_map enc_ros l | SDRaw ws => ws end.

Definition enc_subdet (s : subdet) : list Z :=
  let hdr_size := 7 + zlen (sd_status s) + zlen (sd_spec s) in
  let body := enc_sdbody (sd_body s) in
  [SUB_DETECTOR; hdr_size + zlen body; hdr_size; sd_version s; sd_source s; zlen (sd_status s)] ++ sd_status s
  ++ [zlen (sd_spec s)] ++ sd_spec s ++ body.

Definition enc_event (e : event) : list Z :=
  let hdr_size := 17 + zlen (ev_status e) in
  let body := flat_map enc_subdet (ev_subs e) in
  [FULL_EVENT; hdr_size + zlen body; hdr_size; EVT_VERSION; ev_source e; zlen (ev_status e)] ++ ev_status e
  ++ [10; ev_time e; ev_no e; ev_run e; ev_l1 e] ++ ev_spare e
  ++ [ev_tag1 e; ev_tag2 e; ev_tag3 e; ev_tag4 e] ++ body.

Definition enc_block (b : block) : list Z :=
  let body := flat_map enc_event (bk_events b) in
  [DATA_SEPERATOR; bk_w1 b; bk_w2 b; 4 * zlen body] ++ body.

(* pack bytes little-endian into words, padding the last word with [pad] *)
Fixpoint pack_le (fuel : nat) (bs : list Z) (pad : Z) : list Z :=
  match fuel with
  | O => []
  | S f =>
    match bs with
    | [] => []
    | [a] => [a + 256 * pad + 65536 * pad + 16777216 * pad]
    | [a; b] => [a + 256 * b + 65536 * pad + 16777216 * pad]
    | [a; b; c] => [a + 256 * b + 65536 * c + 16777216 * pad]
    | a :: b :: c :: d :: rest => (a + 256 * b + 65536 * c + 16777216 * d) :: pack_le f rest pad
    end
  end.
Definition pack_bytes (bs : list Z) (pad : Z) : list Z := pack_le (S (length bs)) bs pad.

Definition enc_file_header (f : rawfile) : list Z :=
  [FILE_START; f_hdr1 f; f_version f; f_number f; f_date f; f_time f; f_hdr6 f; f_hdr7 f]
  ++ [FILE_NAME; zlen (f_name f)] ++ pack_bytes (f_name f) (f_name_pad f)
  ++ [zlen (f_tag f)] ++ pack_bytes (f_tag f) (f_tag_pad f)
  ++ [RUN_PARAMS; f_rp1 f] ++ f_run_params f.

Definition enc_file_tail (f : rawfile) : list Z :=
  [FILE_TAIL_START] ++ f_tail1 f ++ [f_entries f] ++ f_tail2 f ++ [FILE_END].

Definition enc_blocks (bs : list block) : list Z := flat_map enc_block bs.

Definition enc_file (f : rawfile) : list Z :=
  enc_file_header f ++ enc_blocks (f_blocks f) ++ enc_file_tail f.

Definition le4 (w : Z) : list Z := [w mod 256; (w / 256) mod 256; (w / 65536) mod 256; (w / 16777216) mod 256].
Definition file_bytes (f : rawfile) : list Z := flat_map le4 (enc_file f).

(* the event stream handed to the C++ parser for a group of blocks *)
Definition file_events (f : rawfile) : list event := flat_map bk_events (f_blocks f).

(* ---------------------------------------------------------------- well-formedness *)
Definition word (w : Z) : Prop := 0 <= w < 2^32.
Definition words (l : list Z) : Prop := Forall word l.
Definition byte (b : Z) : Prop := 0 <= b < 128.     (* ASCII: the reader decodes name/tag as UTF-8 *)

Definition sd_id (s : subdet) : Z := Z.land (Z.shiftr (sd_source s) 16) 0xFFFF.

Definition wf_rob (r : rob) : Prop :=
  word (rb_version r) /\ word (rb_source r) /\ words (rb_status r) /\ words (rb_spec r) /\
  words (rd_hdr7 r) /\ length (rd_hdr7 r) = 7%nat /\ words (rd_status r) /\ words (rd_data r) /\ word (rd_pos r) /\
  zlen (enc_rob r) < 2^32.
Definition wf_ros (r : ros) : Prop :=
  word (rs_version r) /\ word (rs_source r) /\ words (rs_status r) /\
  words (rs_spec3 r) /\ length (rs_spec3 r) = 3%nat /\ Forall wf_rob (rs_robs r) /\ zlen (enc_ros r) < 2^32.
Definition wf_sdbody (id : Z) (b : sdbody) : Prop :=
  match b with
  | SDRos l => Forall wf_ros l
  | SDRaw ws => words ws /\ det_of_id id = None     (* only a sub-detector the decoder never opens may be opaque *)
  end.
Definition wf_subdet (s : subdet) : Prop :=
  word (sd_version s) /\ word (sd_source s) /\ words (sd_status s) /\ words (sd_spec s) /\
  wf_sdbody (sd_id s) (sd_body s) /\ zlen (enc_subdet s) < 2^32.
Definition wf_event (e : event) : Prop :=
  word (ev_source e) /\ words (ev_status e) /\ word (ev_time e) /\ word (ev_no e) /\ word (ev_run e) /\
  word (ev_l1 e) /\ words (ev_spare e) /\ length (ev_spare e) = 2%nat /\
  word (ev_tag1 e) /\ word (ev_tag2 e) /\ word (ev_tag3 e) /\ word (ev_tag4 e) /\
  Forall wf_subdet (ev_subs e) /\ zlen (enc_event e) < 2^32.
Definition wf_block (b : block) : Prop :=
  word (bk_w1 b) /\ word (bk_w2 b) /\ bk_events b <> [] /\ Forall wf_event (bk_events b) /\
  4 * zlen (flat_map enc_event (bk_events b)) < 2^32.
Definition wf_file (f : rawfile) : Prop :=
  word (f_hdr1 f) /\ word (f_version f) /\ word (f_number f) /\ word (f_date f) /\ word (f_time f) /\
  word (f_hdr6 f) /\ word (f_hdr7 f) /\
  Forall byte (f_name f) /\ byte (f_name_pad f) /\ Forall byte (f_tag f) /\ byte (f_tag_pad f) /\
  zlen (f_name f) < 2^32 /\ zlen (f_tag f) < 2^32 /\
  word (f_rp1 f) /\ words (f_run_params f) /\ length (f_run_params f) = 7%nat /\
  Forall wf_block (f_blocks f) /\
  words (f_tail1 f) /\ length (f_tail1 f) = 3%nat /\ word (f_entries f) /\
  words (f_tail2 f) /\ length (f_tail2 f) = 4%nat.

(* ---------------------------------------------------------------- executable well-formedness (sound w.r.t. wf_*:
   PV.Props.C03Wf) — lets a run certify inside Coq that a generated structure lies within the theorems' quantifier *)
Definition wordb (w : Z) : bool := (0 <=? w) && (w <? 2^32).
Definition wordsb (l : list Z) : bool := forallb wordb l.
Definition byteb (b : Z) : bool := (0 <=? b) && (b <? 128).
Definition wf_robb (r : rob) : bool :=
  wordb (rb_version r) && wordb (rb_source r) && wordsb (rb_status r) && wordsb (rb_spec r) &&
  wordsb (rd_hdr7 r) && Nat.eqb (length (rd_hdr7 r)) 7 && wordsb (rd_status r) && wordsb (rd_data r) && wordb (rd_pos r) &&
  (zlen (enc_rob r) <? 2^32).
Definition wf_rosb (r : ros) : bool :=
  wordb (rs_version r) && wordb (rs_source r) && wordsb (rs_status r) && wordsb (rs_spec3 r) &&
  Nat.eqb (length (rs_spec3 r)) 3 && forallb wf_robb (rs_robs r) && (zlen (enc_ros r) <? 2^32).
Definition wf_sdbodyb (id : Z) (b : sdbody) : bool :=
  match b with
  | SDRos l => forallb wf_rosb l
  | SDRaw ws => wordsb ws && match det_of_id id with None => true | Some _ => false end
  end.
Definition wf_subdetb (s : subdet) : bool :=
  wordb (sd_version s) && wordb (sd_source s) && wordsb (sd_status s) && wordsb (sd_spec s) &&
  wf_sdbodyb (sd_id s) (sd_body s) && (zlen (enc_subdet s) <? 2^32).
Definition wf_eventb (e : event) : bool :=
  wordb (ev_source e) && wordsb (ev_status e) && wordb (ev_time e) && wordb (ev_no e) && wordb (ev_run e) &&
  wordb (ev_l1 e) && wordsb (ev_spare e) && Nat.eqb (length (ev_spare e)) 2 &&
  wordb (ev_tag1 e) && wordb (ev_tag2 e) && wordb (ev_tag3 e) && wordb (ev_tag4 e) &&
  forallb wf_subdetb (ev_subs e) && (zlen (enc_event e) <? 2^32).
Definition wf_blockb (b : block) : bool :=
  wordb (bk_w1 b) && wordb (bk_w2 b) && negb (match bk_events b with [] => true | _ => false end) &&
  forallb wf_eventb (bk_events b) && (4 * zlen (flat_map enc_event (bk_events b)) <? 2^32).
Definition wf_fileb (f : rawfile) : bool :=
  wordb (f_hdr1 f) && wordb (f_version f) && wordb (f_number f) && wordb (f_date f) && wordb (f_time f) &&
  wordb (f_hdr6 f) && wordb (f_hdr7 f) &&
  forallb byteb (f_name f) && byteb (f_name_pad f) && forallb byteb (f_tag f) && byteb (f_tag_pad f) &&
  (zlen (f_name f) <? 2^32) && (zlen (f_tag f) <? 2^32) &&
  wordb (f_rp1 f) && wordsb (f_run_params f) && Nat.eqb (length (f_run_params f)) 7 &&
  forallb wf_blockb (f_blocks f) &&
  wordsb (f_tail1 f) && Nat.eqb (length (f_tail1 f)) 3 && wordb (f_entries f) &&
  wordsb (f_tail2 f) && Nat.eqb (length (f_tail2 f)) 4.
