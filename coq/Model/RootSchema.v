(* PV.Model.RootSchema — M-ROOT, level 2: schema-driven ("following the file's streamer info") member-by-member
   ENCODER and DECODER of ROOT objects.  The decoder is the independent oracle of C01: it is written from the
   serialisation rules, not from pybes3's readers, checks every byte count it meets against the bytes actually
   consumed (sub-buffer discipline: an object is decoded inside exactly its fNBytes window and must use it up),
   and returns EVERYTHING that is stored, including the incidental fields (versions, fUniqueID, fBits, pidf, the 6
   extra header bytes of maps) so that the round-trip theorem covers every header variant.

   schema of one streamer element (mty) / of an STL payload (sty):
     MPrim dims p     basic type, or fixed array of prod(dims) of them (fType+20)
     MStr dims        TString; an array of them is preceded by ONE fNBytes|fVersion
     MStl dims t      vector<T> / map<K,V>: fNBytes|fVersion|[6 bytes for maps]|count|elements; nested containers are
                      headerless; a map is stored key/value member-wise iff bit 14 of its version is set;
                      a C array of STL members has ONE header followed by prod(dims) bodies
     MTArr p          TArrayI & co: count + elements
     MTObj            TObject base: 10 bytes, +2 iff kIsReferenced is set in fBits
     MSym n           double[n(n+1)/2]: a packed symmetric matrix (stored exactly like MPrim [n(n+1)/2] PF64; only its
                      presentation differs, see RootGlue.mview / C16)
     MBase name ns ms any other base class, and the class itself: fNBytes|fVersion|members *)
From Coq Require Import ZArith List Lia Bool.
Import ListNotations.
From PV.Model Require Import RootStream.
Local Open Scope Z_scope.

Inductive sty :=
| SPrim (p : prim)
| SStr
| SVec (t : sty)
| SMap (k v : sty).

Inductive mty :=
| MPrim (dims : list nat) (p : prim)
| MStr (dims : list nat)
| MStl (dims : list nat) (t : sty)
| MTArr (p : prim)
| MTObj
| MSym (n : nat)
| MBase (name : bytes) (names : list bytes) (ms : list mty).

(* stored values, incidental fields included *)
Inductive val :=
| VNum (z : Z)                                   (* primitive: see prim_interp *)
| VStr (s : bytes)
| VList (l : list val)
| VPair (a b : val)                              (* one map entry *)
| VTObj (o : tobject)
| VRec (ver : Z) (fields : list val)             (* base / class: fVersion + member values in streamer order *)
| VHdr (ver : Z) (extra : bytes) (body : val).   (* headered STL member / TString array: fVersion, extra header bytes, payload *)

Definition cnt (dims : list nat) : nat := fold_right Nat.mul 1%nat dims.
Definition tri_nat (n : nat) : nat := Nat.div (n * (n + 1)) 2.
Definition is_memberwise (ver : Z) : bool := Z.testbit ver 14.

(* ---------------------------------------------------------------- generic sequencing *)
Definition rep {A} (f : bytes -> option (A * bytes)) : nat -> bytes -> option (list A * bytes) :=
  fix go n l := match n with
                | O => Some ([], l)
                | S k => '(v, l) <- f l ;; '(vs, l) <- go k l ;; Some (v :: vs, l)
                end.
Definition dec_seq {T A} (dec : T -> bytes -> option (A * bytes)) : list T -> bytes -> option (list A * bytes) :=
  fix go ts l := match ts with
                 | [] => Some ([], l)
                 | t :: ts' => '(v, l) <- dec t l ;; '(vs, l) <- go ts' l ;; Some (v :: vs, l)
                 end.
Definition enc_seq {T A} (enc : T -> A -> bytes) : list T -> list A -> bytes :=
  fix go ts vs := match ts, vs with
                  | t :: ts', v :: vs' => enc t v ++ go ts' vs'
                  | _, _ => []
                  end.
(* a count read from the stream can never exceed the bytes that are left (every element takes >= 1 byte) *)
Definition read_count (l : bytes) : option (nat * bytes) :=
  '(n, l) <- be_dec 4 l ;; if zlen l <? n then None else Some (Z.to_nat n, l).
Definition all_consumed {A} (r : option (A * bytes)) : option A :=
  match r with Some (a, []) => Some a | _ => None end.

(* ---------------------------------------------------------------- STL payloads (headerless) *)
Fixpoint senc (t : sty) (v : val) : bytes :=
  match t, v with
  | SPrim p, VNum z => prim_enc p z
  | SStr, VStr s => tstring_enc s
  | SVec t', VList l => be_enc 4 (zlen l) ++ concat (map (senc t') l)
  | SMap k v', VList l =>
      be_enc 4 (zlen l) ++ concat (map (fun e => match e with VPair a b => senc k a ++ senc v' b | _ => [] end) l)
  | _, _ => []
  end.
Fixpoint sdec (t : sty) (l : bytes) : option (val * bytes) :=
  match t with
  | SPrim p => '(z, l) <- prim_dec p l ;; Some (VNum z, l)
  | SStr => '(s, l) <- read_tstring l ;; Some (VStr s, l)
  | SVec t' => '(n, l) <- read_count l ;; '(vs, l) <- rep (sdec t') n l ;; Some (VList vs, l)
  | SMap k v =>
      '(n, l) <- read_count l ;;
      '(vs, l) <- rep (fun l => '(a, l) <- sdec k l ;; '(b, l) <- sdec v l ;; Some (VPair a b, l)) n l ;;
      Some (VList vs, l)
  end.
Fixpoint swf (t : sty) (v : val) : Prop :=
  match t, v with
  | SPrim p, VNum z => prim_wf p z
  | SStr, VStr s => tstring_wf s
  | SVec t', VList l => u32_wf (zlen l) /\ Forall (swf t') l
  | SMap k v', VList l =>
      u32_wf (zlen l) /\ Forall (fun e => match e with VPair a b => swf k a /\ swf v' b | _ => False end) l
  | _, _ => False
  end.
(* member-wise map payload: count, all keys, all values *)
Definition senc_mw (k v : sty) (l : list val) : bytes :=
  be_enc 4 (zlen l) ++ concat (map (fun e => match e with VPair a _ => senc k a | _ => [] end) l)
                   ++ concat (map (fun e => match e with VPair _ b => senc v b | _ => [] end) l).
Definition sdec_mw (k v : sty) (l : bytes) : option (val * bytes) :=
  '(n, l) <- read_count l ;;
  '(ks, l) <- rep (sdec k) n l ;;
  '(vs, l) <- rep (sdec v) n l ;;
  Some (VList (map (fun kv => VPair (fst kv) (snd kv)) (combine ks vs)), l).

(* ---------------------------------------------------------------- streamer elements *)
Definition hdr_extra (t : sty) : nat := match t with SMap _ _ => 6%nat | _ => 0%nat end.
(* payload of a headered STL member whose fVersion is ver *)
Definition stl_body_enc (t : sty) (ver : Z) (body : val) : bytes :=
  match t, body with
  | SMap k v, VList l => if is_memberwise ver then senc_mw k v l else senc t body
  | _, _ => senc t body
  end.
Definition stl_body_dec (t : sty) (ver : Z) (l : bytes) : option (val * bytes) :=
  match t with
  | SMap k v => if is_memberwise ver then sdec_mw k v l else sdec t l
  | SVec _ => if is_memberwise ver then None else sdec t l
  | _ => None
  end.

Fixpoint menc (t : mty) (v : val) : bytes :=
  match t, v with
  | MPrim [] p, VNum z => prim_enc p z
  | MPrim _ p, VList l => concat (map (fun e => match e with VNum z => prim_enc p z | _ => [] end) l)
  | MStr [] , VStr s => tstring_enc s
  | MStr _, VHdr ver _ (VList l) =>
      let payload := be_enc 2 ver ++ concat (map (fun e => match e with VStr s => tstring_enc s | _ => [] end) l) in
      nbytes_enc (zlen payload) ++ payload
  | MStl [] t', VHdr ver extra body =>
      let payload := be_enc 2 ver ++ extra ++ stl_body_enc t' ver body in
      nbytes_enc (zlen payload) ++ payload
  | MStl _ t', VHdr ver extra (VList l) =>
      let payload := be_enc 2 ver ++ extra ++ concat (map (senc t') l) in
      nbytes_enc (zlen payload) ++ payload
  | MTArr p, VList l => be_enc 4 (zlen l) ++ concat (map (fun e => match e with VNum z => prim_enc p z | _ => [] end) l)
  | MTObj, VTObj o => tobject_enc o
  | MSym _, VList l => concat (map (fun e => match e with VNum z => prim_enc PF64 z | _ => [] end) l)
  | MBase _ _ ms, VRec ver fields =>
      let payload := be_enc 2 ver ++ enc_seq menc ms fields in
      nbytes_enc (zlen payload) ++ payload
  | _, _ => []
  end.

Definition num_dec (p : prim) (l : bytes) : option (val * bytes) := '(z, l) <- prim_dec p l ;; Some (VNum z, l).
Definition str_dec (l : bytes) : option (val * bytes) := '(s, l) <- read_tstring l ;; Some (VStr s, l).
(* fNBytes window: the next nb bytes are handed to `inner`, which must consume all of them *)
Definition window {A} (inner : bytes -> option (A * bytes)) (l : bytes) : option (A * bytes) :=
  '(nb, l) <- read_nbytes l ;;
  '(sub, rest) <- take (Z.to_nat nb) l ;;
  a <- all_consumed (inner sub) ;;
  Some (a, rest).

Fixpoint mdec (t : mty) (l : bytes) : option (val * bytes) :=
  match t with
  | MPrim [] p => num_dec p l
  | MPrim dims p => '(vs, l) <- rep (num_dec p) (cnt dims) l ;; Some (VList vs, l)
  | MStr [] => str_dec l
  | MStr dims =>
      window (fun sub => '(ver, sub) <- be_dec 2 sub ;; '(vs, sub) <- rep str_dec (cnt dims) sub ;;
                         Some (VHdr ver [] (VList vs), sub)) l
  | MStl [] t' =>
      window (fun sub => '(ver, sub) <- be_dec 2 sub ;; '(extra, sub) <- take (hdr_extra t') sub ;;
                         '(body, sub) <- stl_body_dec t' ver sub ;; Some (VHdr ver extra body, sub)) l
  | MStl dims t' =>
      window (fun sub => '(ver, sub) <- be_dec 2 sub ;; '(extra, sub) <- take (hdr_extra t') sub ;;
                         if is_memberwise ver then None else
                         '(vs, sub) <- rep (sdec t') (cnt dims) sub ;; Some (VHdr ver extra (VList vs), sub)) l
  | MTArr p => '(n, l) <- read_count l ;; '(vs, l) <- rep (num_dec p) n l ;; Some (VList vs, l)
  | MTObj => '(o, l) <- read_tobject l ;; Some (VTObj o, l)
  | MSym n => '(vs, l) <- rep (num_dec PF64) (tri_nat n) l ;; Some (VList vs, l)
  | MBase _ _ ms =>
      window (fun sub => '(ver, sub) <- be_dec 2 sub ;; '(fields, sub) <- dec_seq mdec ms sub ;;
                         Some (VRec ver fields, sub)) l
  end.

Definition all2 {T A} (P : T -> A -> Prop) : list T -> list A -> Prop :=
  fix go ts vs := match ts, vs with
                  | [], [] => True
                  | t :: ts', v :: vs' => P t v /\ go ts' vs'
                  | _, _ => False
                  end.
Definition is_container (t : sty) : Prop := match t with SVec _ | SMap _ _ => True | _ => False end.
Fixpoint mwf (t : mty) (v : val) : Prop :=
  match t, v with
  | MPrim [] p, VNum z => prim_wf p z
  | MPrim (d :: ds) p, VList l => length l = cnt (d :: ds) /\ Forall (fun e => match e with VNum z => prim_wf p z | _ => False end) l
  | MStr [], VStr s => tstring_wf s
  | MStr (d :: ds), VHdr ver extra (VList l) =>
      u16_wf ver /\ extra = [] /\ length l = cnt (d :: ds) /\
      Forall (fun e => match e with VStr s => tstring_wf s | _ => False end) l /\
      nbytes_wf (zlen (menc t v) - 4)
  | MStl [] t', VHdr ver extra body =>
      u16_wf ver /\ length extra = hdr_extra t' /\ is_container t' /\ swf t' body /\
      (match t' with SMap _ _ => True | _ => is_memberwise ver = false end) /\
      nbytes_wf (zlen (menc t v) - 4)
  | MStl (d :: ds) t', VHdr ver extra (VList l) =>
      u16_wf ver /\ length extra = hdr_extra t' /\ is_memberwise ver = false /\ length l = cnt (d :: ds) /\
      Forall (swf t') l /\ nbytes_wf (zlen (menc t v) - 4)
  | MTArr p, VList l => u32_wf (zlen l) /\ Forall (fun e => match e with VNum z => prim_wf p z | _ => False end) l
  | MTObj, VTObj o => tobject_wf o
  | MSym n, VList l => length l = tri_nat n /\ Forall (fun e => match e with VNum z => prim_wf PF64 z | _ => False end) l
  | MBase _ _ ms, VRec ver fields =>
      u16_wf ver /\ all2 mwf ms fields /\ nbytes_wf (zlen (menc t v) - 4)
  | _, _ => False
  end.
