(* M-CACHE — executable model of pybes3/_cache_numba.py (cache_auto_clear / check_numba_cache /
   clear_numba_cache), of the import-time check in pybes3/__init__.py and of numba's compile-or-load
   behaviour for the cached geometry kernels (detectors/geometry/{mdc,emc}.py).

   File system = list of files.  A file name is (table, kind, fn): the table file `<t>_geom.npz`
   (kind KTable, fn 0) or numba's index/data file of kernel number fn of module <t>.py
   (`<t>.<fn>-<line>.py312.nbi`, `<t>.<fn>-<line>.py312.1.nbc`).  `f_built` is a ghost field: for a
   table file the version of its contents, for a cache file the version of the table that was frozen
   into the compiled kernel.  Nothing in the mirrored code reads it.

   Time: `clock` = mtime of the latest time-stamping event; an op that writes files carries the number
   of timestamp ticks `dt` elapsed since then (the clock assumption of the theorems is 0 < dt).

   Environment choices of one clean-up run (`env`): the order in which glob lists the cache files,
   the number of successful removals after which the run is interrupted (crash point; the k+1-th
   os.remove raises KeyboardInterrupt, which `except Exception` does not catch), the files whose
   removal fails with another exception (kept, collected -> ImportError) and the files that vanished
   between glob and os.remove (FileNotFoundError, ignored). *)
From Coq Require Import ZArith List Bool.
Import ListNotations.
Local Open Scope Z_scope.

Inductive tbl := Mdc | Emc.
Inductive kind := KTable | KNbi | KNbc.
Inductive err := ENone | EValue | EImport | EInterrupt.

Record file := mkFile { f_tbl : tbl; f_kind : kind; f_fn : Z; f_mtime : Z; f_built : Z }.

Definition tbl_eqb (a b : tbl) : bool := match a, b with Mdc, Mdc | Emc, Emc => true | _, _ => false end.
Definition kind_eqb (a b : kind) : bool :=
  match a, b with KTable, KTable | KNbi, KNbi | KNbc, KNbc => true | _, _ => false end.
Definition tblZ (t : tbl) : Z := match t with Mdc => 0 | Emc => 1 end.
Definition kindZ (k : kind) : Z := match k with KTable => 0 | KNbi => 1 | KNbc => 2 end.
Definition errZ (e : err) : Z := match e with ENone => 0 | EValue => 1 | EImport => 2 | EInterrupt => 3 end.

(* numeric file name, shared with the harness *)
Definition mkid (t : tbl) (k : kind) (fn : Z) : Z := (fn * 3 + kindZ k) * 2 + tblZ t.
Definition fid (f : file) : Z := mkid (f_tbl f) (f_kind f) (f_fn f).

Definition memZ (x : Z) (l : list Z) : bool := existsb (Z.eqb x) l.
Definition del (i : Z) (l : list file) : list file := filter (fun f => negb (fid f =? i)) l.
Definition write (f : file) (l : list file) : list file := f :: del (fid f) l.

(* glob(str(src)) and glob(str(cache)) of the pair of table t in src_cache_list *)
Definition is_src (t : tbl) (f : file) : bool := tbl_eqb (f_tbl f) t && kind_eqb (f_kind f) KTable.
Definition is_cache (f : file) : bool := negb (kind_eqb (f_kind f) KTable).
Definition is_cache_of (t : tbl) (f : file) : bool := tbl_eqb (f_tbl f) t && is_cache f.

Record env := mkEnv { e_ord : list Z; e_budget : option nat; e_denied : list Z; e_vanished : list Z }.
Definition env0 : env := mkEnv [] None [] [].
Definition crash_env (k : nat) : env := mkEnv [] (Some k) [] [].
Definition with_budget (e : env) (b : option nat) : env := mkEnv (e_ord e) b (e_denied e) (e_vanished e).

(* directory order chosen by the environment: ids listed in `ord` first (in that order), the rest after *)
Definition order (ord : list Z) (cs : list file) : list file :=
  flat_map (fun i => filter (fun f => fid f =? i) cs) ord ++ filter (fun f => negb (memZ (fid f) ord)) cs.

(* Python max([...]) / min([...]); None = ValueError on an empty list *)
Definition maxl (l : list Z) : option Z := match l with [] => None | x :: r => Some (fold_left Z.max r x) end.
Definition minl (l : list Z) : option Z := match l with [] => None | x :: r => Some (fold_left Z.min r x) end.

Inductive rmres := RmOk | RmGone | RmDenied | RmIntr.
Definition os_remove (e : env) (budget : option nat) (c : file) : rmres :=
  if memZ (fid c) (e_vanished e) then RmGone
  else if memZ (fid c) (e_denied e) then RmDenied
  else match budget with Some O => RmIntr | _ => RmOk end.
Definition spend (b : option nat) : option nat := match b with Some (S n) => Some n | x => x end.

Record loopres := mkLoop { l_fs : list file; l_removed : list Z; l_failed : list Z; l_budget : option nat; l_intr : bool }.

(* for c in caches: try: os.remove(c); removed.append(c) / except FileNotFoundError: pass / except Exception: failed.append(c) *)
Fixpoint rm_loop (e : env) (budget : option nat) (cs fs : list file) (removed failed : list Z) : loopres :=
  match cs with
  | [] => mkLoop fs removed failed budget false
  | c :: cs' =>
      match os_remove e budget c with
      | RmOk => rm_loop e (spend budget) cs' (del (fid c) fs) (removed ++ [fid c]) failed
      | RmGone => rm_loop e budget cs' (del (fid c) fs) removed failed
      | RmDenied => rm_loop e budget cs' fs removed (failed ++ [fid c])
      | RmIntr => mkLoop fs removed failed budget true
      end
  end.

Record acres := mkAc { a_fs : list file; a_err : err; a_removed : list Z; a_budget : option nat }.

(* cache_auto_clear(sources=<t>_geom.npz, caches=__pycache__/<t>.*.nb[ci], force) *)
Definition auto_clear (e : env) (force : bool) (t : tbl) (budget : option nat) (fs : list file) : acres :=
  let sources := filter (is_src t) fs in
  let caches := order (e_ord e) (filter (is_cache_of t) fs) in
  match sources with
  | [] => mkAc fs EValue [] budget                                   (* raise ValueError("No source files found.") *)
  | _ :: _ =>
    match caches with
    | [] => mkAc fs ENone [] budget                                  (* return [] *)
    | _ :: _ =>
      match maxl (map f_mtime sources), minl (map f_mtime caches) with
      | Some src_latest, Some cache_earliest =>
          if (cache_earliest <? src_latest) || force then            (* src_latest_mtime > cache_earliest_mtime or force *)
            let r := rm_loop e budget caches fs [] [] in
            if l_intr r then mkAc (l_fs r) EInterrupt (l_removed r) (l_budget r)
            else match l_failed r with
                 | [] => mkAc (l_fs r) ENone (l_removed r) (l_budget r)
                 | _ :: _ => mkAc (l_fs r) EImport (l_removed r) (l_budget r)   (* raise ImportError *)
                 end
          else mkAc fs ENone [] budget
      | _, _ => mkAc fs EValue [] budget                             (* max()/min() of an empty list; unreachable here *)
      end
    end
  end.

(* for src, cache in src_cache_list: cache_auto_clear(...)  — an exception ends the loop *)
Definition src_cache_list : list tbl := [Mdc; Emc].
Fixpoint check_pairs (e : env) (force : bool) (ps : list tbl) (budget : option nat) (fs : list file) (acc : list Z) : acres :=
  match ps with
  | [] => mkAc fs ENone acc budget
  | t :: ps' =>
      let r := auto_clear e force t budget fs in
      match a_err r with
      | ENone => check_pairs e force ps' (a_budget r) (a_fs r) (acc ++ a_removed r)
      | _ => mkAc (a_fs r) (a_err r) (acc ++ a_removed r) (a_budget r)
      end
  end.
Definition check_numba_cache (e : env) (fs : list file) : acres := check_pairs e false src_cache_list (e_budget e) fs [].
Definition clear_numba_cache (e : env) (fs : list file) : acres := check_pairs e true src_cache_list (e_budget e) fs [].

(* ---------------------------------------------------------------------------------------------- *)
Record state := mkState {
  fs : list file; clock : Z; v_mdc : Z; v_emc : Z;                   (* disk, time, ghost table versions *)
  alive : bool; ld_mdc : option Z; ld_emc : option Z;                (* current process: imported ok; tables loaded lazily *)
  comp : list (tbl * Z * Z);                                         (* kernels compiled/loaded in this process -> version they carry *)
  o_err : err; o_removed : list Z; o_value : option Z }.             (* observations of the last op *)

Definition ver (s : state) (t : tbl) : Z := match t with Mdc => v_mdc s | Emc => v_emc s end.
Definition loaded (s : state) (t : tbl) : option Z := match t with Mdc => ld_mdc s | Emc => ld_emc s end.

Definition init : state :=
  mkState [mkFile Mdc KTable 0 1 1; mkFile Emc KTable 0 1 1] 1 1 1 false None None [] ENone [] None.

Inductive op :=
| UpdateTable (t : tbl) (dt : Z)            (* table file re-written: new contents, mtime = now *)
| DropTable (t : tbl)                       (* table file deleted (broken installation; malformed stream only) *)
| Import (e : env)                          (* fresh interpreter: `import pybes3` -> check_numba_cache() before any sub-module *)
| FirstUse (t : tbl) (fn : Z) (dt : Z)      (* first call of kernel fn of module t in the current process *)
| ForcedClear (e : env)                     (* clear_numba_cache() *)
| AutoClear (t : tbl) (force : bool) (e : env).   (* direct cache_auto_clear on one pair *)
Definition Crash (k : nat) : op := Import (crash_env k).

Definition lookup_comp (t : tbl) (fn : Z) (c : list (tbl * Z * Z)) : option Z :=
  match find (fun x => match x with (t', fn', _) => tbl_eqb t' t && (fn' =? fn) end) c with
  | Some (_, _, v) => Some v | None => None end.
Definition find_file (t : tbl) (k : kind) (fn : Z) (l : list file) : option file :=
  find (fun f => fid f =? mkid t k fn) l.
(* numba loads a kernel from disk iff the index and the data file it refers to both exist *)
Definition usable (l : list file) (t : tbl) (fn : Z) : option file :=
  match find_file t KNbc fn l, find_file t KNbi fn l with Some c, Some _ => Some c | _, _ => None end.
Definition will_compile (s : state) (t : tbl) (fn : Z) : bool :=
  alive s && match lookup_comp t fn (comp s) with Some _ => false | None =>
             match usable (fs s) t fn with Some _ => false | None => true end end.

Definition set_out (s : state) (l : list file) (e : err) (rm : list Z) : state :=
  mkState l (clock s) (v_mdc s) (v_emc s) (alive s) (ld_mdc s) (ld_emc s) (comp s) e rm None.

Definition step (s : state) (o : op) : state :=
  match o with
  | UpdateTable t dt =>
      let now := clock s + dt in
      let l := mkFile t KTable 0 now (ver s t + 1) :: filter (fun f => negb (is_src t f)) (fs s) in
      mkState l now (match t with Mdc => v_mdc s + 1 | Emc => v_mdc s end) (match t with Emc => v_emc s + 1 | Mdc => v_emc s end)
              (alive s) (ld_mdc s) (ld_emc s) (comp s) ENone [] None
  | DropTable t => set_out s (filter (fun f => negb (is_src t f)) (fs s)) ENone []
  | Import e =>
      let r := check_numba_cache e (fs s) in
      mkState (a_fs r) (clock s) (v_mdc s) (v_emc s)
              (match a_err r with ENone => true | _ => false end) None None [] (a_err r) (a_removed r) None
  | ForcedClear e => let r := clear_numba_cache e (fs s) in set_out s (a_fs r) (a_err r) (a_removed r)
  | AutoClear t force e => let r := auto_clear e force t (e_budget e) (fs s) in set_out s (a_fs r) (a_err r) (a_removed r)
  | FirstUse t fn dt =>
      if negb (alive s) then set_out s (fs s) ENone [] else
      match lookup_comp t fn (comp s) with
      | Some v => mkState (fs s) (clock s) (v_mdc s) (v_emc s) true (ld_mdc s) (ld_emc s) (comp s) ENone [] (Some v)
      | None =>
        let ld := match loaded s t with Some v => v | None => ver s t end in          (* _ensure_loaded() *)
        let lm := match t with Mdc => Some ld | Emc => ld_mdc s end in
        let le := match t with Emc => Some ld | Mdc => ld_emc s end in
        match usable (fs s) t fn with
        | Some c => mkState (fs s) (clock s) (v_mdc s) (v_emc s) true lm le ((t, fn, f_built c) :: comp s) ENone [] (Some (f_built c))
        | None =>
          let now := clock s + dt in
          let l := write (mkFile t KNbi fn now ld) (write (mkFile t KNbc fn now ld) (fs s)) in
          mkState l now (v_mdc s) (v_emc s) true lm le ((t, fn, ld) :: comp s) ENone [] (Some ld)
        end
      end
  end.

Definition run (s : state) (ops : list op) : state := fold_left step ops s.

(* ------------------------------- observations used by the correspondence ------------------------ *)
Definition obs (s : state) : list Z :=
  errZ (o_err s) :: (match o_value s with Some v => v + 1 | None => 0 end) :: Z.of_nat (length (o_removed s)) :: o_removed s
  ++ flat_map (fun f => [fid f; f_mtime f; f_built f]) (fs s).
Fixpoint trace (s : state) (ops : list op) : list (list Z) :=
  match ops with [] => [] | o :: r => let s' := step s o in obs s' :: trace s' r end.
