(* PV.Model.RawReader — M-RAW (iii): what a raw file MEANS (records defined directly on the structure) and the mirror of
   raw_io.py: RawBinaryReader._preprocess_file / _read_batch / arrays (batch loop on fuel, thread pool, ordered gather),
   _raw_dict_to_ak and ak.concatenate, concatenate().

   Every file access of raw_io.py is a 4-byte little-endian read at a 4-byte aligned position (or a relative seek by a
   multiple of 4), so the model works on the list of 32-bit words of the file; a position is a word index.
   Reading beyond the end of the file yields 0 (int.from_bytes(b"") = 0), seeking beyond it is allowed.
   Abstractions (stated in the evidence): the decoded name/tag strings are not modelled (they are not part of arrays());
   the thread pool is any completion order of pure tasks whose results are gathered in submission order; an Awkward array
   is its columnar content (offsets + flat rows per field), ak.concatenate appends the rows and re-bases the offsets. *)
From Coq Require Import ZArith List Lia Bool.
From PV.Model Require Import RawFormat RawParser.
Import ListNotations.
Local Open Scope Z_scope.

(* ================================================================ meaning of a stream of events *)
Definition ev_hdr (e : event) : list Z :=
  [ev_time e; ev_no e; ev_run e; ev_l1 e; ev_tag1 e; ev_tag2 e; ev_tag3 e; ev_tag4 e].
(* rows of one ROS for sub-detector d: its ROD data words (status words dropped), unpacked per ROD fragment *)
Definition ros_rows (d : det) (r : ros) : list row := flat_map (fun b => digi_rows d (rd_data b)) (rs_robs r).
(* a sub-detector fragment contributes to d iff its id is d's; opaque bodies (unknown ids only) contribute nothing *)
Definition sd_rows (d : det) (sd : subdet) : list row :=
  match det_of_id (sd_id sd) with
  | Some d' => if det_eqb d' d then match sd_body sd with SDRos l => flat_map (ros_rows d) l | SDRaw _ => [] end else []
  | None => []
  end.
Definition ev_rows (d : det) (e : event) : list row := flat_map (sd_rows d) (ev_subs e).

(* one record per event *)
Record evrec := { er_hdr : list Z; er_dets : list (det * list row) }.
Definition record_of (sel : det -> bool) (e : event) : evrec :=
  {| er_hdr := ev_hdr e; er_dets := map (fun d => (d, ev_rows d e)) (filter sel all_dets) |}.
Definition records (sel : det -> bool) (evs : list event) : list evrec := map (record_of sel) evs.

(* the same content in the columnar form returned by the C++ parser: offsets are the running row counts *)
Fixpoint offsets_from (start : Z) (counts : list Z) : list Z :=
  match counts with [] => [] | n :: tl => (start + n) :: offsets_from (start + n) tl end.
Definition col_of (d : det) (evs : list event) : detcol :=
  {| offsets := 0 :: offsets_from 0 (map (fun e => zlen (ev_rows d e)) evs); rows := flat_map (ev_rows d) evs |}.
Definition columnar (sel : det -> bool) (evs : list event) : result :=
  {| r_hdr := map ev_hdr evs; r_dets := map (fun d => (d, col_of d evs)) (filter sel all_dets) |}.

(* _raw_dict_to_ak followed by to_list(): event k of a ListOffsetArray is rows[offsets[k] : offsets[k+1]] *)
Definition slice (offs : list Z) (rs : list row) (k : nat) : list row :=
  let a := nth k offs 0 in let b := nth (S k) offs 0 in firstn (Z.to_nat (b - a)) (skipn (Z.to_nat a) rs).
Definition to_records (r : result) : list evrec :=
  map (fun k => {| er_hdr := nth k (r_hdr r) [];
                   er_dets := map (fun dc => (fst dc, slice (offsets (snd dc)) (rows (snd dc)) k)) (r_dets r) |})
      (seq 0 (length (r_hdr r))).

(* ================================================================ ak.concatenate on the columnar content *)
Definition last_off (offs : list Z) : Z := last offs 0.
Definition concat_col (a b : detcol) : detcol :=
  {| offsets := offsets a ++ map (fun o => last_off (offsets a) + o) (tl (offsets b)); rows := rows a ++ rows b |}.
Definition concat_result (a b : result) : result :=
  {| r_hdr := r_hdr a ++ r_hdr b;
     r_dets := map (fun p => (fst (fst p), concat_col (snd (fst p)) (snd (snd p)))) (combine (r_dets a) (r_dets b)) |}.

(* ================================================================ the reader *)
Inductive rerr :=
  | RAssert (what : Z)          (* AssertionError; the number names the assert (1 start flag, 2 name flag, 3 run params,
                                   4 tail start, 5 file end, 6 data end, 7 separator flag) *)
  | ROsError                    (* seek before the start of a file shorter than the tail *)
  | RConcatEmpty                (* ak.concatenate([]) *)
  | RParser (e : err)           (* exception raised by read_bes_raw, re-raised by future.result() *)
  | RParserOOB (k : oobk) (i : Z).   (* the C++ parser left its buffer (no Python-level meaning: crash / garbage) *)
Inductive rres (A : Type) : Type := ROk (a : A) | RThrow (e : rerr) | ROutOfFuel.
Arguments ROk {A} a. Arguments RThrow {A} e. Arguments ROutOfFuel {A}.

Section Reader.
Variable fw : list Z.                       (* the words of the file *)
Definition rdw (i : Z) : Z := if (0 <=? i) && (i <? zlen fw) then nth (Z.to_nat i) fw 0 else 0.
Definition ceil4 (n : Z) : Z := (n + 3) / 4.

Record rstate := { data_start : Z; data_end : Z; entries : Z }.

(* RawBinaryReader._preprocess_file *)
Definition preprocess : rres rstate :=
  if negb (rdw 0 =? FILE_START) then RThrow (RAssert 1) else
  if negb (rdw 8 =? FILE_NAME) then RThrow (RAssert 2) else
  let nchar_name := rdw 9 in
  let p1 := 10 + ceil4 nchar_name in
  let nchar_tag := rdw p1 in
  let p2 := p1 + 1 + ceil4 nchar_tag in
  if negb (rdw p2 =? RUN_PARAMS) then RThrow (RAssert 3) else
  let dstart := p2 + 9 in
  let size := zlen fw in
  if size <? 10 then RThrow ROsError else
  if negb (rdw (size - 10) =? FILE_TAIL_START) then RThrow (RAssert 4) else
  if negb (rdw (size - 1) =? FILE_END) then RThrow (RAssert 5) else
  ROk {| data_start := dstart; data_end := size - 10; entries := rdw (size - 6) |}.

Variable st : rstate.

(* RawBinaryReader._read_batch: for _ in range(n_blocks) ... ; returns (end position, blocks counted) *)
Fixpoint batch_scan (n : nat) (pos : Z) (count : Z) : rres (Z * Z) :=
  match n with
  | O => ROk (pos, count)
  | S n' =>
      if data_end st <=? pos then
        (if pos =? data_end st then ROk (pos, count) else RThrow (RAssert 6))
      else if negb (rdw pos =? DATA_SEPERATOR) then RThrow (RAssert 7)
      else batch_scan n' (pos + 4 + rdw (pos + 3) / 4) (count + 1)
  end.
Definition words_between (a b : Z) : list Z := firstn (Z.to_nat (b - a)) (skipn (Z.to_nat a) fw).
Definition read_batch (n_blocks : Z) (pos : Z) : rres (list Z * Z * Z) :=      (* batch words, n_read, new position *)
  match batch_scan (Z.to_nat n_blocks) pos 0 with
  | ROk (pos_end, count) => ROk (words_between pos pos_end, count, pos_end)
  | RThrow e => RThrow e
  | ROutOfFuel => ROutOfFuel
  end.

(* [lfix] selects the variant of the batch loop:
     false — the loop of the pinned tree;
     true  — proposed_fixes/C04_raw_reader_batch_loop.diff: leave the loop when a batch reads 0 blocks (end of data),
             and decode one empty buffer when nothing at all was read, so that an empty array is returned *)
Variable lfix : bool.

(* the while loop of arrays(): one iteration submits one batch *)
Fixpoint batch_loop (fuel : nat) (n_blocks per_batch : Z) (pos total : Z) (acc : list (list Z)) : rres (list (list Z)) :=
  if (total <? n_blocks) || ((n_blocks =? -1) && (pos <? data_end st)) then
    match fuel with
    | O => ROutOfFuel
    | S f =>
        let to_read := if n_blocks =? -1 then per_batch else Z.min (n_blocks - total) per_batch in
        match read_batch to_read pos with
        | ROk (batch, n_read, pos') =>
            if lfix && (n_read =? 0) then ROk acc        (* if n_read == 0: break *)
            else batch_loop f n_blocks per_batch pos' (total + n_read) (acc ++ [batch])
        | RThrow e => RThrow e
        | ROutOfFuel => ROutOfFuel
        end
    end
  else ROk acc.
End Reader.

(* the thread pool: tasks complete in the order [order] (indices into the submission list); each result is stored in
   the slot of its future; future.result() is then taken in submission order *)
Definition set_slot {A} (k : nat) (v : A) (slots : list (option A)) : list (option A) :=
  firstn k slots ++ [Some v] ++ skipn (S k) slots.
Definition run_pool {A B} (task : A -> B) (submitted : list A) (order : list nat) : list (option B) :=
  fold_left (fun slots k => match nth_error submitted k with
                            | Some a => set_slot k (task a) slots
                            | None => slots end)
            order (map (fun _ => None) submitted).

Definition lift_parse (r : res result) : rres result :=
  match r with
  | Ok x => ROk x | Throw e => RThrow (RParser e) | OOB k i => RThrow (RParserOOB k i) | OutOfFuel => ROutOfFuel
  end.
(* for future in futures: res.append(_raw_dict_to_ak(future.result())) — the first failing future raises *)
Fixpoint gather (slots : list (option (res result))) : rres (list result) :=
  match slots with
  | [] => ROk []
  | None :: _ => ROutOfFuel                  (* a future that never completed: cannot happen for a complete order *)
  | Some r :: tl =>
      match lift_parse r with
      | ROk x => match gather tl with ROk xs => ROk (x :: xs) | RThrow e => RThrow e | ROutOfFuel => ROutOfFuel end
      | RThrow e => RThrow e
      | ROutOfFuel => ROutOfFuel
      end
  end.
(* ak.concatenate(res) *)
Definition ak_concatenate (rs : list result) : rres result :=
  match rs with
  | [] => RThrow RConcatEmpty
  | r :: tl => ROk (fold_left concat_result tl r)
  end.

(* self._reset_cursor(): whatever the file position was, it becomes data_start *)
Definition reset_cursor (st : rstate) (cursor : Z) : Z := data_start st.

(* RawBinaryReader.arrays(n_blocks, n_block_per_batch, sub_detectors, max_workers) on an open reader whose file position
   is [cursor] (left there by __init__ or by an earlier arrays() call);
   [sched n] = completion order of the n decoding tasks (max_workers and the OS scheduler decide it) *)
Definition arrays_from (chk lfix : bool) (fuel : nat) (fw : list Z) (st : rstate) (cursor : Z) (n_blocks per_batch : Z)
           (names : list (option det)) (sched : nat -> list nat) : rres result :=
  let cursor := reset_cursor st cursor in
  match batch_loop fw st lfix fuel n_blocks per_batch cursor 0 [] with
  | ROk batches0 =>
      (* if not futures: submit read_bes_raw(np.empty(0)) *)
      let batches := if lfix && match batches0 with [] => true | _ => false end then [[]] else batches0 in
      match gather (run_pool (fun b => read_bes_raw_gen chk (fuel_for b) names b) batches (sched (length batches))) with
      | ROk rs => ak_concatenate rs
      | RThrow e => RThrow e
      | ROutOfFuel => ROutOfFuel
      end
  | RThrow e => RThrow e
  | ROutOfFuel => ROutOfFuel
  end.

(* open_raw(path).arrays(...): __init__ runs _preprocess_file (which ends with _reset_cursor) *)
Definition arrays_gen (chk lfix : bool) (fuel : nat) (fw : list Z) (n_blocks per_batch : Z) (names : list (option det))
           (sched : nat -> list nat) : rres result :=
  match preprocess fw with
  | ROk st => arrays_from chk lfix fuel fw st (data_start st) n_blocks per_batch names sched
  | RThrow e => RThrow e
  | ROutOfFuel => ROutOfFuel
  end.

(* submission order = completion order (max_workers = 1) *)
Definition in_order (n : nat) : list nat := seq 0 n.
(* fuel that is enough whenever the loop terminates at all on a well-formed file: one iteration per block + 1 *)
Definition reader_fuel (fw : list Z) : nat := S (length fw).

(* pybes3.concatenate_raw(files): per file arrays(-1, ...) then ak.concatenate *)
Fixpoint all_ok {A} (l : list (rres A)) : rres (list A) :=
  match l with
  | [] => ROk []
  | ROk x :: tl => match all_ok tl with ROk xs => ROk (x :: xs) | RThrow e => RThrow e | ROutOfFuel => ROutOfFuel end
  | RThrow e :: _ => RThrow e
  | ROutOfFuel :: _ => ROutOfFuel
  end.
Definition concatenate_gen (chk lfix : bool) (files : list (list Z)) (per_batch : Z) (names : list (option det)) : rres result :=
  match all_ok (map (fun fw => arrays_gen chk lfix (reader_fuel fw) fw (-1) per_batch names in_order) files) with
  | ROk rs => ak_concatenate rs
  | RThrow e => RThrow e
  | ROutOfFuel => ROutOfFuel
  end.

(* pybes3.concatenate_raw(<pattern>): glob.glob hands the matching files over in directory-enumeration order - SOME order of the
   directory's (name, content) pairs - and the reader sorts them by name before reading.  A name is modelled by a number: any
   order embedding of the path strings (Python compares str lexicographically by code point, a strict total order). *)
Fixpoint insert_by_name (x : Z * list Z) (l : list (Z * list Z)) : list (Z * list Z) :=
  match l with
  | [] => [x]
  | y :: t => if fst x <=? fst y then x :: l else y :: insert_by_name x t
  end.
Definition sort_by_name (l : list (Z * list Z)) : list (Z * list Z) := fold_right insert_by_name [] l.
Definition concatenate_pattern (chk lfix : bool) (listing : list (Z * list Z)) (per_batch : Z) (names : list (option det)) : rres result :=
  concatenate_gen chk lfix (map snd (sort_by_name listing)) per_batch names.
(* concatenate_raw(<one name, not a list>): the name of an existing file is that file; anything else is a pattern *)
Definition concatenate_name (chk lfix : bool) (named_file : option (list Z)) (listing : list (Z * list Z)) (per_batch : Z)
           (names : list (option det)) : rres result :=
  match named_file with
  | Some fw => concatenate_gen chk lfix [fw] per_batch names
  | None => concatenate_pattern chk lfix listing per_batch names
  end.
