(* PV.Model.RawParserFixed — the parser model with the bounds-checked primitives of
   proposed_fixes/C15_raw_parser_bounds.diff (chk = true instance of PV.Model.RawParser):
     read()/read(n)/skip()/skip(n) throw "Unexpected end of raw data" when fewer than 1 / n words remain,
     read_ROB throws "Invalid ROD status/data count" when the erase range would leave the temporary vector.
   Theorems about it: PV.Props.C15 (parser_memory_safe, parser_terminates, exact guard w.r.t. the unchecked variant). *)
From Coq Require Import ZArith List.
From PV.Model Require Import RawFormat RawParser.
Import ListNotations.

Definition parse_fixed (sel : list det) (buf : list Z) : res result := parse_gen true (fuel_for buf) sel buf.
Definition read_bes_raw_fixed (names : list (option det)) (buf : list Z) : res result :=
  read_bes_raw_gen true (fuel_for buf) names buf.
