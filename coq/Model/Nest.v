(* PV.Model.Nest — minimal model of Awkward nesting used by C07 and C14: uniformly nested lists of tracks / identifiers,
   per-level counts (_extract_index), flattening, ak.unflatten, the rebuild loop, and the induction over the depth. *)
From Coq Require Import List Lia Arith Bool.
Import ListNotations.

(* ------------------------------------------------------------------------------------------------------------ *)
(* Layout model.  An Awkward array of tracks nested d levels deep = list of `nest` trees of uniform depth d.       *)
Inductive nest (A : Type) : Type := Leaf (a : A) | Node (l : list (nest A)).
Arguments Leaf {A} a. Arguments Node {A} l.

Fixpoint nest_map {A B} (f : A -> B) (n : nest A) : nest B :=
  match n with Leaf a => Leaf (f a) | Node l => Node (map (nest_map f) l) end.

Definition kids {A} (n : nest A) : list (nest A) := match n with Node l => l | Leaf _ => [] end.
Definition is_node {A} (n : nest A) : Prop := match n with Node _ => True | Leaf _ => False end.
Definition is_leaf {A} (n : nest A) : Prop := match n with Leaf _ => True | Node _ => False end.
Definition children {A} (xs : list (nest A)) : list (nest A) := concat (map kids xs).
Definition counts_top {A} (xs : list (nest A)) : list nat := map (fun n => length (kids n)) xs.

(* uniform depth d: d levels of lists above the tracks *)
Fixpoint uniform {A} (d : nat) (xs : list (nest A)) : Prop :=
  match d with
  | O => Forall is_leaf xs
  | S d' => Forall is_node xs /\ uniform d' (children xs)
  end.

(* _extract_index: per-level counts, outermost level first (offsets[1:] - offsets[:-1] of each ListOffsetArray level) *)
Fixpoint extract_index {A} (d : nat) (xs : list (nest A)) : list (list nat) :=
  match d with O => [] | S d' => counts_top xs :: extract_index d' (children xs) end.

(* ak.flatten(axis=None): the tracks in layout order *)
Fixpoint flat {A} (d : nat) (xs : list (nest A)) : list A :=
  match d with
  | O => concat (map (fun n => match n with Leaf a => [a] | Node _ => [] end) xs)
  | S d' => flat d' (children xs)
  end.

(* ak.unflatten(array, counts) at axis 0; None models the ValueError when the counts do not fit *)
Fixpoint group {B} (counts : list nat) (xs : list B) : option (list (list B)) :=
  match counts with
  | [] => match xs with [] => Some [] | _ => None end
  | c :: cs => if length xs <? c then None
               else match group cs (skipn c xs) with Some r => Some (firstn c xs :: r) | None => None end
  end.
Definition unflatten {A} (counts : list nat) (xs : list (nest A)) : option (list (nest A)) :=
  match group counts xs with Some g => Some (map Node g) | None => None end.

(* the rebuild loop: `for count in <counts list>: res = ak.unflatten(res, count)` *)
Fixpoint rebuild {A} (levels : list (list nat)) (xs : list (nest A)) : option (list (nest A)) :=
  match levels with [] => Some xs | c :: rest => match unflatten c xs with Some ys => rebuild rest ys | None => None end end.

Lemma group_concat {B} (ls : list (list B)) : group (map (@length B) ls) (concat ls) = Some ls.
Proof.
  induction ls as [|l ls IH]; [reflexivity|]. cbn [map concat group].
  rewrite app_length. destruct (Nat.ltb_spec (length l + length (concat ls)) (length l)); [lia|].
  rewrite skipn_app, skipn_all, Nat.sub_diag. cbn [skipn app]. rewrite IH.
  rewrite firstn_app, firstn_all, Nat.sub_diag. cbn [firstn]. rewrite app_nil_r. reflexivity.
Qed.

Lemma unflatten_children {A} (xs : list (nest A)) : Forall is_node xs ->
  unflatten (counts_top xs) (children xs) = Some xs.
Proof.
  intro H. unfold unflatten, counts_top, children.
  replace (map (fun n => length (kids n)) xs) with (map (@length (nest A)) (map kids xs)) by (rewrite map_map; reflexivity).
  rewrite group_concat. f_equal. rewrite map_map.
  induction H as [|x l Hx Hl IH]; [reflexivity|]. cbn [map]. rewrite IH. destruct x; [destruct Hx|reflexivity].
Qed.

Lemma rebuild_app {A} l1 l2 (xs : list (nest A)) :
  rebuild (l1 ++ l2) xs = match rebuild l1 xs with Some ys => rebuild l2 ys | None => None end.
Proof. revert xs. induction l1 as [|c l1 IH]; intro xs; [reflexivity|]. cbn [app rebuild]. destruct (unflatten c xs); [apply IH|reflexivity]. Qed.

Lemma children_map {A B} (f : A -> B) (xs : list (nest A)) : children (map (nest_map f) xs) = map (nest_map f) (children xs).
Proof.
  unfold children. induction xs as [|x xs IH]; [reflexivity|]. cbn [map concat]. rewrite IH, map_app. f_equal.
  destruct x; reflexivity.
Qed.

Lemma leaves_rebuild {A B} (f : A -> B) (xs : list (nest A)) : Forall is_leaf xs ->
  map (@Leaf B) (map f (flat 0 xs)) = map (nest_map f) xs.
Proof.
  intro H. cbn [flat]. induction H as [|x l Hx Hl IH]; [reflexivity|].
  destruct x as [a|l']; [|destruct Hx]. cbn [map concat app nest_map]. f_equal. exact IH.
Qed.

Lemma is_node_map {A B} (f : A -> B) (xs : list (nest A)) : Forall is_node xs -> Forall is_node (map (nest_map f) xs).
Proof.
  intro H. induction H as [|x l Hx Hl IH]; cbn [map].
  - constructor.
  - constructor; [destruct x; [destruct Hx | exact I] | exact IH].
Qed.

Lemma counts_top_map {A B} (f : A -> B) (xs : list (nest A)) : counts_top (map (nest_map f) xs) = counts_top xs.
Proof. unfold counts_top. rewrite map_map. apply map_ext. intros [a|l]; cbn; [reflexivity|apply map_length]. Qed.

Lemma layout_preserved (A B : Type) (f : A -> B) d : forall (xs : list (nest A)), uniform d xs ->
  rebuild (rev (extract_index d xs)) (map (@Leaf B) (map f (flat d xs))) = Some (map (nest_map f) xs).
Proof.
  induction d as [|d IH]; intros xs H.
  - cbn [extract_index rev rebuild]. f_equal. apply leaves_rebuild. exact H.
  - destruct H as [Hn Hu]. cbn [extract_index rev flat]. rewrite rebuild_app, (IH _ Hu). cbn [rebuild].
    rewrite <- children_map, <- (counts_top_map f). rewrite unflatten_children; [reflexivity|].
    apply is_node_map. exact Hn.
Qed.

Lemma outermost_first_refuted : exists (xs : list (nest nat)), uniform 2 xs /\
  rebuild (extract_index 2 xs) (map (@Leaf nat) (flat 2 xs)) = None.
Proof.
  exists [Node [Node [Leaf 1; Leaf 2]; Node []]; Node [Node [Leaf 3]]]%nat. split; [cbn; repeat (first [exact I | split | constructor]) | reflexivity].
Qed.
