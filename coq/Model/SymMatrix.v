(* PV.Model.SymMatrix — vocabulary and generic lemmas for the packed symmetric matrix reader (C16).
   The CODE (index expression, constructor check, read loop, Python factory arithmetic) is NOT here: it is
   regenerated from root_io.hh / root_io.py into PV.Gen.SymMatrixCode on every run.  This file fixes
     * the C++ integer semantics used by the translator: `int` = 32-bit two's complement with wrap-around
       written explicitly (wrap32), conversion to uint32_t (u32), truncating division (Z.quot);
     * the loop / container combinators the translator targets (zrange, nthZ, grid, reshape_m1);
     * the SPECIFICATION side of the property: tri n = n(n+1)/2 and pidx i j = max(max+1)/2 + min. *)
From Coq Require Import ZArith List Lia Bool.
Import ListNotations.
Local Open Scope Z_scope.

(* ---------------------------------------------------------------- machine integers *)
Definition wrap32 (x : Z) : Z := (x + 2147483648) mod 4294967296 - 2147483648.
Definition u32 (x : Z) : Z := x mod 4294967296.
Definition INT_MAX : Z := 2147483647.

Lemma wrap32_id x : -2147483648 <= x <= 2147483647 -> wrap32 x = x.
Proof. intros H. unfold wrap32. rewrite Z.mod_small by lia. lia. Qed.
Lemma wrap32_range x : -2147483648 <= wrap32 x <= 2147483647.
Proof. unfold wrap32. pose proof (Z.mod_pos_bound (x + 2147483648) 4294967296 ltac:(lia)). lia. Qed.
Lemma u32_id x : 0 <= x < 4294967296 -> u32 x = x.
Proof. intros H. unfold u32. apply Z.mod_small. lia. Qed.
Lemma u32_neg x : -2147483648 <= x < 0 -> u32 x = x + 4294967296.
Proof. intros H. unfold u32. symmetry. apply (Z.mod_unique_pos x 4294967296 (-1)); lia. Qed.

(* ---------------------------------------------------------------- loops and containers *)
(* for (v = lo; v < hi; v++) *)
Definition zrange (lo hi : Z) : list Z := map (fun k => lo + Z.of_nat k) (seq 0 (Z.to_nat (hi - lo))).
(* v[i] with an explicit out-of-range marker d *)
Definition nthZ {A} (d : A) (l : list A) (i : Z) : A := if i <? 0 then d else nth (Z.to_nat i) l d.
Definition in_bounds (len i : Z) : bool := (0 <=? i) && (i <? len).
(* for i in [0,n) for j in [0,n) push f i j   (row-major push order) *)
Definition grid {A} (n : Z) (f : Z -> Z -> A) : list A :=
  flat_map (fun i => map (fun j => f i j) (zrange 0 n)) (zrange 0 n).
Definition zprod (l : list Z) : Z := fold_right Z.mul 1 l.
Definition zlen {A} (l : list A) : Z := Z.of_nat (length l).

Fixpoint chunk {A} (fuel k : nat) (l : list A) : list (list A) :=
  match fuel with
  | O => []
  | S f => match l with [] => [] | _ => firstn k l :: chunk f k (skipn k l) end
  end.
Definition chunks {A} (k : nat) (l : list A) : list (list A) := chunk (length l) k l.
(* numpy: raw.reshape(-1, d1, d2) on a flat array; None = numpy raises *)
Definition reshape_m1 {A} (d1 d2 : Z) (raw : list A) : option (list (list (list A))) :=
  if (d1 <=? 0) || (d2 <=? 0) then None
  else if negb (zlen raw mod (d1 * d2) =? 0) then None
  else Some (map (chunks (Z.to_nat d2)) (chunks (Z.to_nat (d1 * d2)) raw)).

(* ---------------------------------------------------------------- specification side *)
Definition tri (n : Z) : Z := n * (n + 1) / 2.
Definition pidx (i j : Z) : Z := Z.max i j * (Z.max i j + 1) / 2 + Z.min i j.

Lemma tri_double n : 2 * tri n = n * (n + 1).
Proof.
  unfold tri. assert (H : (n * (n + 1)) mod 2 = 0).
  { rewrite Z.mul_mod by lia. rewrite Z.add_mod by lia.
    pose proof (Z.mod_pos_bound n 2 ltac:(lia)).
    assert (n mod 2 = 0 \/ n mod 2 = 1) as [->| ->] by lia; reflexivity. }
  pose proof (Z.div_mod (n * (n + 1)) 2 ltac:(lia)). lia.
Qed.
Lemma tri_succ n : tri (n + 1) = tri n + n + 1.
Proof. pose proof (tri_double n). pose proof (tri_double (n + 1)). nia. Qed.
Lemma tri_nonneg n : 0 <= n -> 0 <= tri n.
Proof. intros. pose proof (tri_double n). nia. Qed.
Lemma tri_mono a b : 0 <= a <= b -> tri a <= tri b.
Proof. intros. pose proof (tri_double a). pose proof (tri_double b). nia. Qed.
Lemma tri_0 : tri 0 = 0. Proof. reflexivity. Qed.

Lemma pidx_sym i j : pidx i j = pidx j i.
Proof. unfold pidx. rewrite (Z.max_comm i j), (Z.min_comm i j). reflexivity. Qed.
Lemma pidx_tri i j : pidx i j = tri (Z.max i j) + Z.min i j.
Proof. reflexivity. Qed.
Lemma pidx_range n i j : 0 <= i < n -> 0 <= j < n -> 0 <= pidx i j < tri n.
Proof.
  intros Hi Hj. rewrite pidx_tri.
  pose proof (tri_nonneg (Z.max i j) ltac:(lia)).
  pose proof (tri_succ (Z.max i j)).
  pose proof (tri_mono (Z.max i j + 1) n ltac:(lia)). lia.
Qed.
(* the packed index map is a bijection between {(i,j) | j <= i < n} and [0, tri n): every packed entry is used *)
Lemma pidx_inj i j i' j' : 0 <= j <= i -> 0 <= j' <= i' -> pidx i j = pidx i' j' -> i = i' /\ j = j'.
Proof.
  intros H H' E. rewrite !pidx_tri in E.
  rewrite !Z.max_l, !Z.min_r in E by lia.
  destruct (Z.lt_trichotomy i i') as [L|[->|L]].
  - pose proof (tri_mono (i + 1) i' ltac:(lia)). pose proof (tri_succ i). lia.
  - lia.
  - pose proof (tri_mono (i' + 1) i ltac:(lia)). pose proof (tri_succ i'). lia.
Qed.

(* ---------------------------------------------------------------- list lemmas *)
Lemma zrange_length lo hi : length (zrange lo hi) = Z.to_nat (hi - lo).
Proof. unfold zrange. now rewrite map_length, seq_length. Qed.
Lemma zrange_In lo hi x : In x (zrange lo hi) <-> lo <= x < hi.
Proof.
  unfold zrange. rewrite in_map_iff. split.
  - intros (k & <- & Hk). apply in_seq in Hk. lia.
  - intros H. exists (Z.to_nat (x - lo)). split; [lia|]. apply in_seq. lia.
Qed.
Lemma nth_map_lt {A B} (f : A -> B) (l : list A) k d d' : (k < length l)%nat -> nth k (map f l) d = f (nth k l d').
Proof.
  revert k. induction l as [|a l IH]; intros k H; simpl in *; [lia|].
  destruct k; [reflexivity|]. apply IH. lia.
Qed.
Lemma zrange_nth lo hi k d : (k < Z.to_nat (hi - lo))%nat -> nth k (zrange lo hi) d = lo + Z.of_nat k.
Proof.
  intros H. unfold zrange.
  rewrite (nth_map_lt _ _ _ _ 0%nat) by (now rewrite seq_length).
  rewrite seq_nth by lia. reflexivity.
Qed.

Lemma nth_flat_map_const {A B} (g : A -> list B) (k : nat) (da : A) (d : B) :
  forall l, (forall a, In a l -> length (g a) = k) ->
  forall i j, (i < length l)%nat -> (j < k)%nat ->
  nth (i * k + j) (flat_map g l) d = nth j (g (nth i l da)) d.
Proof.
  induction l as [|a l IH]; intros Hl i j Hi Hj; simpl in *; [lia|].
  destruct i as [|i].
  - simpl. rewrite app_nth1; [reflexivity|]. rewrite Hl by auto. exact Hj.
  - rewrite app_nth2 by (rewrite Hl by auto; simpl; lia).
    rewrite Hl by auto. replace (S i * k + j - k)%nat with (i * k + j)%nat by (simpl; lia).
    apply IH; auto; lia.
Qed.
Lemma length_flat_map_const {A B} (g : A -> list B) (k : nat) :
  forall l, (forall a, In a l -> length (g a) = k) -> length (flat_map g l) = (length l * k)%nat.
Proof.
  induction l as [|a l IH]; intros Hl; simpl; [reflexivity|].
  rewrite app_length. rewrite (Hl a) by (simpl; auto). rewrite IH; [reflexivity|].
  intros; apply Hl; simpl; auto.
Qed.

Lemma grid_length {A} n (f : Z -> Z -> A) : 0 <= n -> zlen (grid n f) = n * n.
Proof.
  intros Hn. unfold zlen, grid.
  rewrite (length_flat_map_const _ (Z.to_nat n)).
  - rewrite zrange_length. replace (n - 0) with n by lia. lia.
  - intros a _. rewrite map_length, zrange_length. f_equal. lia.
Qed.
Lemma grid_nth {A} n (f : Z -> Z -> A) d i j : 0 <= i < n -> 0 <= j < n ->
  nthZ d (grid n f) (i * n + j) = f i j.
Proof.
  intros Hi Hj. unfold nthZ.
  assert (i * n + j <? 0 = false) as -> by (apply Z.ltb_ge; nia).
  replace (Z.to_nat (i * n + j)) with (Z.to_nat i * Z.to_nat n + Z.to_nat j)%nat by nia.
  unfold grid.
  rewrite (nth_flat_map_const _ (Z.to_nat n) 0 d).
  - rewrite zrange_nth by lia.
    rewrite (nth_map_lt _ _ _ _ 0) by (rewrite zrange_length; lia).
    rewrite zrange_nth by lia.
    f_equal; lia.
  - intros a _. rewrite map_length, zrange_length. f_equal. lia.
  - rewrite zrange_length. lia.
  - lia.
Qed.
Lemma grid_In {A} n (f : Z -> Z -> A) x : In x (grid n f) <-> exists i j, 0 <= i < n /\ 0 <= j < n /\ x = f i j.
Proof.
  unfold grid. rewrite in_flat_map. split.
  - intros (i & Hi & Hx). apply in_map_iff in Hx. destruct Hx as (j & <- & Hj).
    apply zrange_In in Hi, Hj. exists i, j. repeat split; lia.
  - intros (i & j & Hi & Hj & ->). exists i. split; [apply zrange_In; lia|].
    apply in_map_iff. exists j. split; [reflexivity|apply zrange_In; lia].
Qed.

Lemma chunk_concat {A} (k : nat) : (0 < k)%nat ->
  forall (ls : list (list A)) fuel, (forall x, In x ls -> length x = k) -> (length ls <= fuel)%nat ->
  chunk fuel k (concat ls) = ls.
Proof.
  intros Hk. induction ls as [|x ls IH]; intros fuel Hl Hf.
  - destruct fuel; reflexivity.
  - destruct fuel as [|fuel]; [simpl in Hf; lia|].
    simpl concat. assert (Hx : length x = k) by (apply Hl; simpl; auto).
    simpl chunk. destruct (x ++ concat ls) eqn:E.
    + apply (f_equal (@length A)) in E. rewrite app_length in E. simpl in E. lia.
    + rewrite <- E. clear E.
      assert (F : firstn k (x ++ concat ls) = x).
      { subst k. rewrite firstn_app, Nat.sub_diag, firstn_all, firstn_O, app_nil_r. reflexivity. }
      assert (S : skipn k (x ++ concat ls) = concat ls).
      { subst k. rewrite skipn_app, Nat.sub_diag, skipn_all. reflexivity. }
      rewrite F, S.
      f_equal. apply IH; [intros; apply Hl; simpl; auto|simpl in Hf; lia].
Qed.
Lemma chunks_concat {A} (k : nat) (ls : list (list A)) : (0 < k)%nat ->
  (forall x, In x ls -> length x = k) -> chunks k (concat ls) = ls.
Proof.
  intros Hk Hl. unfold chunks. apply chunk_concat; auto.
  clear - Hk Hl. induction ls as [|x ls IH]; simpl; [lia|].
  rewrite app_length. rewrite (Hl x) by (simpl; auto).
  assert (length ls <= length (concat ls))%nat by (apply IH; intros; apply Hl; simpl; auto). lia.
Qed.
Lemma concat_length_const {A} (k : nat) (ls : list (list A)) :
  (forall x, In x ls -> length x = k) -> length (concat ls) = (length ls * k)%nat.
Proof.
  induction ls as [|x ls IH]; intros Hl; simpl; [reflexivity|].
  rewrite app_length. rewrite (Hl x) by (simpl; auto). rewrite IH; [reflexivity|].
  intros; apply Hl; simpl; auto.
Qed.

(* ---------------------------------------------------------------- reading from a stream of 64-bit patterns *)
(* values are bit patterns in [0, 2^64); OOB marks a vector access outside [0, size) *)
Definition OOB : Z := -1.
(* one read() call: `count` values are taken from the stream into flat_array[0..count), then flat_array[idx] is
   pushed for every idx of `indices` in order *)
Definition read_with (count : Z) (indices : list Z) (stream : list Z) : option (list Z * list Z) :=
  if (count <? 0) || (zlen stream <? count) then None
  else let flat_array := firstn (Z.to_nat count) stream in
       Some (map (nthZ OOB flat_array) indices, skipn (Z.to_nat count) stream).
(* k consecutive read() calls on the same reader: m_data accumulates by push_back *)
Fixpoint iter_read (rd : list Z -> option (list Z * list Z)) (k : nat) (stream : list Z) : option (list Z * list Z) :=
  match k with
  | O => Some ([], stream)
  | S k' => match rd stream with
            | None => None
            | Some (out, s') => match iter_read rd k' s' with
                                | None => None
                                | Some (outs, s'') => Some (out ++ outs, s'')
                                end
            end
  end.

Lemma read_with_exact count indices p rest : zlen p = count ->
  read_with count indices (p ++ rest) = Some (map (nthZ OOB p) indices, rest).
Proof.
  intros H. unfold read_with, zlen in *. rewrite app_length.
  assert ((count <? 0) || (Z.of_nat (length p + length rest) <? count) = false) as ->.
  { apply orb_false_iff. split; apply Z.ltb_ge; lia. }
  replace (Z.to_nat count) with (length p) by lia.
  rewrite firstn_app, Nat.sub_diag, firstn_all, firstn_O, app_nil_r.
  rewrite skipn_app, Nat.sub_diag, skipn_all. reflexivity.
Qed.
Lemma iter_read_concat (rd : list Z -> option (list Z * list Z)) (ex : list Z -> list Z) :
  forall (ps : list (list Z)) rest,
  (forall p r, In p ps -> rd (p ++ r) = Some (ex p, r)) ->
  iter_read rd (length ps) (concat ps ++ rest) = Some (concat (map ex ps), rest).
Proof.
  induction ps as [|p ps IH]; intros rest H; simpl; [reflexivity|].
  rewrite <- app_assoc. rewrite H by (simpl; auto).
  rewrite IH by (intros; apply H; simpl; auto). reflexivity.
Qed.
