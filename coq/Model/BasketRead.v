(* PV.Model.BasketRead — how a BES3 collection branch is read basket by basket (M-ROOT glue, the part C02 needs).

   Mirrors, line by line:
   * uproot  TBranch.entries_to_ranges_or_baskets      -> [loaded]        (which baskets get decoded for [a,b))
   * uproot_custom  AsCustom.final_array               -> [basket_range], [final_array]
         basket_entry_starts = np.array(entry_offsets[:-1]);  basket_entry_stops = np.array(entry_offsets[1:])
         basket_start_idx = np.where(basket_entry_starts <= entry_start)[0].max()
         basket_end_idx   = np.where(basket_entry_stops  >= entry_stop )[0].min()
         arr_to_concat = [basket_arrays[i] for i in range(basket_start_idx, basket_end_idx + 1)]
         tot_array = ak.concatenate(arr_to_concat)
         relative_entry_start = entry_start - basket_entry_starts[basket_start_idx]
         relative_entry_stop  = entry_stop  - basket_entry_starts[basket_start_idx]
         return tot_array[relative_entry_start:relative_entry_stop]
   * pybes3  Bes3Interpretation.final_array            -> [bes3_final_array]  (post-processing after trimming)
   * root_io.hh  Bes3TObjArrayReader                   -> [rread], [read_basket]   (uint32 offsets restart at 0 per basket)
   * root_io.hh  Bes3CgemClusterColReader              -> [cg_read_event], [cg_read_basket]  (sticky m_version)
   * uproot  TTree.iterate step ranges                 -> [iterate_ranges]                                      *)
From Coq Require Import String ZArith Lia Bool List.
Import ListNotations.
From PV.Model Require Import AwkList.
Local Open Scope Z_scope.

Set Implicit Arguments.

(* ------------------------------------------------------------------------------------------------ *)
(** * numpy index helpers *)

(* np.where(cond)[0] *)
Fixpoint where_from (i : nat) (p : Z -> bool) (xs : list Z) : list nat :=
  match xs with
  | [] => []
  | x :: r => if p x then i :: where_from (S i) p r else where_from (S i) p r
  end.
Definition np_where (p : Z -> bool) (xs : list Z) : list nat := where_from 0 p xs.

(* .max() / .min() of an index array; on an empty array numpy raises ValueError -> None *)
Definition idx_max (l : list nat) : option nat := match l with [] => None | x :: r => Some (fold_left Nat.max r x) end.
Definition idx_min (l : list nat) : option nat := match l with [] => None | x :: r => Some (fold_left Nat.min r x) end.

Lemma in_where_from p xs : forall i k,
  In k (where_from i p xs) <-> exists j, k = (i + j)%nat /\ (j < length xs)%nat /\ p (nth j xs 0) = true.
Proof.
  induction xs as [|x r IH]; intros i k; simpl.
  - split; [tauto|]. intros (j & _ & Hj & _). lia.
  - destruct (p x) eqn:E; simpl; rewrite IH; split.
    + intros [<-|(j & -> & Hj & Hp)]; [exists 0%nat; repeat split; auto; lia|].
      exists (S j). repeat split; auto; lia.
    + intros (j & -> & Hj & Hp). destruct j as [|j]; [left; lia|]. right. exists j. repeat split; auto; lia.
    + intros (j & -> & Hj & Hp). exists (S j). repeat split; auto; lia.
    + intros (j & -> & Hj & Hp). destruct j as [|j]; [congruence|]. exists j. repeat split; auto; lia.
Qed.

Lemma in_np_where p xs k : In k (np_where p xs) <-> (k < length xs)%nat /\ p (nth k xs 0) = true.
Proof.
  unfold np_where. rewrite in_where_from. split.
  - intros (j & -> & H). exact H.
  - intros H. exists k. split; [reflexivity|exact H].
Qed.

Lemma fold_max_spec r : forall x, In (fold_left Nat.max r x) (x :: r) /\ forall y, In y (x :: r) -> (y <= fold_left Nat.max r x)%nat.
Proof.
  induction r as [|z r IH]; intros x; simpl.
  - split; [auto|]. intros y [<-|[]]. lia.
  - destruct (IH (Nat.max x z)) as [Hin Hmax]. split.
    + destruct Hin as [H|H]; [|auto]. rewrite <- H. destruct (Nat.max_spec x z) as [[_ ->]|[_ ->]]; auto.
    + intros y [<-|[<-|Hy]].
      * specialize (Hmax (Nat.max x z) (or_introl eq_refl)). lia.
      * specialize (Hmax (Nat.max x z) (or_introl eq_refl)). lia.
      * apply Hmax. right. exact Hy.
Qed.

Lemma fold_min_spec r : forall x, In (fold_left Nat.min r x) (x :: r) /\ forall y, In y (x :: r) -> (fold_left Nat.min r x <= y)%nat.
Proof.
  induction r as [|z r IH]; intros x; simpl.
  - split; [auto|]. intros y [<-|[]]. lia.
  - destruct (IH (Nat.min x z)) as [Hin Hmin]. split.
    + destruct Hin as [H|H]; [|auto]. rewrite <- H. destruct (Nat.min_spec x z) as [[_ ->]|[_ ->]]; auto.
    + intros y [<-|[<-|Hy]].
      * specialize (Hmin (Nat.min x z) (or_introl eq_refl)). lia.
      * specialize (Hmin (Nat.min x z) (or_introl eq_refl)). lia.
      * apply Hmin. right. exact Hy.
Qed.

Lemma idx_max_spec l : l <> [] -> exists m, idx_max l = Some m /\ In m l /\ forall y, In y l -> (y <= m)%nat.
Proof. destruct l as [|x r]; [congruence|]. intros _. exists (fold_left Nat.max r x). split; [reflexivity|]. apply fold_max_spec. Qed.

Lemma idx_min_spec l : l <> [] -> exists m, idx_min l = Some m /\ In m l /\ forall y, In y l -> (m <= y)%nat.
Proof. destruct l as [|x r]; [congruence|]. intros _. exists (fold_left Nat.min r x). split; [reflexivity|]. apply fold_min_spec. Qed.

(* ------------------------------------------------------------------------------------------------ *)
(** * entry offsets, basket selection, final_array *)

(* TBranch.entry_offsets (fBasketEntry): prefix sums of the basket sizes, starting at 0 *)
Definition entry_offsets (sizes : list nat) : list Z := psums (map Z.of_nat sizes).

Definition starts_of (offsets : list Z) : list Z := firstn (length offsets - 1) offsets.  (* entry_offsets[:-1] *)
Definition stops_of (offsets : list Z) : list Z := tl offsets.                               (* entry_offsets[1:]  *)

Definition basket_range (entry_start entry_stop : Z) (offsets : list Z) : option (nat * nat) :=
  match idx_max (np_where (fun s => s <=? entry_start) (starts_of offsets)),
        idx_min (np_where (fun s => s >=? entry_stop) (stops_of offsets)) with
  | Some si, Some ei => Some (si, ei)
  | _, _ => None
  end.

Fixpoint mapM {X Y} (f : X -> option Y) (l : list X) : option (list Y) :=
  match l with
  | [] => Some []
  | x :: r => match f x, mapM f r with Some y, Some ys => Some (y :: ys) | _, _ => None end
  end.

Definition py_range (lo hi : nat) : list nat := seq lo (hi - lo).     (* range(lo, hi) *)

Section FinalArray.
  Context {A : Type}.

  (* basket_arrays is a dict basket number -> array (a missing key raises KeyError -> None) *)
  Definition final_array (basket_arrays : nat -> option (loa A)) (entry_start entry_stop : Z) (offsets : list Z)
    : option (loa A) :=
    match basket_range entry_start entry_stop offsets with
    | None => None
    | Some (si, ei) =>
      match mapM basket_arrays (py_range si (ei + 1)) with
      | None => None
      | Some arr_to_concat =>
        match loa_concat_list arr_to_concat with
        | None => None
        | Some tot =>
          let rs := entry_start - nth si (starts_of offsets) 0 in
          let re := entry_stop - nth si (starts_of offsets) 0 in
          if rs <? 0 then None     (* a negative slice bound would mean "from the end" in Python: never reached *)
          else Some (loa_slice (Z.to_nat rs) (Z.to_nat re) tot)
        end
      end
    end.

  (* uproot decodes exactly the baskets that overlap [a,b) (entries_to_ranges_or_baskets) *)
  Definition overlaps (a b start stop : Z) : bool :=
    (a <? stop) && ((start <? b) || ((a =? b) && (b =? start))).
  Definition loaded (offsets : list Z) (a b : Z) (i : nat) : bool :=
    (S i <? length offsets)%nat && overlaps a b (nth i offsets 0) (nth (S i) offsets 0).
  Definition basket_dict (arrs : list (loa A)) (offsets : list Z) (a b : Z) : nat -> option (loa A) :=
    fun i => if loaded offsets a b i then nth_error arrs i else None.
End FinalArray.

(* Bes3Interpretation.final_array: super().final_array(...) then preprocess_subbranch *)
Definition bes3_final_array {A B} (post : loa A -> loa B) (basket_arrays : nat -> option (loa A)) a b offsets :=
  option_map post (final_array basket_arrays a b offsets).

(* ------------------------------------------------------------------------------------------------ *)
(** * arithmetic of the offsets *)

Definition nsum (xs : list nat) : nat := fold_right Nat.add 0%nat xs.

Lemma nsum_app xs ys : nsum (xs ++ ys) = (nsum xs + nsum ys)%nat.
Proof. induction xs; simpl; lia. Qed.

Lemma zsum_of_nat xs : zsum (map Z.of_nat xs) = Z.of_nat (nsum xs).
Proof. induction xs; simpl; lia. Qed.

Lemma nsum_firstn_mono xs i j : (i <= j)%nat -> (nsum (firstn i xs) <= nsum (firstn j xs))%nat.
Proof.
  revert i j; induction xs as [|x r IH]; intros i j H.
  - rewrite !firstn_nil. lia.
  - destruct i; [simpl; lia|]. destruct j; [lia|]. simpl. specialize (IH i j). lia.
Qed.

Lemma nsum_firstn_S xs i : (i < length xs)%nat -> nsum (firstn (S i) xs) = (nsum (firstn i xs) + nth i xs 0)%nat.
Proof.
  revert i; induction xs as [|x r IH]; intros i H; [simpl in H; lia|].
  destruct i as [|i]; [simpl; lia|]. simpl in H.
  rewrite (firstn_cons (S i) x r), (firstn_cons i x r).
  change (nsum (x :: firstn (S i) r)) with (x + nsum (firstn (S i) r))%nat.
  change (nsum (x :: firstn i r)) with (x + nsum (firstn i r))%nat.
  rewrite IH by lia. simpl. lia.
Qed.

Lemma nsum_concat_lengths A (bs : list (list A)) : nsum (map (@length A) bs) = length (concat bs).
Proof. induction bs as [|b r IH]; simpl; [reflexivity|]. rewrite app_length. lia. Qed.

Lemma entry_offsets_length sizes : length (entry_offsets sizes) = S (length sizes).
Proof. unfold entry_offsets, psums. rewrite psums_from_length, map_length. reflexivity. Qed.

Lemma entry_offsets_nth sizes i : (i <= length sizes)%nat -> nth i (entry_offsets sizes) 0 = Z.of_nat (nsum (firstn i sizes)).
Proof.
  intros H. unfold entry_offsets, psums. rewrite psums_from_nth by (rewrite map_length; lia).
  rewrite firstn_map, zsum_of_nat. lia.
Qed.

Lemma nth_firstn_lt A (l : list A) n i d : (i < n)%nat -> nth i (firstn n l) d = nth i l d.
Proof.
  revert n i; induction l as [|x r IH]; intros n i H.
  - rewrite firstn_nil. reflexivity.
  - destruct n; [lia|]. destruct i; [reflexivity|]. simpl. apply IH. lia.
Qed.

Lemma nth_tl A (l : list A) i d : nth i (tl l) d = nth (S i) l d.
Proof. destruct l; simpl; [destruct i; reflexivity|reflexivity]. Qed.

Lemma starts_length sizes : length (starts_of (entry_offsets sizes)) = length sizes.
Proof. unfold starts_of. rewrite firstn_length, entry_offsets_length. lia. Qed.

Lemma stops_length sizes : length (stops_of (entry_offsets sizes)) = length sizes.
Proof.
  unfold stops_of. pose proof (entry_offsets_length sizes) as H.
  destruct (entry_offsets sizes); simpl in *; lia.
Qed.

Lemma starts_nth sizes i : (i < length sizes)%nat ->
  nth i (starts_of (entry_offsets sizes)) 0 = Z.of_nat (nsum (firstn i sizes)).
Proof.
  intros H. unfold starts_of. rewrite entry_offsets_length.
  rewrite nth_firstn_lt by lia. apply entry_offsets_nth. lia.
Qed.

Lemma stops_nth sizes i : (i < length sizes)%nat ->
  nth i (stops_of (entry_offsets sizes)) 0 = Z.of_nat (nsum (firstn (S i) sizes)).
Proof. intros H. unfold stops_of. rewrite nth_tl. apply entry_offsets_nth. lia. Qed.

(* what basket_range returns for a non-empty interval inside the branch *)
Lemma basket_range_spec sizes (a b : nat) :
  (a < b <= nsum sizes)%nat ->
  exists si ei,
    basket_range (Z.of_nat a) (Z.of_nat b) (entry_offsets sizes) = Some (si, ei) /\
    (si <= ei < length sizes)%nat /\
    (nsum (firstn si sizes) <= a)%nat /\ (b <= nsum (firstn (S ei) sizes))%nat /\
    (forall j, (si < j < length sizes)%nat -> (a < nsum (firstn j sizes))%nat) /\
    (forall j, (j < ei)%nat -> (nsum (firstn (S j) sizes) < b)%nat).
Proof.
  intros H.
  assert (Hne : (0 < length sizes)%nat) by (destruct sizes; simpl in *; lia).
  set (offs := entry_offsets sizes).
  (* start index *)
  destruct (idx_max_spec (l := np_where (fun s => s <=? Z.of_nat a) (starts_of offs))) as (si & Esi & Hsi & Msi).
  { intro E. assert (In 0%nat (np_where (fun s => s <=? Z.of_nat a) (starts_of offs))); [|rewrite E in *; auto].
    apply in_np_where. unfold offs. rewrite starts_length, starts_nth by lia. simpl. split; [lia|]. apply Z.leb_le. lia. }
  apply in_np_where in Hsi. unfold offs in Hsi. rewrite starts_length in Hsi. destruct Hsi as [Lsi Psi].
  rewrite starts_nth in Psi by lia. apply Z.leb_le in Psi.
  (* end index *)
  destruct (idx_min_spec (l := np_where (fun s => s >=? Z.of_nat b) (stops_of offs))) as (ei & Eei & Hei & Mei).
  { intro E. assert (In (length sizes - 1)%nat (np_where (fun s => s >=? Z.of_nat b) (stops_of offs))); [|rewrite E in *; auto].
    apply in_np_where. unfold offs. rewrite stops_length, stops_nth by lia. split; [lia|].
    replace (S (length sizes - 1)) with (length sizes) by lia. rewrite firstn_all. apply Z.geb_le. lia. }
  apply in_np_where in Hei. unfold offs in Hei. rewrite stops_length in Hei. destruct Hei as [Lei Pei].
  rewrite stops_nth in Pei by lia. apply Z.geb_le in Pei.
  assert (Hmax : forall j, (si < j < length sizes)%nat -> (a < nsum (firstn j sizes))%nat).
  { intros j Hj. destruct (Nat.lt_ge_cases a (nsum (firstn j sizes))) as [|Hle]; [assumption|].
    assert (In j (np_where (fun s => s <=? Z.of_nat a) (starts_of offs))).
    { apply in_np_where. unfold offs. rewrite starts_length, starts_nth by lia. split; [lia|]. apply Z.leb_le. lia. }
    apply Msi in H0. lia. }
  assert (Hmin : forall j, (j < ei)%nat -> (nsum (firstn (S j) sizes) < b)%nat).
  { intros j Hj. destruct (Nat.lt_ge_cases (nsum (firstn (S j) sizes)) b) as [|Hle]; [assumption|].
    assert (In j (np_where (fun s => s >=? Z.of_nat b) (stops_of offs))).
    { apply in_np_where. unfold offs. rewrite stops_length, stops_nth by lia. split; [lia|]. apply Z.geb_le. lia. }
    apply Mei in H0. lia. }
  exists si, ei. unfold basket_range. fold offs. rewrite Esi, Eei. repeat split; try lia; auto.
  (* si <= ei *)
  destruct (Nat.le_gt_cases si ei) as [|Hgt]; [assumption|exfalso].
  pose proof (nsum_firstn_mono sizes (i := S ei) (j := si) ltac:(lia)). lia.
Qed.

(* every basket final_array asks for was decoded by uproot (no KeyError) *)
Lemma range_loaded sizes (a b si ei : nat) :
  (a < b <= nsum sizes)%nat ->
  basket_range (Z.of_nat a) (Z.of_nat b) (entry_offsets sizes) = Some (si, ei) ->
  forall i, (si <= i <= ei)%nat -> loaded (entry_offsets sizes) (Z.of_nat a) (Z.of_nat b) i = true.
Proof.
  intros Hab Er i Hi.
  destruct (basket_range_spec sizes (a := a) (b := b) Hab) as (si' & ei' & Er' & Hse & Hs & He & Hmax & Hmin).
  rewrite Er in Er'. injection Er' as <- <-.
  unfold loaded, overlaps. rewrite entry_offsets_length.
  rewrite !entry_offsets_nth by lia.
  apply andb_true_iff; split; [apply Nat.ltb_lt; lia|].
  apply andb_true_iff; split.
  - apply Z.ltb_lt. destruct (Nat.eq_dec (S i) (length sizes)) as [E|E].
    + rewrite E, firstn_all. lia.
    + specialize (Hmax (S i) ltac:(lia)). lia.
  - apply orb_true_iff; left. apply Z.ltb_lt. destruct i as [|i]; [simpl; lia|].
    specialize (Hmin i ltac:(lia)). lia.
Qed.

(* ------------------------------------------------------------------------------------------------ *)
(** * final_array over canonical basket arrays = the slice of the concatenated event list *)

Section FinalCanonical.
  Context {El : Type}.

  Lemma mapM_seq_ok (f : nat -> option (loa El)) (g : nat -> loa El) lo n :
    (forall i, (lo <= i < lo + n)%nat -> f i = Some (g i)) -> mapM f (seq lo n) = Some (map g (seq lo n)).
  Proof.
    revert lo; induction n as [|n IH]; intros lo H; simpl; [reflexivity|].
    rewrite H by lia. rewrite IH; [reflexivity|]. intros i Hi. apply H. lia.
  Qed.

  Lemma map_nth_seq A (l : list A) d lo n : (lo + n <= length l)%nat -> map (fun i => nth i l d) (seq lo n) = slice lo (lo + n) l.
  Proof.
    revert lo l; induction n as [|n IH]; intros lo l H.
    - rewrite slice_empty by lia. reflexivity.
    - simpl. rewrite IH by lia. unfold slice.
      replace (lo + S n - lo)%nat with (S n) by lia. replace (S lo + n - S lo)%nat with n by lia.
      assert (E : skipn lo l = nth lo l d :: skipn (S lo) l).
      { clear IH. revert l H; induction lo as [|lo IHlo]; intros l H; destruct l as [|x r]; simpl in *; try lia; [reflexivity|].
        apply IHlo. lia. }
      rewrite E. reflexivity.
  Qed.

  (* [lss]: per basket, per event, the list of elements.  The basket arrays are the canonical arrays of these. *)
  Definition read_canonical (lss : list (list (list El))) (a b : nat) : option (loa El) :=
    let offsets := entry_offsets (map (@length (list El)) lss) in
    final_array (basket_dict (map (@of_lists El) lss) offsets (Z.of_nat a) (Z.of_nat b)) (Z.of_nat a) (Z.of_nat b) offsets.

  Theorem read_canonical_spec (lss : list (list (list El))) (a b : nat) :
    (a < b <= length (concat lss))%nat ->
    exists x si ei, read_canonical lss a b = Some x /\ to_lists x = slice a b (concat lss) /\
       basket_range (Z.of_nat a) (Z.of_nat b) (entry_offsets (map (@length (list El)) lss)) = Some (si, ei) /\
       (si <= ei < length lss)%nat /\
       x = loa_slice (a - length (concat (firstn si lss))) (b - length (concat (firstn si lss)))
                     (of_lists (concat (slice si (S ei) lss))).
  Proof.
    intros Hab. unfold read_canonical. cbv zeta.
    remember (map (@length (list El)) lss) as sizes eqn:Esz.
    assert (Hn : nsum sizes = length (concat lss)) by (subst sizes; apply nsum_concat_lengths).
    assert (Hls : length sizes = length lss) by (subst sizes; apply map_length).
    destruct (basket_range_spec sizes (a := a) (b := b) ltac:(lia)) as (si & ei & Er & Hse & Hs & He & Hmax & Hmin).
    unfold final_array. rewrite Er.
    (* every basket in [si, ei] was loaded by uproot *)
    assert (Hload : forall i, (si <= i < si + (ei + 1 - si))%nat ->
              basket_dict (map (@of_lists El) lss) (entry_offsets sizes) (Z.of_nat a) (Z.of_nat b) i
              = Some (nth i (map (@of_lists El) lss) (of_lists []))).
    { intros i Hi. unfold basket_dict.
      assert (Hl : loaded (entry_offsets sizes) (Z.of_nat a) (Z.of_nat b) i = true)
        by (apply (range_loaded sizes (a := a) (b := b) (si := si) (ei := ei)); [lia|exact Er|lia]).
      rewrite Hl. apply nth_error_nth'. rewrite map_length. lia. }
    unfold py_range. rewrite (@mapM_seq_ok _ _ _ _ Hload).
    rewrite map_nth_seq by (rewrite map_length; lia).
    replace (si + (ei + 1 - si))%nat with (S ei) by lia.
    rewrite slice_map.
    assert (Hmid : slice si (S ei) lss <> []).
    { pose proof (@slice_length _ si (S ei) lss ltac:(lia)) as L.
      intro E. rewrite E in L. change (@length (list (list El)) []) with 0%nat in L. lia. }
    rewrite loa_concat_list_of_lists by exact Hmid.
    rewrite starts_nth by lia.
    assert (Hrs : Z.of_nat a - Z.of_nat (nsum (firstn si sizes)) <? 0 = false) by (apply Z.ltb_ge; lia).
    rewrite Hrs.
    assert (Hpre : length (concat (firstn si lss)) = nsum (firstn si sizes)).
    { rewrite <- nsum_concat_lengths. rewrite Esz, firstn_map. reflexivity. }
    replace (Z.to_nat (Z.of_nat a - Z.of_nat (nsum (firstn si sizes)))) with (a - length (concat (firstn si lss)))%nat by lia.
    replace (Z.to_nat (Z.of_nat b - Z.of_nat (nsum (firstn si sizes)))) with (b - length (concat (firstn si lss)))%nat by lia.
    eexists. exists si, ei. split; [reflexivity|]. split; [|split; [reflexivity|split; [lia|reflexivity]]].
    rewrite to_lists_slice_of_lists_clip by lia.
    (* the selected baskets are the middle part of the event list *)
    assert (E : concat lss = concat (firstn si lss) ++ concat (slice si (S ei) lss) ++ concat (skipn (S ei) lss))
      by (rewrite <- !concat_app, <- slice_split by lia; reflexivity).
    rewrite E.
    assert (Hmidlen : (length (concat (firstn si lss)) + length (concat (slice si (S ei) lss)) =
                     nsum (firstn (S ei) sizes))%nat).
    { rewrite <- app_length, <- concat_app.
      rewrite firstn_slice_glue by lia.
      rewrite <- nsum_concat_lengths. rewrite Esz, firstn_map. reflexivity. }
    rewrite slice_app_mid by lia. reflexivity.
  Qed.
End FinalCanonical.

(* ------------------------------------------------------------------------------------------------ *)
(** * The TObjArray reader: offsets restart at 0 in every basket *)

Definition wrap32 (z : Z) : Z := z mod 4294967296.       (* uint32_t arithmetic of m_offsets *)

Section Reader.
  Context {Ev El : Type}.
  Variable dec : Ev -> list El.     (* stateless per-event decoding: the elements found in one event *)

  Record rstate := mkR { r_offs : list Z; r_elems : list El }.
  Definition rinit : rstate := mkR [0] [].                                  (* m_offsets(1, 0) *)
  (* read(): m_offsets->push_back(m_offsets->back() + fSize); then fSize element reads append to the element columns *)
  Definition rread (st : rstate) (ev : Ev) : rstate :=
    mkR (r_offs st ++ [wrap32 (last (r_offs st) 0 + Z.of_nat (length (dec ev)))]) (r_elems st ++ dec ev).
  (* data() + make_awkward_content: ListOffsetArray(Index64(offsets), element content) *)
  Definition rdata (st : rstate) : loa El := mkLoa (r_offs st) (r_elems st).
  Definition read_basket (evs : list Ev) : loa El := rdata (fold_left rread evs rinit).

  Definition n_elems (evs : list Ev) : Z := zsum (lens (map dec evs)).

  Lemma psums_snoc xs x : psums (xs ++ [x]) = psums xs ++ [zsum xs + x].
  Proof. unfold psums. rewrite psums_from_app. simpl. reflexivity. Qed.

  Lemma last_psums xs : last (psums xs) 0 = zsum xs.
  Proof. unfold psums. rewrite psums_from_last. lia. Qed.

  Lemma rread_fold evs : forall acc,
    zsum (lens (acc ++ map dec evs)) < 4294967296 ->
    fold_left rread evs (mkR (psums (lens acc)) (concat acc)) =
    mkR (psums (lens (acc ++ map dec evs))) (concat (acc ++ map dec evs)).
  Proof.
    induction evs as [|ev r IH]; intros acc Hb; simpl.
    - rewrite app_nil_r. reflexivity.
    - assert (E1 : psums (lens (acc ++ [dec ev])) = psums (lens acc) ++ [zsum (lens acc) + Z.of_nat (length (dec ev))]).
      { rewrite lens_app. apply psums_snoc. }
      assert (E2 : concat (acc ++ [dec ev]) = concat acc ++ dec ev).
      { rewrite concat_app. simpl. rewrite app_nil_r. reflexivity. }
      assert (E3 : acc ++ dec ev :: map dec r = (acc ++ [dec ev]) ++ map dec r) by (rewrite <- app_assoc; reflexivity).
      assert (Hnn : 0 <= zsum (lens (map dec r))) by apply zsum_lens_nonneg.
      assert (Ha : 0 <= zsum (lens acc)) by apply zsum_lens_nonneg.
      simpl map in Hb. rewrite E3 in *. rewrite lens_app, zsum_app in Hb.
      assert (Hb1 : zsum (lens (acc ++ [dec ev])) = zsum (lens acc) + Z.of_nat (length (dec ev))).
      { rewrite lens_app, zsum_app. simpl. lia. }
      unfold rread at 2. cbn [r_offs r_elems]. rewrite last_psums.
      unfold wrap32. rewrite Z.mod_small by lia.
      rewrite <- E1, <- E2. apply IH. rewrite lens_app, zsum_app. exact Hb.
  Qed.

  (* a basket decodes to the canonical list-offset array of its events' element lists *)
  Theorem read_basket_canonical evs : n_elems evs < 4294967296 -> read_basket evs = of_lists (map dec evs).
  Proof.
    intros H. unfold read_basket, rinit.
    change (mkR [0] []) with (mkR (psums (lens (@nil (list El)))) (concat (@nil (list El)))).
    rewrite rread_fold by exact H. reflexivity.
  Qed.

  Lemma n_elems_app e1 e2 : n_elems (e1 ++ e2) = n_elems e1 + n_elems e2.
  Proof. unfold n_elems. rewrite map_app, lens_app, zsum_app. reflexivity. Qed.

  Lemma n_elems_nonneg e : 0 <= n_elems e.
  Proof. apply zsum_lens_nonneg. Qed.

  Lemma n_elems_concat_le (bs : list (list Ev)) b : In b bs -> n_elems b <= n_elems (concat bs).
  Proof.
    induction bs as [|x r IH]; intros H; [destruct H|]. simpl. rewrite n_elems_app.
    destruct H as [->|H]; [pose proof (n_elems_nonneg (concat r)); lia|].
    specialize (IH H). pose proof (n_elems_nonneg x). lia.
  Qed.

  (* the read of [a,b) over a branch stored as baskets [bs] *)
  Definition read_range (bs : list (list Ev)) (a b : nat) : option (loa El) :=
    let offsets := entry_offsets (map (@length Ev) bs) in
    final_array (basket_dict (map read_basket bs) offsets (Z.of_nat a) (Z.of_nat b)) (Z.of_nat a) (Z.of_nat b) offsets.

  Lemma read_range_canonical (bs : list (list Ev)) (a b : nat) :
    n_elems (concat bs) < 4294967296 -> read_range bs a b = read_canonical (map (map dec) bs) a b.
  Proof.
    intros Hel. unfold read_range, read_canonical. cbv zeta.
    rewrite !map_map.
    assert (E1 : map (fun x => length (map dec x)) bs = map (@length Ev) bs)
      by (apply map_ext; intros; apply map_length).
    assert (E2 : map read_basket bs = map (fun x => of_lists (map dec x)) bs).
    { apply map_ext_in. intros bk Hbk. apply read_basket_canonical.
      pose proof (n_elems_concat_le bs bk Hbk). lia. }
    rewrite E1, E2. reflexivity.
  Qed.

  Theorem read_range_spec (bs : list (list Ev)) (a b : nat) :
    n_elems (concat bs) < 4294967296 -> (a < b <= length (concat bs))%nat ->
    exists x, read_range bs a b = Some x /\ to_lists x = slice a b (map dec (concat bs)).
  Proof.
    intros Hel Hab. rewrite read_range_canonical by exact Hel.
    destruct (read_canonical_spec (map (map dec) bs) (a := a) (b := b)) as (x & si & ei & E & T & _).
    { rewrite <- concat_map, map_length. exact Hab. }
    exists x. split; [exact E|]. rewrite T, <- concat_map. reflexivity.
  Qed.
End Reader.

(* ------------------------------------------------------------------------------------------------ *)
(** * TTree.iterate(step_size): for s in range(entry_start, entry_stop, step): (s, min(s + step, entry_stop)) *)

Fixpoint range_step (fuel s stop step : nat) : list nat :=
  match fuel with
  | O => []
  | S f => if (s <? stop)%nat then s :: range_step f (s + step) stop step else []
  end.
(* range(0, n, step) for step >= 1 has at most n elements *)
Definition iterate_ranges (step n : nat) : list (nat * nat) :=
  map (fun s => (s, Nat.min (s + step) n)) (range_step n 0 n step).

Lemma range_step_done fuel s stop step : (stop <= s)%nat -> range_step fuel s stop step = [].
Proof. intros H. destruct fuel; simpl; [reflexivity|]. destruct (s <? stop)%nat eqn:E; [apply Nat.ltb_lt in E; lia|reflexivity]. Qed.

Lemma slices_of_ranges A (l : list A) step : (1 <= step)%nat -> forall fuel s,
  (s <= length l)%nat -> (length l - s <= fuel)%nat ->
  concat (map (fun r => slice (fst r) (snd r) l)
              (map (fun s => (s, Nat.min (s + step) (length l))) (range_step fuel s (length l) step))) = skipn s l.
Proof.
  intros Hstep. induction fuel as [|f IH]; intros s Hs Hf.
  - simpl. rewrite skipn_all2 by lia. reflexivity.
  - simpl. destruct (s <? length l)%nat eqn:E.
    + apply Nat.ltb_lt in E. simpl.
      destruct (Nat.le_gt_cases (s + step) (length l)) as [H|H].
      * rewrite IH by lia.
        replace (Nat.min (s + step) (length l)) with (s + step)%nat by lia.
        unfold slice. replace (s + step - s)%nat with step by lia.
        rewrite <- (skipn_skipn step s l). apply firstn_skipn.
      * rewrite range_step_done by lia. simpl. rewrite app_nil_r.
        replace (Nat.min (s + step) (length l)) with (length l) by lia.
        unfold slice. apply firstn_all2. rewrite skipn_length. lia.
    + apply Nat.ltb_ge in E. simpl. rewrite skipn_all2 by lia. reflexivity.
Qed.

Lemma iterate_ranges_valid step n : (1 <= step)%nat ->
  Forall (fun r => (fst r < snd r <= n)%nat) (iterate_ranges step n).
Proof.
  intros Hstep. unfold iterate_ranges. apply Forall_forall. intros [a b] H.
  apply in_map_iff in H. destruct H as (s & E & Hin). injection E as Ea Eb. subst a b. simpl.
  assert (Hs : (s < n)%nat).
  { clear -Hin. revert Hin. generalize 0%nat as s0. generalize n at 1 as fuel.
    induction fuel as [|f IH]; intros s0 H; simpl in H; [destruct H|].
    destruct (s0 <? n)%nat eqn:E; [|destruct H]. apply Nat.ltb_lt in E.
    destruct H as [<-|H]; [exact E|]. eapply IH; eassumption. }
  lia.
Qed.

(* ------------------------------------------------------------------------------------------------ *)
(** * Reading a subset of the branches of a tree (TTree.arrays(filter_name=...)) *)

Definition assoc {V} (k : string) (l : list (string * V)) : option V :=
  option_map snd (find (fun kv => String.eqb k (fst kv)) l).

(* every selected branch is read by its own interpretation, independently of the others *)
Definition tree_arrays {B V} (read : B -> V) (want : string -> bool) (tree : list (string * B)) : list (string * V) :=
  map (fun kb => (fst kb, read (snd kb))) (filter (fun kb => want (fst kb)) tree).

(* ------------------------------------------------------------------------------------------------ *)
(** * The CGEM cluster-collection reader (files without a TCgemCluster streamer): sticky class-version flag *)

(* one serialised TRecCgemCluster: its fNBytes (96 = class version with m_recPositionY, 88 = without), the values
   every version carries (5 ints, 2+2 doubles, int[2], int[2][2] — as bit patterns), and m_recPositionY *)
Record cluster := mkCluster { c_nbytes : Z; c_common : list Z; c_y : Z }.
(* a row of the resulting record array: the common columns and, if the record has the field, m_recPositionY *)
Definition crow : Type := (list Z * option Z)%type.

Record cgstate := mkCg { g_ver : Z; g_offs : list Z; g_rows : list (list Z); g_ys : list Z }.
Definition cg_init : cgstate := mkCg (-1) [0] [] [].          (* m_version{-1}, m_offsets(1, 0) *)

(* one iteration of the element loop; None = the reader throws *)
Definition cg_read_cluster (st : option cgstate) (c : cluster) : option cgstate :=
  match st with
  | None => None
  | Some st =>
    let ver := if g_ver st =? -1
               then (if c_nbytes c =? 96 then Some 0 else if c_nbytes c =? 88 then Some 1 else None)
               else Some (g_ver st) in
    match ver with
    | None => None
    | Some v => Some (mkCg v (g_offs st) (g_rows st ++ [c_common c])
                           (if v =? 0 then g_ys st ++ [c_y c] else g_ys st))
    end
  end.
(* read(): push the offset, then loop over the fSize clusters *)
Definition cg_read_event (st : option cgstate) (ev : list cluster) : option cgstate :=
  match st with
  | None => None
  | Some st => fold_left cg_read_cluster ev
                 (Some (mkCg (g_ver st) (g_offs st ++ [wrap32 (last (g_offs st) 0 + Z.of_nat (length ev))])
                             (g_rows st) (g_ys st)))
  end.

(* data() + Bes3CgemClusterColFactory.make_awkward_content: the key m_recPositionY exists iff m_version == 0 *)
Record cgarr := mkCgArr { cg_has_y : bool; cg_arr : loa crow }.
Definition cg_data (st : cgstate) : cgarr :=
  let has_y := g_ver st =? 0 in
  mkCgArr has_y
    (mkLoa (g_offs st)
           (if has_y then map (fun ry => (fst ry, Some (snd ry))) (combine (g_rows st) (g_ys st))
            else map (fun r => (r, None)) (g_rows st))).
Definition cg_read_basket (evs : list (list cluster)) : option cgarr :=
  option_map cg_data (fold_left cg_read_event evs (Some cg_init)).

(* type of ak.concatenate of the selected basket arrays: one record type if they all agree, else a union *)
Inductive cgtype := CgRec (has_y : bool) | CgUnion (alts : list bool).
(* the distinct alternatives, in order of first appearance (awkward merges equal forms as it goes) *)
Fixpoint dedup_first (seen : list bool) (l : list bool) : list bool :=
  match l with
  | [] => []
  | b :: r => if existsb (Bool.eqb b) seen then dedup_first seen r else b :: dedup_first (b :: seen) r
  end.
Definition cg_concat_type (flags : list bool) : cgtype :=
  match flags with
  | [] => CgUnion []
  | b :: r => if forallb (Bool.eqb b) r then CgRec b else CgUnion (dedup_first [] flags)
  end.

Definition cg_form (has_y : bool) : form :=
  let i32 := FNumpy DI32 [] in let f64 := FNumpy DF64 [] in
  FList false (FRecord (
    [("m_clusterID", i32); ("m_trkID", i32); ("m_layerID", i32); ("m_sheetID", i32); ("m_flag", i32);
     ("m_energyDeposit", f64); ("m_recPhi", f64)]%string
    ++ (if has_y then [("m_recPositionY"%string, f64)] else [])
    ++ [("m_recV", f64); ("m_recZ", f64); ("m_clusterFlag", FRegular 2 i32);
        ("m_stripID", FRegular 2 (FRegular 2 i32))]%string)).
Definition cgtype_form (t : cgtype) : form :=
  match t with CgRec b => cg_form b | CgUnion l => FUnion (map cg_form l) end.

(* the read of [a,b): uproot decodes the overlapping baskets, AsCustom.final_array concatenates and trims *)
Definition cg_read_range (bs : list (list (list cluster))) (a b : nat) : option (cgtype * loa crow) :=
  let offsets := entry_offsets (map (@length (list cluster)) bs) in
  let za := Z.of_nat a in let zb := Z.of_nat b in
  let dict := fun i => if loaded offsets za zb i
                       then match nth_error bs i with Some bk => cg_read_basket bk | None => None end
                       else None in
  match basket_range za zb offsets with
  | None => None
  | Some (si, ei) =>
    match mapM (fun i => option_map cg_has_y (dict i)) (py_range si (ei + 1)),
          final_array (fun i => option_map cg_arr (dict i)) za zb offsets with
    | Some flags, Some x => Some (cg_concat_type flags, x)
    | _, _ => None
    end
  end.
