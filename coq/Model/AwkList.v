(* PV.Model.AwkList — minimal model of Awkward list-offset arrays (M-AWK, the part C02/C18 need).

   * [slice a b l]            Python l[a:b] for 0 <= a, 0 <= b (clipping like Python does)
   * [loa A]                  ListOffsetArray = offsets (Z, as Index64) + flat content of rows A
   * [to_lists]/[of_lists]    meaning of a list-offset array as a list of lists / the canonical array of a list of lists
   * [loa_concat]             ak.concatenate of two list arrays: contents appended, the second array's offsets re-based by
                              the length of the content seen so far (awkward's `base`)
   * [loa_slice]              x[rs:re] on a list array: offsets[rs:re+1], content untouched
   * [loa_map]                column-wise (= element-wise) post-processing: offsets untouched
   * record-of-columns zip, digi flattening as a re-arrangement of columns
   * form / content trees with [type_of]

   Everything is proved for lists of any length (induction), no axioms. *)
From Coq Require Import String ZArith Lia Bool List.
Import ListNotations.
Local Open Scope Z_scope.

Set Implicit Arguments.

(* ------------------------------------------------------------------------------------------------ *)
(** * Python slices of lists *)

Lemma seq_shift_add s n : seq s n = map (fun j => (s + j)%nat) (seq 0 n).
Proof.
  revert s; induction n as [|n IH]; intros s; [reflexivity|].
  simpl. f_equal; [lia|]. rewrite <- (seq_shift n 0), map_map. rewrite (IH (S s)).
  apply map_ext. intros j. lia.
Qed.

Lemma skipn_skipn A (a b : nat) (l : list A) : skipn a (skipn b l) = skipn (b + a) l.
Proof.
  revert l; induction b as [|b IH]; intros l; [reflexivity|].
  destruct l; [rewrite !skipn_nil; reflexivity|]. simpl. apply IH.
Qed.

Lemma firstn_add A (a b : nat) (l : list A) : firstn (a + b) l = firstn a l ++ firstn b (skipn a l).
Proof.
  revert l; induction a as [|a IH]; intros l; [reflexivity|].
  destruct l; [rewrite !firstn_nil; reflexivity|]. simpl. f_equal. apply IH.
Qed.

Lemma In_firstn_in A n (l : list A) x : In x (firstn n l) -> In x l.
Proof.
  revert l; induction n as [|n IH]; intros l H; [destruct H|].
  destruct l as [|y r]; [destruct H|]. simpl in H. destruct H as [->|H]; [left; reflexivity|right; auto].
Qed.

Lemma In_skipn_in A n (l : list A) x : In x (skipn n l) -> In x l.
Proof.
  revert l; induction n as [|n IH]; intros l H; [exact H|].
  destruct l as [|y r]; [destruct H|]. simpl in H. right. auto.
Qed.

Definition slice {A} (a b : nat) (l : list A) : list A := firstn (b - a) (skipn a l).

Lemma In_slice A a b (l : list A) x : In x (slice a b l) -> In x l.
Proof. unfold slice. intros H. apply In_firstn_in in H. apply In_skipn_in in H. exact H. Qed.

Lemma slice_all A (l : list A) : slice 0 (length l) l = l.
Proof. unfold slice. rewrite Nat.sub_0_r. simpl. apply firstn_all. Qed.

Lemma slice_nil A a b : slice a b (@nil A) = [].
Proof. unfold slice. rewrite skipn_nil. apply firstn_nil. Qed.

Lemma slice_length A a b (l : list A) : (a <= b <= length l)%nat -> length (slice a b l) = (b - a)%nat.
Proof. intros H. unfold slice. rewrite firstn_length, skipn_length. lia. Qed.

Lemma slice_cons A a b x (l : list A) : slice (S a) (S b) (x :: l) = slice a b l.
Proof. reflexivity. Qed.

Lemma slice_0_S A b x (l : list A) : slice 0 (S b) (x :: l) = x :: slice 0 b l.
Proof. unfold slice. simpl. rewrite Nat.sub_0_r. reflexivity. Qed.

Lemma slice_map A B (f : A -> B) a b l : slice a b (map f l) = map f (slice a b l).
Proof. unfold slice. rewrite skipn_map, firstn_map. reflexivity. Qed.

Lemma slice_empty A a b (l : list A) : (b <= a)%nat -> slice a b l = [].
Proof. intros H. unfold slice. replace (b - a)%nat with 0%nat by lia. reflexivity. Qed.

(* the piece of a three-part list that lies inside the middle part *)
Lemma slice_app_mid A (pre mid post : list A) a b :
  (length pre <= a)%nat -> (b <= length pre + length mid)%nat ->
  slice a b (pre ++ mid ++ post) = slice (a - length pre) (b - length pre) mid.
Proof.
  intros Ha Hb. unfold slice.
  rewrite skipn_app. rewrite (skipn_all2 pre) by lia. simpl.
  rewrite skipn_app. rewrite firstn_app.
  replace (b - length pre - (a - length pre))%nat with (b - a)%nat by lia.
  rewrite skipn_length.
  replace (b - a - (length mid - (a - length pre)))%nat with 0%nat by lia.
  rewrite firstn_O, app_nil_r. reflexivity.
Qed.

Lemma slice_split A (l : list A) a b :
  (a <= b <= length l)%nat -> l = firstn a l ++ slice a b l ++ skipn b l.
Proof.
  intros H. unfold slice.
  rewrite <- (firstn_skipn a l) at 1. f_equal.
  rewrite <- (firstn_skipn (b - a) (skipn a l)) at 1. f_equal.
  rewrite skipn_skipn. f_equal. lia.
Qed.

Lemma firstn_slice_glue A (l : list A) a b : (a <= b)%nat -> firstn a l ++ slice a b l = firstn b l.
Proof.
  intros H. unfold slice. replace b with (a + (b - a))%nat at 2 by lia. symmetry. apply firstn_add.
Qed.

(* consecutive slices glue together *)
Lemma slice_glue A (l : list A) a b c : (a <= b <= c)%nat -> slice a b l ++ slice b c l = slice a c l.
Proof.
  intros H. unfold slice.
  replace (c - a)%nat with ((b - a) + (c - b))%nat by lia.
  rewrite firstn_add. f_equal. rewrite skipn_skipn. do 2 f_equal. lia.
Qed.

Lemma slice_slice A (l : list A) a b c d :
  (c <= d <= b - a)%nat -> slice c d (slice a b l) = slice (a + c) (a + d) l.
Proof.
  intros H. unfold slice.
  rewrite skipn_firstn_comm. rewrite firstn_firstn. rewrite skipn_skipn.
  replace (Nat.min (d - c) (b - a - c)) with (a + d - (a + c))%nat by lia.
  reflexivity.
Qed.

Lemma slice_clip A (l : list A) a b : (length l <= b)%nat -> slice a b l = slice a (length l) l.
Proof.
  intros H. unfold slice.
  destruct (Nat.le_gt_cases a (length l)) as [Ha|Ha].
  - rewrite !firstn_all2; auto; rewrite skipn_length; lia.
  - rewrite (skipn_all2 l) by lia. rewrite !firstn_nil. reflexivity.
Qed.

(* ------------------------------------------------------------------------------------------------ *)
(** * Prefix sums (np.cumsum with a leading 0; what a reader's offsets vector holds) *)

Definition zsum (xs : list Z) : Z := fold_right Z.add 0 xs.

Lemma zsum_app xs ys : zsum (xs ++ ys) = zsum xs + zsum ys.
Proof. induction xs; simpl; lia. Qed.

Fixpoint psums_from (acc : Z) (xs : list Z) : list Z :=
  match xs with [] => [acc] | x :: r => acc :: psums_from (acc + x) r end.
Definition psums := psums_from 0.

Lemma psums_from_hd k xs : psums_from k xs = k :: tl (psums_from k xs).
Proof. destruct xs; reflexivity. Qed.

Lemma psums_from_length k xs : length (psums_from k xs) = S (length xs).
Proof. revert k; induction xs; intros; simpl; auto. Qed.

Lemma psums_from_shift k d xs : psums_from (k + d) xs = map (fun o => o + d) (psums_from k xs).
Proof.
  revert k; induction xs as [|x r IH]; intros k; simpl; [reflexivity|].
  f_equal. replace (k + d + x) with (k + x + d) by lia. apply IH.
Qed.

Lemma psums_from_app k xs ys :
  psums_from k (xs ++ ys) = psums_from k xs ++ tl (psums_from (k + zsum xs) ys).
Proof.
  revert k; induction xs as [|x r IH]; intros k; simpl.
  - rewrite Z.add_0_r. apply psums_from_hd.
  - f_equal. rewrite IH. do 3 f_equal. lia.
Qed.

Lemma psums_from_last k xs : last (psums_from k xs) 0 = k + zsum xs.
Proof.
  revert k; induction xs as [|x r IH]; intros k; [simpl; lia|].
  simpl psums_from. rewrite (psums_from_hd (k + x) r).
  change (last (k :: k + x :: tl (psums_from (k + x) r)) 0) with (last (k + x :: tl (psums_from (k + x) r)) 0).
  rewrite <- psums_from_hd, IH. simpl. lia.
Qed.

Lemma psums_from_nth k xs i : (i <= length xs)%nat -> nth i (psums_from k xs) 0 = k + zsum (firstn i xs).
Proof.
  revert k i; induction xs as [|x r IH]; intros k i Hi; simpl in *.
  - assert (i = 0%nat) by lia; subst; simpl; lia.
  - destruct i; simpl; [lia|]. rewrite IH by lia. lia.
Qed.

Lemma firstn_psums_from b k xs : firstn (S b) (psums_from k xs) = psums_from k (firstn b xs).
Proof.
  revert k xs; induction b as [|b IH]; intros k xs.
  - destruct xs; reflexivity.
  - destruct xs as [|x r]; [reflexivity|]. simpl. f_equal. apply (IH (k + x) r).
Qed.

Lemma slice_psums_from a b k xs :
  (a <= b <= length xs)%nat ->
  slice a (S b) (psums_from k xs) = psums_from (k + zsum (firstn a xs)) (slice a b xs).
Proof.
  revert b k xs; induction a as [|a IH]; intros b k xs H.
  - unfold slice at 1. simpl skipn. rewrite !Nat.sub_0_r. rewrite firstn_psums_from.
    unfold slice. simpl. rewrite Nat.sub_0_r, Z.add_0_r. reflexivity.
  - destruct xs as [|x r]; [simpl in H; lia|]. destruct b as [|b]; [lia|].
    simpl psums_from. rewrite slice_cons. rewrite IH by (simpl in H; lia).
    rewrite slice_cons. simpl. f_equal. lia.
Qed.

(* ------------------------------------------------------------------------------------------------ *)
(** * List-offset arrays *)

Record loa (A : Type) := mkLoa { offs : list Z; cont : list A }.
Arguments mkLoa {A} _ _.

Definition zslice {A} (a b : Z) (l : list A) : list A := slice (Z.to_nat a) (Z.to_nat b) l.

(* the lists a list-offset array denotes: content[offsets[i] : offsets[i+1]] *)
Fixpoint segs {A} (os : list Z) (c : list A) : list (list A) :=
  match os with
  | [] => []
  | o1 :: tl => match tl with [] => [] | o2 :: _ => zslice o1 o2 c :: segs tl c end
  end.
Definition to_lists {A} (x : loa A) : list (list A) := segs (offs x) (cont x).
Definition loa_len {A} (x : loa A) : nat := (length (offs x) - 1)%nat.

Definition lens {A} (ls : list (list A)) : list Z := map (fun l => Z.of_nat (length l)) ls.
(* the canonical array (zero-based offsets, exactly covering content) of a list of lists *)
Definition of_lists {A} (ls : list (list A)) : loa A := mkLoa (psums (lens ls)) (concat ls).

Lemma lens_app A (l1 l2 : list (list A)) : lens (l1 ++ l2) = lens l1 ++ lens l2.
Proof. apply map_app. Qed.

Lemma concat_length_lens A (ls : list (list A)) : Z.of_nat (length (concat ls)) = zsum (lens ls).
Proof. induction ls as [|l r IH]; simpl; [reflexivity|]. rewrite app_length. lia. Qed.

Lemma zsum_lens_nonneg A (ls : list (list A)) : 0 <= zsum (lens ls).
Proof. rewrite <- concat_length_lens. lia. Qed.

Lemma segs_cons2 A o1 o2 t (c : list A) : segs (o1 :: o2 :: t) c = zslice o1 o2 c :: segs (o2 :: t) c.
Proof. reflexivity. Qed.

Lemma segs_shifted A (ls : list (list A)) : forall (pre post : list A),
  segs (psums_from (Z.of_nat (length pre)) (lens ls)) (pre ++ concat ls ++ post) = ls.
Proof.
  induction ls as [|l r IH]; intros pre post; [reflexivity|].
  simpl lens. simpl psums_from. rewrite (psums_from_hd _ (lens r)). rewrite segs_cons2.
  rewrite <- psums_from_hd. f_equal.
  - unfold zslice. rewrite Nat2Z.id.
    replace (Z.to_nat (Z.of_nat (length pre) + Z.of_nat (length l))) with (length pre + length l)%nat by lia.
    simpl concat. rewrite <- app_assoc. rewrite slice_app_mid by lia.
    replace (length pre - length pre)%nat with 0%nat by lia.
    replace (length pre + length l - length pre)%nat with (length l) by lia. apply slice_all.
  - replace (Z.of_nat (length pre) + Z.of_nat (length l)) with (Z.of_nat (length (pre ++ l)))
      by (rewrite app_length; lia).
    simpl concat. rewrite <- app_assoc. rewrite app_assoc. apply IH.
Qed.

Theorem to_lists_of_lists A (ls : list (list A)) : to_lists (of_lists ls) = ls.
Proof.
  unfold to_lists, of_lists; simpl. unfold psums.
  pose proof (segs_shifted ls [] []) as H. simpl in H. rewrite app_nil_r in H. exact H.
Qed.

Lemma loa_len_of_lists A (ls : list (list A)) : loa_len (of_lists ls) = length ls.
Proof. unfold loa_len, of_lists, psums, lens; simpl. rewrite psums_from_length, map_length. lia. Qed.

(** ** concatenation with offset re-basing *)
Definition loa_concat {A} (x y : loa A) : loa A :=
  mkLoa (offs x ++ map (fun o => o + Z.of_nat (length (cont x))) (tl (offs y))) (cont x ++ cont y).

Theorem loa_concat_of_lists A (l1 l2 : list (list A)) :
  loa_concat (of_lists l1) (of_lists l2) = of_lists (l1 ++ l2).
Proof.
  unfold loa_concat, of_lists; simpl. f_equal.
  - unfold psums. rewrite lens_app, psums_from_app. f_equal.
    rewrite concat_length_lens. rewrite psums_from_shift. simpl.
    destruct (lens l2); reflexivity.
  - symmetry. apply concat_app.
Qed.

(* ak.concatenate([x0, x1, ...]); an empty argument list raises *)
Definition loa_concat_list {A} (xs : list (loa A)) : option (loa A) :=
  match xs with [] => None | x :: r => Some (fold_left loa_concat r x) end.

Lemma fold_concat_of_lists A (lss : list (list (list A))) (acc : list (list A)) :
  fold_left loa_concat (map (@of_lists A) lss) (of_lists acc) = of_lists (acc ++ concat lss).
Proof.
  revert acc; induction lss as [|l r IH]; intros acc; simpl.
  - rewrite app_nil_r. reflexivity.
  - rewrite loa_concat_of_lists, IH, app_assoc. reflexivity.
Qed.

Theorem loa_concat_list_of_lists A (lss : list (list (list A))) :
  lss <> [] -> loa_concat_list (map (@of_lists A) lss) = Some (of_lists (concat lss)).
Proof.
  destruct lss as [|l r]; [congruence|]. intros _. simpl.
  rewrite fold_concat_of_lists. reflexivity.
Qed.

(** ** slicing x[rs:re] (non-negative bounds, Python clipping) *)
Definition loa_slice {A} (rs re : nat) (x : loa A) : loa A :=
  let re' := Nat.min re (loa_len x) in
  let rs' := Nat.min rs re' in
  mkLoa (slice rs' (S re') (offs x)) (cont x).

Lemma lens_slice A a b (ls : list (list A)) : lens (slice a b ls) = slice a b (lens ls).
Proof. unfold lens. symmetry. apply slice_map. Qed.

Lemma concat_firstn_length A a (ls : list (list A)) :
  Z.of_nat (length (concat (firstn a ls))) = zsum (firstn a (lens ls)).
Proof. rewrite concat_length_lens. unfold lens. rewrite firstn_map. reflexivity. Qed.

Theorem to_lists_slice_of_lists A (ls : list (list A)) a b :
  (a <= b <= length ls)%nat -> to_lists (loa_slice a b (of_lists ls)) = slice a b ls.
Proof.
  intros H. unfold loa_slice. rewrite loa_len_of_lists.
  replace (Nat.min b (length ls)) with b by lia. replace (Nat.min a b) with a by lia.
  unfold to_lists, of_lists; simpl. unfold psums.
  rewrite slice_psums_from by (unfold lens; rewrite map_length; lia).
  rewrite Z.add_0_l. rewrite <- concat_firstn_length. rewrite <- lens_slice.
  assert (E : concat ls = concat (firstn a ls) ++ concat (slice a b ls) ++ concat (skipn b ls))
    by (rewrite <- !concat_app, <- slice_split by exact H; reflexivity).
  rewrite E. apply segs_shifted.
Qed.

(* with clipping: re beyond the end behaves like re = len *)
Theorem to_lists_slice_of_lists_clip A (ls : list (list A)) a b :
  (a <= b)%nat -> to_lists (loa_slice a b (of_lists ls)) = slice a b ls.
Proof.
  intros H. destruct (Nat.le_gt_cases b (length ls)) as [Hb|Hb].
  - apply to_lists_slice_of_lists; lia.
  - rewrite (@slice_clip _ ls a b) by lia.
    assert (E : loa_slice a b (of_lists ls) = loa_slice (Nat.min a (length ls)) (length ls) (of_lists ls)).
    { unfold loa_slice. rewrite loa_len_of_lists.
      replace (Nat.min b (length ls)) with (length ls) by lia.
      replace (Nat.min (length ls) (length ls)) with (length ls) by lia.
      replace (Nat.min (Nat.min a (length ls)) (length ls)) with (Nat.min a (length ls)) by lia. reflexivity. }
    rewrite E. rewrite to_lists_slice_of_lists by lia.
    destruct (Nat.le_gt_cases a (length ls)) as [Ha|Ha].
    + replace (Nat.min a (length ls)) with a by lia. reflexivity.
    + replace (Nat.min a (length ls)) with (length ls) by lia.
      rewrite !slice_empty by lia. reflexivity.
Qed.

(** ** element-wise (column-wise) maps *)
Definition loa_map {A B} (f : A -> B) (x : loa A) : loa B := mkLoa (offs x) (map f (cont x)).

Lemma loa_map_of_lists A B (f : A -> B) ls : loa_map f (of_lists ls) = of_lists (map (map f) ls).
Proof.
  unfold loa_map, of_lists; simpl. f_equal.
  - f_equal. unfold lens. rewrite map_map. apply map_ext. intros l. rewrite map_length. reflexivity.
  - apply concat_map.
Qed.

Lemma loa_map_slice A B (f : A -> B) a b x : loa_map f (loa_slice a b x) = loa_slice a b (loa_map f x).
Proof. reflexivity. Qed.

Lemma loa_map_concat A B (f : A -> B) x y : loa_map f (loa_concat x y) = loa_concat (loa_map f x) (loa_map f y).
Proof. unfold loa_map, loa_concat; simpl. rewrite map_app, map_length. reflexivity. Qed.

Lemma segs_map A B (f : A -> B) os c : segs os (map f c) = map (map f) (segs os c).
Proof.
  induction os as [|o1 t IH]; [reflexivity|]. destruct t as [|o2 t']; [reflexivity|].
  rewrite !segs_cons2. simpl map. rewrite IH. f_equal. unfold zslice. apply slice_map.
Qed.

Theorem to_lists_map A B (f : A -> B) x : to_lists (loa_map f x) = map (map f) (to_lists x).
Proof. apply segs_map. Qed.

(* ------------------------------------------------------------------------------------------------ *)
(** * Records of columns and the digi flattening *)

(* Python dict assignment d[k] = v : an existing key keeps its position *)
Fixpoint dict_set {V} (k : string) (v : V) (d : list (string * V)) : list (string * V) :=
  match d with
  | [] => [(k, v)]
  | (k', v') :: r => if String.eqb k k' then (k', v) :: r else (k', v') :: dict_set k v r
  end.

Definition map_vals {V W} (g : V -> W) (d : list (string * V)) : list (string * W) :=
  map (fun kv => (fst kv, g (snd kv))) d.

Lemma dict_set_map_vals V W (g : V -> W) k v d :
  map_vals g (dict_set k v d) = dict_set k (g v) (map_vals g d).
Proof.
  induction d as [|[k' v'] r IH]; simpl; [reflexivity|].
  destruct (String.eqb k k'); simpl; [reflexivity|]. f_equal. apply IH.
Qed.

(* a member of a collection element: a scalar, or a nested record of scalars (the TRawData base) *)
Definition member (V : Type) : Type := (V + list (string * V))%type.
Definition mmap {V W} (g : V -> W) (m : member V) : member W :=
  match m with inl v => inl (g v) | inr subs => inr (map_vals g subs) end.

(* process_digi_subbranch, as it acts on the fields of the element record:
     fields = {}
     for field_name in org_arr.fields:
         if field_name == "TRawData"%string:
             for raw_field_name in org_arr[field_name].fields: fields[raw_field_name] = org_arr[field_name][raw_field_name]
         else: fields[field_name] = org_arr[field_name]
   (a "TRawData"%string member without fields contributes nothing) *)
Definition splice_raw {V} (d : list (string * member V)) (subs : list (string * V)) : list (string * member V) :=
  fold_left (fun d kv => dict_set (fst kv) (inl (snd kv)) d) subs d.
Definition digi_step {V} (d : list (string * member V)) (km : string * member V) : list (string * member V) :=
  if String.eqb (fst km) "TRawData"%string
  then match snd km with inr subs => splice_raw d subs | inl _ => d end
  else dict_set (fst km) (snd km) d.
Definition digi_flatten {V} (ms : list (string * member V)) : list (string * member V) :=
  fold_left digi_step ms [].

Lemma splice_raw_nat V W (g : V -> W) subs : forall d,
  map_vals (mmap g) (splice_raw d subs) = splice_raw (map_vals (mmap g) d) (map_vals g subs).
Proof.
  induction subs as [|[k v] r IH]; intros d; simpl; [reflexivity|].
  unfold splice_raw in *. simpl. rewrite IH. f_equal. apply (dict_set_map_vals (mmap g) k (inl v) d).
Qed.

Lemma digi_step_nat V W (g : V -> W) d km :
  map_vals (mmap g) (digi_step d km) = digi_step (map_vals (mmap g) d) (fst km, mmap g (snd km)).
Proof.
  unfold digi_step. simpl. destruct (String.eqb (fst km) "TRawData"%string).
  - destruct (snd km) as [v|subs]; simpl; [reflexivity|]. apply splice_raw_nat.
  - apply dict_set_map_vals.
Qed.

Lemma digi_fold_natural V W (g : V -> W) ms : forall d,
  map_vals (mmap g) (fold_left digi_step ms d) = fold_left digi_step (map_vals (mmap g) ms) (map_vals (mmap g) d).
Proof.
  induction ms as [|km r IH]; intros d; simpl; [reflexivity|].
  rewrite IH. f_equal. apply digi_step_nat.
Qed.

(* the flattening is natural in the values: it only re-arranges fields, never looks at the data *)
Theorem digi_flatten_natural V W (g : V -> W) ms :
  map_vals (mmap g) (digi_flatten ms) = digi_flatten (map_vals (mmap g) ms).
Proof. unfold digi_flatten. apply digi_fold_natural. Qed.

(* columns -> rows *)
Definition column := list Z.
Definition pick (i : nat) (c : column) : Z := nth i c 0.
Definition zip_members (n : nat) (cs : list (string * member column)) : list (list (string * member Z)) :=
  map (fun i => map_vals (mmap (pick i)) cs) (seq 0 n).

(* flattening the columns then zipping = zipping then flattening each row *)
Theorem digi_flatten_columnwise n cs :
  zip_members n (digi_flatten cs) = map (@digi_flatten Z) (zip_members n cs).
Proof.
  unfold zip_members. rewrite map_map. apply map_ext. intros i. apply digi_flatten_natural.
Qed.

(* appending the (scalar) columns of two baskets = appending their rows: record-of-columns concatenation *)
Definition zip_cols (n : nat) (cs : list (string * column)) : list (list (string * Z)) :=
  map (fun i => map_vals (pick i) cs) (seq 0 n).
Definition cols_app (c1 c2 : list (string * column)) : list (string * column) :=
  map (fun p => (fst (fst p), snd (fst p) ++ snd (snd p))) (combine c1 c2).

Theorem zip_cols_app n1 n2 c1 c2 :
  map fst c1 = map fst c2 ->
  Forall (fun kd => length (snd kd) = n1) c1 ->
  zip_cols (n1 + n2) (cols_app c1 c2) = zip_cols n1 c1 ++ zip_cols n2 c2.
Proof.
  intros Hk Hl. unfold zip_cols. rewrite seq_app, map_app. f_equal.
  - apply map_ext_in. intros i Hi. apply in_seq in Hi.
    revert c2 Hk; induction Hl as [|[k d] r Hd Hr IH]; intros c2 Hk; destruct c2 as [|[k2 d2] r2]; try discriminate; [reflexivity|].
    simpl in *. injection Hk as Hk1 Hk2. unfold cols_app, map_vals in *. simpl. f_equal.
    + unfold pick. simpl. rewrite app_nth1 by lia. reflexivity.
    + apply IH. exact Hk2.
  - simpl. rewrite (seq_shift_add n1 n2), map_map. apply map_ext. intros j.
    revert c2 Hk; induction Hl as [|[k d] r Hd Hr IH]; intros c2 Hk; destruct c2 as [|[k2 d2] r2]; try discriminate; [reflexivity|].
    simpl in *. injection Hk as Hk1 Hk2. unfold cols_app, map_vals in *. simpl. f_equal.
    + unfold pick. simpl. rewrite app_nth2 by lia. subst. replace (length d + j - length d)%nat with j by lia. reflexivity.
    + apply IH. exact Hk2.
Qed.

(* ------------------------------------------------------------------------------------------------ *)
(** * Forms (types) and contents (layouts) *)

Inductive dtype := DBool | DI8 | DI16 | DI32 | DI64 | DU8 | DU16 | DU32 | DU64 | DF32 | DF64 | DChar.

Definition dtype_eq_dec (a b : dtype) : {a = b} + {a <> b}.
Proof. decide equality. Defined.
Definition dtype_eqb (a b : dtype) : bool := if dtype_eq_dec a b then true else false.
Lemma dtype_eqb_eq a b : dtype_eqb a b = true <-> a = b.
Proof. unfold dtype_eqb. destruct (dtype_eq_dec a b); split; congruence. Qed.

Inductive form :=
| FNumpy (dt : dtype) (inner : list Z)        (* NumpyForm(primitive, inner_shape) *)
| FEmptyF                                      (* EmptyForm: type "unknown" *)
| FList (is_string : bool) (c : form)          (* ListOffsetForm("i64", c [, __array__ = "string"]) *)
| FRegular (size : Z) (c : form)               (* RegularForm(c, size) *)
| FRecord (fields : list (string * form))      (* RecordForm(contents, fields) *)
| FUnion (alts : list form).                   (* UnionForm — only ever produced by ak.concatenate of unlike arrays *)

Inductive content :=
| CNumpy (dt : dtype) (inner : list Z) (data : list Z)
| CEmptyA
| CList (is_string : bool) (offsets : list Z) (c : content)
| CRegular (size : Z) (c : content)
| CRecord (fields : list (string * content)).

Fixpoint type_of (c : content) : form :=
  match c with
  | CNumpy dt inner _ => FNumpy dt inner
  | CEmptyA => FEmptyF
  | CList s _ c => FList s (type_of c)
  | CRegular n c => FRegular n (type_of c)
  | CRecord fs => FRecord (map (fun kc => (fst kc, type_of (snd kc))) fs)
  end.

Definition is_empty_form (f : form) : bool := match f with FEmptyF => true | _ => false end.
Definition is_empty_content (c : content) : bool := match c with CEmptyA => true | _ => false end.

Lemma is_empty_type_of c : is_empty_form (type_of c) = is_empty_content c.
Proof. destruct c; reflexivity. Qed.

(* induction principles that reach through the field lists *)
Section content_ind'.
  Variable P : content -> Prop.
  Hypothesis Hn : forall dt i d, P (CNumpy dt i d).
  Hypothesis He : P CEmptyA.
  Hypothesis Hl : forall s o c, P c -> P (CList s o c).
  Hypothesis Hr : forall n c, P c -> P (CRegular n c).
  Hypothesis Hrec : forall fs, Forall (fun kc => P (snd kc)) fs -> P (CRecord fs).
  Fixpoint content_ind' (c : content) : P c :=
    match c with
    | CNumpy dt i d => Hn dt i d
    | CEmptyA => He
    | CList s o c => Hl s o (content_ind' c)
    | CRegular n c => Hr n (content_ind' c)
    | CRecord fs => Hrec ((fix go (l : list (string * content)) : Forall (fun kc => P (snd kc)) l :=
                             match l with [] => Forall_nil _ | kc :: r => Forall_cons kc (content_ind' (snd kc)) (go r) end) fs)
    end.
End content_ind'.

Section form_ind'.
  Variable P : form -> Prop.
  Hypothesis Hn : forall dt i, P (FNumpy dt i).
  Hypothesis He : P FEmptyF.
  Hypothesis Hl : forall s c, P c -> P (FList s c).
  Hypothesis Hr : forall n c, P c -> P (FRegular n c).
  Hypothesis Hrec : forall fs, Forall (fun kc => P (snd kc)) fs -> P (FRecord fs).
  Hypothesis Hu : forall fs, Forall P fs -> P (FUnion fs).
  Fixpoint form_ind' (f : form) : P f :=
    match f with
    | FNumpy dt i => Hn dt i
    | FEmptyF => He
    | FList s c => Hl s (form_ind' c)
    | FRegular n c => Hr n (form_ind' c)
    | FRecord fs => Hrec ((fix go (l : list (string * form)) : Forall (fun kc => P (snd kc)) l :=
                             match l with [] => Forall_nil _ | kc :: r => Forall_cons kc (form_ind' (snd kc)) (go r) end) fs)
    | FUnion fs => Hu ((fix go (l : list form) : Forall P l :=
                             match l with [] => Forall_nil _ | x :: r => Forall_cons x (form_ind' x) (go r) end) fs)
    end.
End form_ind'.
