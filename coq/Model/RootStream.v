(* PV.Model.RootStream — M-ROOT, level 1: ROOT's byte-level serialisation primitives.
   Bytes are Z in [0,256); a stream is the list of bytes still to be read (the C++ cursor).  Every reader has type
   bytes -> option (A * bytes): None = the C++ code would throw or run off the buffer.  Encoders are total functions;
   the well-formedness predicates say when a value is representable.  All round-trip lemmas have the form
   read (enc v ++ rest) = Some (v, rest), i.e. they hold in front of ANY continuation. *)
From Coq Require Import ZArith List Lia Bool.
Import ListNotations.
Local Open Scope Z_scope.

Definition bytes := list Z.
Definition zlen {A} (l : list A) : Z := Z.of_nat (length l).

Definition bind {A B} (o : option A) (f : A -> option B) : option B := match o with Some a => f a | None => None end.
Notation "x <- e ;; k" := (bind e (fun x => k)) (at level 61, e at next level, right associativity).
Notation "' p <- e ;; k" := (bind e (fun p => k)) (at level 61, p pattern, e at next level, right associativity).

(* ---------------------------------------------------------------- cursor movement *)
Fixpoint take (n : nat) (l : bytes) : option (bytes * bytes) :=
  match n with
  | O => Some ([], l)
  | S k => match l with [] => None | b :: r => match take k r with Some (a, r') => Some (b :: a, r') | None => None end end
  end.
Definition skip (n : nat) (l : bytes) : option bytes := match take n l with Some (_, r) => Some r | None => None end.

Lemma take_app (x rest : bytes) : take (length x) (x ++ rest) = Some (x, rest).
Proof. induction x as [|b x IH]; simpl; [reflexivity|]. now rewrite IH. Qed.
Lemma skip_app (x rest : bytes) : skip (length x) (x ++ rest) = Some rest.
Proof. unfold skip. now rewrite take_app. Qed.
Lemma take_length n l a r : take n l = Some (a, r) -> l = a ++ r /\ length a = n.
Proof.
  revert l a r. induction n as [|n IH]; intros l a r H; simpl in H.
  - inversion H; subst. auto.
  - destruct l as [|b l]; [discriminate|]. destruct (take n l) as [[a' r']|] eqn:E; [|discriminate].
    inversion H; subst. destruct (IH _ _ _ E) as [-> <-]. auto.
Qed.

(* ---------------------------------------------------------------- big-endian unsigned integers *)
Fixpoint be_enc (n : nat) (v : Z) : bytes :=
  match n with
  | O => []
  | S k => v / 256 ^ Z.of_nat k :: be_enc k (v mod 256 ^ Z.of_nat k)
  end.
Fixpoint be_dec_acc (n : nat) (acc : Z) (l : bytes) : option (Z * bytes) :=
  match n with
  | O => Some (acc, l)
  | S k => match l with [] => None | b :: r => be_dec_acc k (acc * 256 + b) r end
  end.
Definition be_dec (n : nat) (l : bytes) : option (Z * bytes) := be_dec_acc n 0 l.

Lemma be_enc_length n v : length (be_enc n v) = n.
Proof. revert v. induction n; intros; simpl; auto. Qed.
Lemma pow256_pos k : 0 < 256 ^ Z.of_nat k.
Proof. apply Z.pow_pos_nonneg; lia. Qed.
Lemma be_dec_acc_enc n : forall v acc rest, 0 <= v < 256 ^ Z.of_nat n ->
  be_dec_acc n acc (be_enc n v ++ rest) = Some (acc * 256 ^ Z.of_nat n + v, rest).
Proof.
  induction n as [|n IH]; intros v acc rest Hv.
  - simpl in *. f_equal. f_equal. lia.
  - cbn [be_enc be_dec_acc app]. pose proof (pow256_pos n) as P.
    rewrite IH by (apply Z.mod_pos_bound; lia). f_equal. f_equal.
    rewrite Nat2Z.inj_succ, Z.pow_succ_r by lia.
    pose proof (Z.div_mod v (256 ^ Z.of_nat n) ltac:(lia)). nia.
Qed.
Lemma be_dec_enc n v rest : 0 <= v < 256 ^ Z.of_nat n -> be_dec n (be_enc n v ++ rest) = Some (v, rest).
Proof. intros H. unfold be_dec. rewrite be_dec_acc_enc by assumption. f_equal. Qed.

Definition byte_ok (b : Z) : Prop := 0 <= b < 256.
Lemma be_enc_bytes n : forall v, 0 <= v < 256 ^ Z.of_nat n -> Forall byte_ok (be_enc n v).
Proof.
  induction n as [|n IH]; intros v Hv; simpl; constructor.
  - pose proof (pow256_pos n). rewrite Nat2Z.inj_succ, Z.pow_succ_r in Hv by lia. unfold byte_ok.
    split; [apply Z.div_pos; lia|apply Z.div_lt_upper_bound; lia].
  - apply IH. apply Z.mod_pos_bound. apply pow256_pos.
Qed.

(* ---------------------------------------------------------------- primitive member types *)
Inductive prim := PI8 | PI16 | PI32 | PI64 | PU8 | PU16 | PU32 | PU64 | PF32 | PF64 | PBool.
Definition prim_size (p : prim) : nat :=
  match p with PI8 | PU8 | PBool => 1 | PI16 | PU16 => 2 | PI32 | PU32 | PF32 => 4 | PI64 | PU64 | PF64 => 8 end%nat.
Definition prim_signed (p : prim) : bool := match p with PI8 | PI16 | PI32 | PI64 => true | _ => false end.
Definition prim_mod (p : prim) : Z := 256 ^ Z.of_nat (prim_size p).
(* value of a primitive: signed integer for the signed types, unsigned integer for the unsigned ones, the 32/64-bit
   PATTERN for float/double (floats are never compared as floats), 0/1 for bool (any non-zero byte reads as true) *)
Definition prim_interp (p : prim) (u : Z) : Z :=
  match p with
  | PBool => if u =? 0 then 0 else 1
  | _ => if prim_signed p && (prim_mod p <=? 2 * u) then u - prim_mod p else u
  end.
Definition prim_dec (p : prim) (l : bytes) : option (Z * bytes) :=
  match be_dec (prim_size p) l with Some (u, r) => Some (prim_interp p u, r) | None => None end.
Definition prim_enc (p : prim) (v : Z) : bytes := be_enc (prim_size p) (v mod prim_mod p).
Definition prim_wf (p : prim) (v : Z) : Prop :=
  match p with
  | PBool => v = 0 \/ v = 1
  | _ => if prim_signed p then - prim_mod p <= 2 * v < prim_mod p else 0 <= v < prim_mod p
  end.

Lemma prim_mod_pos p : 0 < prim_mod p.
Proof. apply pow256_pos. Qed.
Lemma signed_roundtrip m v : 0 < m -> - m <= 2 * v < m ->
  (if m <=? 2 * (v mod m) then v mod m - m else v mod m) = v.
Proof.
  intros Hm Hv. destruct (Z_lt_le_dec v 0).
  - replace (v mod m) with (v + m) by (apply (Z.mod_unique_pos _ _ (-1)); lia).
    assert (m <=? 2 * (v + m) = true) as -> by (apply Z.leb_le; lia). lia.
  - rewrite Z.mod_small by lia.
    assert (m <=? 2 * v = false) as -> by (apply Z.leb_gt; lia). reflexivity.
Qed.
Lemma prim_dec_enc p v rest : prim_wf p v -> prim_dec p (prim_enc p v ++ rest) = Some (v, rest).
Proof.
  intros W. unfold prim_dec, prim_enc. pose proof (prim_mod_pos p) as P.
  rewrite be_dec_enc by (apply Z.mod_pos_bound; exact P). f_equal. f_equal.
  unfold prim_interp, prim_wf in *.
  destruct p; cbn [prim_signed andb] in *;
    try (apply signed_roundtrip; assumption);
    try (rewrite Z.mod_small by lia; reflexivity).
  destruct W as [-> | ->]; reflexivity.
Qed.
Lemma prim_enc_length p v : length (prim_enc p v) = prim_size p.
Proof. apply be_enc_length. Qed.

(* ---------------------------------------------------------------- fNBytes / fVersion *)
Definition kByteCountMask : Z := 1073741824.     (* 0x40000000 *)
Definition kNewClassTag : Z := 4294967295.       (* 0xFFFFFFFF *)
(* read_fNBytes: 4 bytes; throws unless bit 30 is set; returns the count with that bit cleared *)
Definition read_nbytes (l : bytes) : option (Z * bytes) :=
  match be_dec 4 l with
  | Some (u, r) => if Z.testbit u 30 then Some (u - kByteCountMask, r) else None
  | None => None
  end.
Definition nbytes_enc (c : Z) : bytes := be_enc 4 (c + kByteCountMask).
Definition nbytes_wf (c : Z) : Prop := 0 <= c < kByteCountMask.

Lemma read_nbytes_enc c rest : nbytes_wf c -> read_nbytes (nbytes_enc c ++ rest) = Some (c, rest).
Proof.
  unfold nbytes_wf, kByteCountMask. intros H. unfold read_nbytes, nbytes_enc, kByteCountMask.
  rewrite be_dec_enc by (change (256 ^ Z.of_nat 4) with 4294967296; lia).
  assert (Z.testbit (c + 1073741824) 30 = true) as ->.
  { apply Z.testbit_true; [lia|]. change (2 ^ 30) with 1073741824.
    replace ((c + 1073741824) / 1073741824) with 1; [reflexivity|].
    apply (Z.div_unique_pos _ _ 1 c); lia. }
  f_equal. f_equal. lia.
Qed.
Lemma nbytes_enc_length c : length (nbytes_enc c) = 4%nat.
Proof. apply be_enc_length. Qed.

Definition u16_wf (v : Z) : Prop := 0 <= v < 65536.
Definition u32_wf (v : Z) : Prop := 0 <= v < 4294967296.
Lemma be2 v rest : u16_wf v -> be_dec 2 (be_enc 2 v ++ rest) = Some (v, rest).
Proof. intros. apply be_dec_enc. change (256 ^ Z.of_nat 2) with 65536. exact H. Qed.
Lemma be4 v rest : u32_wf v -> be_dec 4 (be_enc 4 v ++ rest) = Some (v, rest).
Proof. intros. apply be_dec_enc. change (256 ^ Z.of_nat 4) with 4294967296. exact H. Qed.

(* ---------------------------------------------------------------- NUL-terminated strings, object headers *)
Fixpoint read_cstr (l : bytes) : option (bytes * bytes) :=
  match l with
  | [] => None
  | b :: r => if b =? 0 then Some ([], r)
              else match read_cstr r with Some (s, r') => Some (b :: s, r') | None => None end
  end.
Definition cstr_wf (s : bytes) : Prop := Forall (fun b => 0 < b < 256) s.
Lemma read_cstr_enc s rest : cstr_wf s -> read_cstr (s ++ 0 :: rest) = Some (s, rest).
Proof.
  induction 1 as [|b s Hb _ IH]; simpl; [reflexivity|].
  assert (b =? 0 = false) as -> by (apply Z.eqb_neq; lia). now rewrite IH.
Qed.

(* object header in front of every element of a TObjArray: fNBytes, then a tag; kNewClassTag announces a
   NUL-terminated class name, any other tag is a reference to an already announced class *)
Inductive objhdr :=
| HNew (nb : Z) (name : bytes)
| HRef (nb : Z) (tag : Z).
Definition objhdr_enc (h : objhdr) : bytes :=
  match h with
  | HNew nb name => nbytes_enc nb ++ be_enc 4 kNewClassTag ++ name ++ [0]
  | HRef nb tag => nbytes_enc nb ++ be_enc 4 tag
  end.
Definition objhdr_wf (h : objhdr) : Prop :=
  match h with
  | HNew nb name => nbytes_wf nb /\ cstr_wf name
  | HRef nb tag => nbytes_wf nb /\ u32_wf tag /\ tag <> kNewClassTag
  end.
Definition read_obj_header (l : bytes) : option (objhdr * bytes) :=
  '(nb, l) <- read_nbytes l ;;
  '(tag, l) <- be_dec 4 l ;;
  if tag =? kNewClassTag then '(s, l) <- read_cstr l ;; Some (HNew nb s, l) else Some (HRef nb tag, l).
(* BinaryBuffer::skip_obj_header *)
Definition skip_obj_header (l : bytes) : option bytes := '(_, l) <- read_obj_header l ;; Some l.

Lemma read_obj_header_enc h rest : objhdr_wf h -> read_obj_header (objhdr_enc h ++ rest) = Some (h, rest).
Proof.
  destruct h as [nb name|nb tag]; cbn [objhdr_enc objhdr_wf]; intros W; unfold read_obj_header.
  - destruct W as [W1 W2]. rewrite <- !app_assoc. rewrite read_nbytes_enc by assumption. cbn [bind].
    rewrite be4 by (unfold u32_wf, kNewClassTag; lia). cbn [bind]. rewrite Z.eqb_refl.
    cbn [app]. rewrite read_cstr_enc by assumption. reflexivity.
  - destruct W as (W1 & W2 & W3). rewrite <- !app_assoc. rewrite read_nbytes_enc by assumption. cbn [bind].
    rewrite be4 by assumption. cbn [bind].
    assert (tag =? kNewClassTag = false) as -> by (apply Z.eqb_neq; assumption). reflexivity.
Qed.
Lemma skip_obj_header_enc h rest : objhdr_wf h -> skip_obj_header (objhdr_enc h ++ rest) = Some rest.
Proof. intros W. unfold skip_obj_header. now rewrite read_obj_header_enc. Qed.

(* ---------------------------------------------------------------- TObject *)
(* fVersion(2) fUniqueID(4) fBits(4) and, iff kIsReferenced (bit 4) is set in fBits, pidf(2) *)
Record tobject := { to_ver : Z; to_uid : Z; to_bits : Z; to_pidf : Z }.
Definition is_referenced (bits : Z) : bool := Z.testbit bits 4.
Definition tobject_enc (o : tobject) : bytes :=
  be_enc 2 (to_ver o) ++ be_enc 4 (to_uid o) ++ be_enc 4 (to_bits o) ++
  (if is_referenced (to_bits o) then be_enc 2 (to_pidf o) else []).
Definition tobject_wf (o : tobject) : Prop :=
  u16_wf (to_ver o) /\ u32_wf (to_uid o) /\ u32_wf (to_bits o) /\
  (if is_referenced (to_bits o) then u16_wf (to_pidf o) else to_pidf o = 0).
Definition read_tobject (l : bytes) : option (tobject * bytes) :=
  '(ver, l) <- be_dec 2 l ;;
  '(uid, l) <- be_dec 4 l ;;
  '(bits, l) <- be_dec 4 l ;;
  if is_referenced bits then '(pidf, l) <- be_dec 2 l ;; Some ({| to_ver := ver; to_uid := uid; to_bits := bits; to_pidf := pidf |}, l)
  else Some ({| to_ver := ver; to_uid := uid; to_bits := bits; to_pidf := 0 |}, l).
(* BinaryBuffer::skip_TObject *)
Definition skip_tobject (l : bytes) : option bytes := '(_, l) <- read_tobject l ;; Some l.

Lemma read_tobject_enc o rest : tobject_wf o -> read_tobject (tobject_enc o ++ rest) = Some (o, rest).
Proof.
  destruct o as [ver uid bits pidf]. unfold tobject_wf, tobject_enc, read_tobject. cbn [to_ver to_uid to_bits to_pidf].
  intros (W1 & W2 & W3 & W4). rewrite <- !app_assoc.
  rewrite be2 by assumption. cbn [bind]. rewrite be4 by assumption. cbn [bind]. rewrite be4 by assumption. cbn [bind].
  destruct (is_referenced bits).
  - rewrite be2 by assumption. reflexivity.
  - subst pidf. reflexivity.
Qed.
Lemma tobject_enc_length o : length (tobject_enc o) = if is_referenced (to_bits o) then 12%nat else 10%nat.
Proof.
  unfold tobject_enc. rewrite !app_length, !be_enc_length. destruct (is_referenced (to_bits o)); simpl;
    rewrite ?be_enc_length; reflexivity.
Qed.

(* ---------------------------------------------------------------- TString *)
(* 1-byte length; 255 announces a 4-byte length; then the characters *)
Definition tstring_enc (s : bytes) : bytes :=
  (if zlen s <? 255 then [zlen s] else 255 :: be_enc 4 (zlen s)) ++ s.
Definition tstring_wf (s : bytes) : Prop := zlen s < 4294967296.
Definition read_tstring (l : bytes) : option (bytes * bytes) :=
  '(n, l) <- be_dec 1 l ;;
  '(n, l) <- (if n =? 255 then be_dec 4 l else Some (n, l)) ;;
  take (Z.to_nat n) l.
Lemma be1 v rest : be_dec 1 (v :: rest) = Some (v, rest).
Proof. unfold be_dec. cbn [be_dec_acc]. f_equal. Qed.
Lemma read_tstring_enc s rest : tstring_wf s -> read_tstring (tstring_enc s ++ rest) = Some (s, rest).
Proof.
  unfold tstring_wf, tstring_enc, read_tstring, zlen. intros W.
  destruct (Z.of_nat (length s) <? 255) eqn:E.
  - cbn [app]. rewrite be1. cbn [bind].
    assert (Z.of_nat (length s) =? 255 = false) as -> by lia. cbn [bind].
    rewrite Nat2Z.id. apply take_app.
  - cbn [app]. rewrite be1. cbn [bind]. rewrite Z.eqb_refl.
    rewrite <- app_assoc. rewrite be4 by (unfold u32_wf; lia). cbn [bind]. rewrite Nat2Z.id. apply take_app.
Qed.
