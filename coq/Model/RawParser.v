(* PV.Model.RawParser — M-RAW (ii): line-by-line mirror of pybes3/besio/cpp/raw_io.cc (RawBinaryParser) over an explicit
   machine state.

   * the word buffer is a [list Z] (values in [0,2^32)), the cursor a [Z] (index of the next word; it may run past the
     end exactly like the C++ pointer does after an unchecked skip);
   * every dereference of the input buffer goes through the ONE primitive [rd], which answers [OOB k i] when the index
     is outside [0, len);  the bulk read [std::vector<uint32_t>(m_cursor, m_cursor + n)] is [rdn] (= n single [rd]s,
     lemma [rdn_spec] in the proof files); the two unchecked [vector::erase] ranges of read_ROB are [erase_front] /
     [erase_back] and answer [OOB] when the range leaves the temporary vector;
   * uint32_t arithmetic is written with explicit wrap-around ([sub32]);
   * C++ exceptions are [Throw e]; every loop runs on fuel and answers [OutOfFuel] when it is exhausted;
   * the four parallel column vectors of one detector are one list of rows (they are always pushed together);
     std::map<uint16_t, array<uint16_t,3>> is a sorted association list.

   The parameter [chk : bool] selects the variant:
     chk = false  — the primitives exactly as in the pinned tree (no bounds checks at all);
     chk = true   — the primitives of proposed_fixes/C15_raw_parser_bounds.diff: read / bulk read / skip throw
                    "Unexpected end of raw data" instead of leaving the buffer, the erase ranges are checked.
   Which variant mirrors the working tree is decided on every run by the native correspondence. *)
From Coq Require Import ZArith List Lia Bool.
From PV.Model Require Import RawFormat.
Import ListNotations.
Local Open Scope Z_scope.

Inductive oobk := OobRead | OobBulk | OobEraseFront | OobEraseBack.
Inductive err :=
  | EEvtFlag | EEvtVersion (v : Z) | EEvtSpec (n : Z) | EEvtSize
  | ESubFlag | ERosFlag | ERosSpec (n : Z) | ERobFlag | ERodFlag
  | EBadName | EBadDetId
  | EEnd | ERodRange.            (* only thrown by the chk = true variant *)
Inductive res (A : Type) : Type :=
  | Ok (a : A) | Throw (e : err) | OOB (k : oobk) (i : Z) | OutOfFuel.
Arguments Ok {A} a. Arguments Throw {A} e. Arguments OOB {A} k i. Arguments OutOfFuel {A}.

Definition sub32 (a b : Z) : Z := (a - b) mod 2^32.

(* ---------------------------------------------------------------- output columns *)
Definition row := list Z.        (* mdc/tof: [id; t; q; overflow]   emc: [id; t; q; measure]   muc: [id; fec]   trg/ef: [word] *)
Record detcol := { offsets : list Z; rows : list row }.
Record state := {
  cur : Z;
  hdr : list (list Z);           (* per event the 8 header items evt_time, evt_no, run_no, l1_id, evt_tag1..4 *)
  c_mdc : detcol; c_tof : detcol; c_emc : detcol; c_muc : detcol; c_trg : detcol; c_ef : detcol
}.
Definition empty_col : detcol := {| offsets := []; rows := [] |}.
Definition init_state : state :=
  {| cur := 0; hdr := []; c_mdc := empty_col; c_tof := empty_col; c_emc := empty_col; c_muc := empty_col;
     c_trg := empty_col; c_ef := empty_col |}.
Definition get_col (d : det) (s : state) : detcol :=
  match d with Mdc => c_mdc s | Tof => c_tof s | Emc => c_emc s | Muc => c_muc s | Trg => c_trg s | Ef => c_ef s end.
Definition set_col (d : det) (c : detcol) (s : state) : state :=
  match d with
  | Mdc => {| cur := cur s; hdr := hdr s; c_mdc := c; c_tof := c_tof s; c_emc := c_emc s; c_muc := c_muc s; c_trg := c_trg s; c_ef := c_ef s |}
  | Tof => {| cur := cur s; hdr := hdr s; c_mdc := c_mdc s; c_tof := c; c_emc := c_emc s; c_muc := c_muc s; c_trg := c_trg s; c_ef := c_ef s |}
  | Emc => {| cur := cur s; hdr := hdr s; c_mdc := c_mdc s; c_tof := c_tof s; c_emc := c; c_muc := c_muc s; c_trg := c_trg s; c_ef := c_ef s |}
  | Muc => {| cur := cur s; hdr := hdr s; c_mdc := c_mdc s; c_tof := c_tof s; c_emc := c_emc s; c_muc := c; c_trg := c_trg s; c_ef := c_ef s |}
  | Trg => {| cur := cur s; hdr := hdr s; c_mdc := c_mdc s; c_tof := c_tof s; c_emc := c_emc s; c_muc := c_muc s; c_trg := c; c_ef := c_ef s |}
  | Ef  => {| cur := cur s; hdr := hdr s; c_mdc := c_mdc s; c_tof := c_tof s; c_emc := c_emc s; c_muc := c_muc s; c_trg := c_trg s; c_ef := c |}
  end.
Definition set_cur (z : Z) (s : state) : state :=
  {| cur := z; hdr := hdr s; c_mdc := c_mdc s; c_tof := c_tof s; c_emc := c_emc s; c_muc := c_muc s; c_trg := c_trg s; c_ef := c_ef s |}.
Definition push_hdr (h : list Z) (s : state) : state :=
  {| cur := cur s; hdr := hdr s ++ [h]; c_mdc := c_mdc s; c_tof := c_tof s; c_emc := c_emc s; c_muc := c_muc s; c_trg := c_trg s; c_ef := c_ef s |}.

(* ---------------------------------------------------------------- fill_digi *)
(* std::map<uint16_t, std::array<uint16_t,3>>: association list sorted by key; operator[] default-inserts {0,0,0} *)
Fixpoint map_upd (k : Z) (f : list Z -> list Z) (m : list (Z * list Z)) : list (Z * list Z) :=
  match m with
  | [] => [(k, f [0; 0; 0])]
  | (k', v) :: tl =>
      if k <? k' then (k, f [0; 0; 0]) :: m
      else if k =? k' then (k', f v) :: tl
      else (k', v) :: map_upd k f tl
  end.
(* digi_data[id][t_or_q] = signal_value; digi_data[id][2] |= overflow; *)
Definition tq_set (tq sig ovf : Z) (v : list Z) : list Z :=
  match v with
  | [t; q; o] => if tq =? 0 then [sig; q; Z.lor o ovf] else [t; sig; Z.lor o ovf]
  | _ => v
  end.
Definition mdc_fields (w : Z) : Z * Z * Z * Z :=     (* id, t_or_q, signal, overflow *)
  (Z.shiftr (Z.land w 0xFFFC0000) 18, Z.shiftr (Z.land w 0x20000) 17, Z.land w 0xFFFF, Z.shiftr (Z.land w 0x10000) 16).
Definition tof_fields (w : Z) : Z * Z * Z * Z :=
  (Z.shiftr (Z.land w 0x7FE00000) 21, Z.shiftr (Z.land w 0x100000) 20, Z.land w 0x7FFF, Z.shiftr (Z.land w 0x80000) 19).
Definition merge_tq (fields : Z -> Z * Z * Z * Z) (ws : list Z) : list (Z * list Z) :=
  fold_left (fun m w => let '(id, tq, sig, ovf) := fields w in map_upd id (tq_set tq sig ovf) m) ws [].
Definition emit_tq (m : list (Z * list Z)) : list row := map (fun kv => fst kv :: snd kv) m.
Definition emc_row (w : Z) : row :=                   (* id, tdc, adc, measure *)
  [Z.shiftr (Z.land w 0xFFF80000) 19; Z.shiftr (Z.land w 0x7E000) 13; Z.land w 0x7FF; Z.shiftr (Z.land w 0x1800) 11].
Definition muc_row (w : Z) : row := [Z.land (Z.shiftr w 16) 0x7FF; Z.land w 0xFFFF].   (* id, fec *)

Definition digi_rows (d : det) (ws : list Z) : list row :=
  match d with
  | Mdc => emit_tq (merge_tq mdc_fields ws)
  | Tof => emit_tq (merge_tq tof_fields ws)
  | Emc => map emc_row ws
  | Muc => map muc_row ws
  | Trg | Ef => map (fun w => [w]) ws
  end.
Definition fill_digi (d : det) (ws : list Z) (s : state) : state :=
  let c := get_col d s in set_col d {| offsets := offsets c; rows := rows c ++ digi_rows d ws |} s.

(* fill_offsets(): for each activated sub-detector push_back(current number of rows) *)
Definition push_offset (d : det) (s : state) : state :=
  let c := get_col d s in set_col d {| offsets := offsets c ++ [zlen (rows c)]; rows := rows c |} s.
Definition fill_offsets (sel : det -> bool) (s : state) : state :=
  fold_left (fun s d => if sel d then push_offset d s else s) all_dets s.

(* ---------------------------------------------------------------- the access primitives *)
Definition rd (buf : list Z) (i : Z) : res Z :=
  if (0 <=? i) && (i <? zlen buf) then Ok (nth (Z.to_nat i) buf 0) else OOB OobRead i.

(* std::vector<uint32_t>(m_cursor, m_cursor + n): n = 0 touches nothing; otherwise words i .. i+n-1 are read *)
Definition rdn (buf : list Z) (i n : Z) : res (list Z) :=
  if n =? 0 then Ok []
  else if (0 <=? i) && (i + n <=? zlen buf) then Ok (firstn (Z.to_nat n) (skipn (Z.to_nat i) buf))
  else OOB OobBulk (if (0 <=? i) && (i <? zlen buf) then zlen buf else i).

Section Parser.
Variable chk : bool.            (* false: primitives of the pinned tree; true: bounds-checked primitives *)
Variable buf : list Z.
Variable sel : det -> bool.     (* m_activated_sub_det_ids *)

Definition M (A : Type) : Type := state -> res (A * state).
Definition ret {A} (a : A) : M A := fun s => Ok (a, s).
Definition throw {A} (e : err) : M A := fun _ => Throw e.
Definition bind {A B} (m : M A) (f : A -> M B) : M B :=
  fun s => match m s with
           | Ok (a, s') => f a s'
           | Throw e => Throw e
           | OOB k i => OOB k i
           | OutOfFuel => OutOfFuel
           end.
Notation "x <- m ;; f" := (bind m (fun x => f)) (at level 61, m at next level, right associativity).
Notation "m ;;; f" := (bind m (fun _ => f)) (at level 61, right associativity).

(* uint32_t read() { return *(m_cursor++); } *)
Definition read : M Z := fun s =>
  if chk && negb ((0 <=? cur s) && (cur s <? zlen buf)) then Throw EEnd
  else match rd buf (cur s) with
       | Ok w => Ok (w, set_cur (cur s + 1) s)
       | Throw e => Throw e | OOB k i => OOB k i | OutOfFuel => OutOfFuel
       end.
(* std::vector<uint32_t> read(size_t n) *)
Definition read_n (n : Z) : M (list Z) := fun s =>
  if chk && negb ((0 <=? cur s) && (cur s + n <=? zlen buf)) then Throw EEnd
  else match rdn buf (cur s) n with
       | Ok ws => Ok (ws, set_cur (cur s + n) s)
       | Throw e => Throw e | OOB k i => OOB k i | OutOfFuel => OutOfFuel
       end.
(* void skip(size_t n) { m_cursor += n; }   — no memory access *)
Definition skip (n : Z) : M unit := fun s =>
  if chk && negb ((0 <=? cur s) && (cur s + n <=? zlen buf)) then Throw EEnd
  else Ok (tt, set_cur (cur s + n) s).
Definition modify (f : state -> state) : M unit := fun s => Ok (tt, f s).

(* status_and_data.erase(begin, begin + n)  /  erase(begin + n, end) : undefined when n > size *)
Definition erase_front (l : list Z) (n : Z) : M (list Z) :=
  if n <=? zlen l then ret (skipn (Z.to_nat n) l)
  else if chk then throw ERodRange else fun _ => OOB OobEraseFront n.
Definition erase_back (l : list Z) (n : Z) : M (list Z) :=
  if n <=? zlen l then ret (firstn (Z.to_nat n) l)
  else if chk then throw ERodRange else fun _ => OOB OobEraseBack n.

(* ---------------------------------------------------------------- read_ROB *)
Definition read_ROB (d : det) : M Z :=
  flag <- read ;;
  if negb (flag =? ROB_FLAG) then throw ERobFlag else
  rob_total_size <- read ;;
  rob_header_size <- read ;;
  _ <- read ;;                                   (* rob_format_version *)
  _ <- read ;;                                   (* rob_source_identifier *)
  rob_n_status <- read ;;
  skip rob_n_status ;;;
  rob_n_spec_units <- read ;;
  skip rob_n_spec_units ;;;
  flag <- read ;;
  if negb (flag =? ROD_FLAG) then throw ERodFlag else
  rod_header_size <- read ;;
  skip 7 ;;;
  let date_length := sub32 (sub32 (sub32 rob_total_size rob_header_size) rod_header_size) 3 in
  status_and_data <- read_n date_length ;;
  rod_n_status <- read ;;
  rod_n_data <- read ;;
  rod_status_pos <- read ;;
  data <- (if rod_status_pos =? 0 then erase_front status_and_data rod_n_status
           else erase_back status_and_data rod_n_data) ;;
  modify (fill_digi d data) ;;;
  ret rob_total_size.

(* while ( n_left > 0 ) { n_left -= read_X(); }   on uint32_t *)
Fixpoint size_loop (fuel : nat) (body : M Z) (n_left : Z) : M unit :=
  if n_left >? 0 then
    match fuel with
    | O => fun _ => OutOfFuel
    | S f => n_read <- body ;; size_loop f body (sub32 n_left n_read)
    end
  else ret tt.

Definition read_ROS (fuel : nat) (d : det) : M Z :=
  flag <- read ;;
  if negb (flag =? ROS_FLAG) then throw ERosFlag else
  total_size <- read ;;
  header_size <- read ;;
  _ <- read ;;                                   (* format_version *)
  _ <- read ;;                                   (* source_identifier *)
  n_status <- read ;;
  skip n_status ;;;
  n_spec_units <- read ;;
  if negb (n_spec_units =? 3) then throw (ERosSpec n_spec_units) else
  skip 3 ;;;
  size_loop fuel (read_ROB d) (sub32 total_size header_size) ;;;
  ret total_size.

Definition read_sub_detector (fuel : nat) : M Z :=
  flag <- read ;;
  if negb (flag =? SUB_DETECTOR) then throw ESubFlag else
  total_size <- read ;;
  header_size <- read ;;
  _ <- read ;;                                   (* format_version *)
  source_identifier <- read ;;
  let sub_det_id := Z.land (Z.shiftr source_identifier 16) 0xFFFF in
  n_status <- read ;;
  skip n_status ;;;
  n_spec_units <- read ;;
  skip n_spec_units ;;;
  match det_of_id sub_det_id with
  | Some d =>
      if sel d then
        size_loop fuel (read_ROS fuel d) (sub32 total_size header_size) ;;;
        ret total_size
      else skip (sub32 total_size header_size) ;;; ret total_size
  | None => skip (sub32 total_size header_size) ;;; ret total_size
  end.

(* the part of read_event() after the optional block separator has been consumed *)
Definition read_event_rest (fuel : nat) (flag : Z) : M unit :=
  if negb (flag =? FULL_EVENT) then throw EEvtFlag else
  total_size <- read ;;
  header_size <- read ;;
  format_version <- read ;;
  if negb (format_version =? EVT_VERSION) then throw (EEvtVersion format_version) else
  skip 1 ;;;                                     (* source_id *)
  n_status <- read ;;
  skip n_status ;;;
  n_spec_units <- read ;;
  if negb (n_spec_units =? 10) then throw (EEvtSpec n_spec_units) else
  h0 <- read ;; h1 <- read ;; h2 <- read ;; h3 <- read ;;
  skip 2 ;;;
  h4 <- read ;; h5 <- read ;; h6 <- read ;; h7 <- read ;;
  modify (push_hdr [h0; h1; h2; h3; h4; h5; h6; h7]) ;;;
  size_loop fuel (read_sub_detector fuel) (sub32 total_size header_size) ;;;
  (* if ( n_left != 0 ) throw "Invalid event size"  — unreachable after the loop, kept for the mirror *)
  modify (fill_offsets sel) ;;;
  ret tt.

Definition read_event (fuel : nat) : M unit :=
  flag0 <- read ;;
  flag <- (if flag0 =? DATA_SEPERATOR then skip 3 ;;; read else ret flag0) ;;
  read_event_rest fuel flag.

(* while ( m_cursor < m_data_end ) { read_event(); } *)
Fixpoint event_loop (fuel0 fuel : nat) : M unit :=
  fun s =>
    if cur s <? zlen buf then
      match fuel with
      | O => OutOfFuel
      | S f => (read_event fuel0 ;;; event_loop fuel0 f) s
      end
    else Ok (tt, s).

Definition parse_state (fuel : nat) : res state :=
  match (modify (fill_offsets sel) ;;; event_loop fuel fuel) init_state with
  | Ok (_, s) => Ok s
  | Throw e => Throw e | OOB k i => OOB k i | OutOfFuel => OutOfFuel
  end.
End Parser.

(* ---------------------------------------------------------------- the returned dict *)
Record result := { r_hdr : list (list Z); r_dets : list (det * detcol) }.   (* dets in std::set order *)
Definition result_of (sel : det -> bool) (s : state) : result :=
  {| r_hdr := hdr s; r_dets := map (fun d => (d, get_col d s)) (filter sel all_dets) |}.

Definition sel_of (l : list det) : det -> bool := fun d => existsb (det_eqb d) l.

(* RawBinaryParser::arrays on an already validated selection *)
Definition parse_gen (chk : bool) (fuel : nat) (sel : list det) (buf : list Z) : res result :=
  match parse_state chk buf (sel_of sel) fuel with
  | Ok s => Ok (result_of (sel_of sel) s)
  | Throw e => Throw e | OOB k i => OOB k i | OutOfFuel => OutOfFuel
  end.

(* py_read_bes_raw: names -> ids (unknown name throws), empty list -> {mdc,tof,emc,muc} *)
Definition read_bes_raw_gen (chk : bool) (fuel : nat) (names : list (option det)) (buf : list Z) : res result :=
  let names' := if match names with [] => true | _ => false end then [Some Mdc; Some Tof; Some Emc; Some Muc] else names in
  if existsb (fun o => match o with None => true | Some _ => false end) names' then Throw EBadName
  else parse_gen chk fuel (flat_map (fun o => match o with Some d => [d] | None => [] end) names') buf.

(* enough fuel for every buffer (theorem parser_terminates): one more than the number of words *)
Definition fuel_for (buf : list Z) : nat := S (length buf).

(* the model of the pinned tree *)
Definition parse (sel : list det) (buf : list Z) : res result := parse_gen false (fuel_for buf) sel buf.
Definition read_bes_raw (names : list (option det)) (buf : list Z) : res result :=
  read_bes_raw_gen false (fuel_for buf) names buf.

(* ---------------------------------------------------------------- decidable equality of answers (used by the
   correspondence to re-check, inside Coq with vm_compute, the answers computed by the extracted program) *)
Fixpoint list_eqb {A} (eqb : A -> A -> bool) (a b : list A) : bool :=
  match a, b with
  | [], [] => true
  | x :: a', y :: b' => eqb x y && list_eqb eqb a' b'
  | _, _ => false
  end.
Definition rows_eqb : list row -> list row -> bool := list_eqb (list_eqb Z.eqb).
Definition detcol_eqb (a b : detcol) : bool := list_eqb Z.eqb (offsets a) (offsets b) && rows_eqb (rows a) (rows b).
Definition result_eqb (a b : result) : bool :=
  rows_eqb (r_hdr a) (r_hdr b) &&
  list_eqb (fun x y => det_eqb (fst x) (fst y) && detcol_eqb (snd x) (snd y)) (r_dets a) (r_dets b).
Definition oobk_eqb (a b : oobk) : bool :=
  match a, b with
  | OobRead, OobRead | OobBulk, OobBulk | OobEraseFront, OobEraseFront | OobEraseBack, OobEraseBack => true
  | _, _ => false
  end.
Definition err_eqb (a b : err) : bool :=
  match a, b with
  | EEvtFlag, EEvtFlag | EEvtSize, EEvtSize | ESubFlag, ESubFlag | ERosFlag, ERosFlag | ERobFlag, ERobFlag
  | ERodFlag, ERodFlag | EBadName, EBadName | EBadDetId, EBadDetId | EEnd, EEnd | ERodRange, ERodRange => true
  | EEvtVersion x, EEvtVersion y | EEvtSpec x, EEvtSpec y | ERosSpec x, ERosSpec y => x =? y
  | _, _ => false
  end.
Definition res_eqb (a b : res result) : bool :=
  match a, b with
  | Ok x, Ok y => result_eqb x y
  | Throw x, Throw y => err_eqb x y
  | OOB k i, OOB k' i' => oobk_eqb k k' && (i =? i')
  | OutOfFuel, OutOfFuel => true
  | _, _ => false
  end.
