(* PV.Model.LazyForm — the reader-factory trees of pybes3 / uproot-custom: what they ANNOUNCE (make_awkward_form, used by
   uproot.dask before anything is read) versus what they BUILD (make_awkward_content, from the C++ readers' raw data), the
   eager post-processing step of Bes3Interpretation.final_array, and the way uproot.dask materialises a lazy array.

   Mirrors:
   * root_io.py        Bes3TObjArrayFactory, Bes3BaseObjectFactory (= GroupFactory), Bes3SymMatrixArrayFactory,
                       Bes3CgemClusterColFactory (make_awkward_form raises NotImplementedError -> [None]),
                       process_digi_subbranch / preprocess_subbranch
   * uproot_custom/factories.py   PrimitiveFactory, GroupFactory/AnyClassFactory/BaseObjectFactory, CStyleArrayFactory,
                       STLSeqFactory, STLMapFactory, TStringFactory/STLStringFactory, TArrayFactory, TObjectFactory, EmptyFactory
   * uproot/_dask.py   TrivialFormMappingInfo.load_buffers + UprootReadMixin.read_tree:
                       tree.arrays(...) -> ak.to_buffers -> positional re-labelling against the announced form
                       (zip(strict=True), assert src_dtype == dst_dtype) -> ak.from_buffers(announced form)              *)
From Coq Require Import String ZArith Lia Bool List.
Import ListNotations.
From PV.Model Require Import AwkList.
Local Open Scope Z_scope.

(* ------------------------------------------------------------------------------------------------ *)
(** * raw data returned by the C++ readers, factory trees *)

Inductive raw :=
| RNone                                    (* readers that keep nothing (TObject without keep_data, EmptyReader) *)
| RArr (dt : dtype) (data : list Z)        (* one numpy array (values as integers / bit patterns) *)
| RTup (items : list raw).                 (* tuple / list / dict values in order *)

Inductive fac :=
| FacPrim (name : string) (ct : dtype)                                   (* PrimitiveFactory *)
| FacTObjArray (name : string) (el : fac)                                (* Bes3TObjArrayFactory *)
| FacGroup (name : string) (subs : list fac)                             (* AnyClass / Bes3BaseObject / BaseObject / Group *)
| FacCArr (name : string) (flat_size : Z) (dims : option (list Z)) (el : fac)   (* CStyleArrayFactory *)
| FacSeq (name : string) (el : fac)                                      (* STLSeqFactory *)
| FacMap (name : string) (k v : fac)                                     (* STLMapFactory *)
| FacStr (name : string)                                                 (* TStringFactory / STLStringFactory *)
| FacTArr (name : string) (ct : dtype)                                   (* TArrayFactory *)
| FacTObject (name : string) (keep : bool)                               (* TObjectFactory *)
| FacSym (name : string) (dim : Z)                                       (* Bes3SymMatrixArrayFactory (ctype "d") *)
| FacEmpty (name : string)                                               (* EmptyFactory *)
| FacCgem (name : string).                                               (* Bes3CgemClusterColFactory *)

Definition fac_name (f : fac) : string :=
  match f with
  | FacPrim n _ | FacTObjArray n _ | FacGroup n _ | FacCArr n _ _ _ | FacSeq n _ | FacMap n _ _ | FacStr n
  | FacTArr n _ | FacTObject n _ | FacSym n _ | FacEmpty n | FacCgem n => n
  end.

Section fac_ind'.
  Variable P : fac -> Prop.
  Hypothesis Hprim : forall n ct, P (FacPrim n ct).
  Hypothesis Htoa : forall n el, P el -> P (FacTObjArray n el).
  Hypothesis Hgrp : forall n subs, Forall P subs -> P (FacGroup n subs).
  Hypothesis Hcarr : forall n fs dims el, P el -> P (FacCArr n fs dims el).
  Hypothesis Hseq : forall n el, P el -> P (FacSeq n el).
  Hypothesis Hmap : forall n k v, P k -> P v -> P (FacMap n k v).
  Hypothesis Hstr : forall n, P (FacStr n).
  Hypothesis Htarr : forall n ct, P (FacTArr n ct).
  Hypothesis Htobj : forall n keep, P (FacTObject n keep).
  Hypothesis Hsym : forall n d, P (FacSym n d).
  Hypothesis Hempty : forall n, P (FacEmpty n).
  Hypothesis Hcgem : forall n, P (FacCgem n).
  Fixpoint fac_ind' (f : fac) : P f :=
    match f with
    | FacPrim n ct => Hprim n ct
    | FacTObjArray n el => Htoa n el (fac_ind' el)
    | FacGroup n subs => Hgrp n subs ((fix go (l : list fac) : Forall P l :=
                                    match l with [] => Forall_nil _ | x :: r => Forall_cons x (fac_ind' x) (go r) end) subs)
    | FacCArr n fs dims el => Hcarr n fs dims el (fac_ind' el)
    | FacSeq n el => Hseq n el (fac_ind' el)
    | FacMap n k v => Hmap n k v (fac_ind' k) (fac_ind' v)
    | FacStr n => Hstr n
    | FacTArr n ct => Htarr n ct
    | FacTObject n keep => Htobj n keep
    | FacSym n d => Hsym n d
    | FacEmpty n => Hempty n
    | FacCgem n => Hcgem n
    end.
End fac_ind'.

(* ------------------------------------------------------------------------------------------------ *)
(** * make_awkward_form *)

Definition wrap_regular_form (dims : list Z) (f : form) : form :=     (* for s in shape[::-1]: RegularForm(f, s) *)
  fold_left (fun acc s => FRegular s acc) (rev dims) f.
Definition wrap_regular_content (dims : list Z) (c : content) : content :=
  fold_left (fun acc s => CRegular s acc) (rev dims) c.

Definition tobject_form : form :=
  FRecord [("fUniqueID", FNumpy DI32 []); ("fBits", FNumpy DU32 []); ("pidf", FList false (FNumpy DU16 []))]%string.

(* GroupFactory.make_awkward_form: sub-forms in order, EmptyForm members skipped *)
Definition group_forms (F : fac -> option form) : list fac -> option (list (string * form)) :=
  fix go (l : list fac) : option (list (string * form)) :=
  match l with
  | [] => Some []
  | x :: r => match F x, go r with
              | Some fx, Some fr => Some (if is_empty_form fx then fr else (fac_name x, fx) :: fr)
              | _, _ => None
              end
  end.

(* None = the factory raises NotImplementedError: the branch does not support lazy reading *)
Fixpoint form_of (f : fac) : option form :=
  match f with
  | FacPrim _ ct => Some (FNumpy ct [])
  | FacTObjArray _ el => option_map (FList false) (form_of el)
  | FacGroup _ subs =>
      match group_forms form_of subs with
      | Some [] => Some FEmptyF
      | Some fs => Some (FRecord fs)
      | None => None
      end
  | FacCArr _ flat dims el =>
      match form_of el with
      | Some fe => let fe' := match dims with Some ds => wrap_regular_form ds fe | None => fe end in
                   Some (if flat <? 0 then FList false fe' else fe')
      | None => None
      end
  | FacSeq _ el => option_map (FList false) (form_of el)
  | FacMap _ k v =>
      match form_of k, form_of v with
      | Some fk, Some fv => Some (FList false (FRecord [(fac_name k, fk); (fac_name v, fv)]))
      | _, _ => None
      end
  | FacStr _ => Some (FList true (FNumpy DChar []))
  | FacTArr _ ct => Some (FList false (FNumpy ct []))
  | FacTObject _ keep => Some (if keep then tobject_form else FEmptyF)
  | FacSym _ d => Some (FRegular d (FRegular d (FNumpy DF64 [])))      (* RegularForm(RegularForm(NumpyForm float64, n), n) *)
  | FacEmpty _ => Some FEmptyF
  | FacCgem _ => None
  end.

(* ------------------------------------------------------------------------------------------------ *)
(** * make_awkward_content *)

Definition cgem_names (has_y : bool) : list string :=
  let pre := ["m_clusterID"; "m_trkID"; "m_layerID"; "m_sheetID"; "m_flag"; "m_energyDeposit"; "m_recPhi"]%string in
  let y := (if has_y then ["m_recPositionY"%string] else []) in
  let post := ["m_recV"; "m_recZ"; "m_clusterFlag"; "m_stripID"]%string in
  (pre ++ y ++ post)%list.

Definition cgem_field (k : string) (r : raw) : option (string * content) :=
  match r with
  | RArr dt d =>
      let c := CNumpy dt [] d in
      Some (k, if String.eqb k "m_clusterFlag" then CRegular 2 c
               else if String.eqb k "m_stripID" then CRegular 2 (CRegular 2 c) else c)
  | _ => None
  end.

Fixpoint zip_with_opt {X Y W} (g : X -> Y -> option W) (xs : list X) (ys : list Y) : option (list W) :=
  match xs, ys with
  | x :: xr, y :: yr => match g x y, zip_with_opt g xr yr with Some w, Some ws => Some (w :: ws) | _, _ => None end
  | _, _ => Some []
  end.

(* GroupFactory.make_awkward_content: for s_fac, s_data in zip(sub_factories, raw_data) — EmptyArray members skipped *)
Definition group_contents (F : fac -> raw -> option content) : list fac -> list raw -> option (list (string * content)) :=
  fix go (l : list fac) (rs : list raw) {struct l} : option (list (string * content)) :=
  match l, rs with
  | x :: lr, rx :: rr => match F x rx, go lr rr with
                         | Some cx, Some cr => Some (if is_empty_content cx then cr else (fac_name x, cx) :: cr)
                         | _, _ => None
                         end
  | _, _ => Some []
  end.

Fixpoint content_of (f : fac) (r : raw) {struct f} : option content :=
  match f with
  | FacPrim _ ct =>
      match r with
      | RArr dt d => Some (CNumpy (match ct with DBool => DBool | _ => dt end) [] d)     (* bool: raw_data.astype(np.bool_) *)
      | _ => None
      end
  | FacTObjArray _ el =>
      match r with
      | RTup [RArr _ offsets; er] => option_map (CList false offsets) (content_of el er)   (* Index64(offsets) *)
      | _ => None
      end
  | FacGroup _ subs =>
      match r with
      | RTup items =>
          match group_contents content_of subs items with
          | Some [] => Some CEmptyA
          | Some fs => Some (CRecord fs)
          | None => None
          end
      | _ => None
      end
  | FacCArr _ flat dims el =>
      let wrap := fun c => match dims with Some ds => wrap_regular_content ds c | None => c end in
      if flat <? 0 then
        match r with
        | RTup [RArr _ offsets; er] =>
            (* offsets divided by every fixed dimension (exact: a jagged row holds whole sub-arrays) *)
            let offs' := match dims with Some ds => fold_left (fun os s => map (fun o => o / s) os) ds offsets | None => offsets end in
            option_map (fun c => CList false offs' (wrap c)) (content_of el er)
        | _ => None
        end
      else option_map wrap (content_of el r)
  | FacSeq _ el =>
      match r with
      | RTup [RArr _ offsets; er] => option_map (CList false offsets) (content_of el er)
      | _ => None
      end
  | FacMap _ k v =>
      match r with
      | RTup [RArr _ offsets; kr; vr] =>
          match content_of k kr, content_of v vr with
          | Some ck, Some cv => Some (CList false offsets (CRecord [(fac_name k, ck); (fac_name v, cv)]))
          | _, _ => None
          end
      | _ => None
      end
  | FacStr _ =>
      match r with
      | RTup [RArr _ offsets; RArr _ data] => Some (CList true offsets (CNumpy DChar [] data))
      | _ => None
      end
  | FacTArr _ _ =>
      match r with
      | RTup [RArr _ offsets; RArr dt data] => Some (CList false offsets (CNumpy dt [] data))
      | _ => None
      end
  | FacTObject _ keep =>
      if keep then
        match r with
        | RTup [RArr d1 uid; RArr d2 bits; RArr d3 pidf; RArr _ poffs] =>
            Some (CRecord [("fUniqueID", CNumpy d1 [] uid); ("fBits", CNumpy d2 [] bits);
                           ("pidf", CList false poffs (CNumpy d3 [] pidf))]%string)
        | _ => None
        end
      else Some CEmptyA
  | FacSym _ dim =>
      match r with
      | RArr dt d => Some (CRegular dim (CRegular dim (CNumpy dt [] d)))   (* RegularArray(RegularArray(NumpyArray(raw_data.reshape(-1)), n), n) *)
      | _ => None
      end
  | FacEmpty _ => Some CEmptyA
  | FacCgem _ =>
      match r with
      | RTup (RArr _ offsets :: cols) =>
          (* raw_data is a dict: "offsets" popped, then one column per key; m_recPositionY only if the reader has it *)
          let names := cgem_names (Nat.eqb (length cols) 12) in
          if Nat.eqb (length cols) (length names)
          then option_map (fun fs => CList false offsets (CRecord fs)) (zip_with_opt cgem_field names cols)
          else None
      | _ => None
      end
  end.

Definition group_ok (F : fac -> raw -> bool) : list fac -> list raw -> bool :=
  fix go (l : list fac) (rs : list raw) {struct l} : bool :=
  match l, rs with
  | [], [] => true
  | x :: lr, rx :: rr => F x rx && go lr rr
  | _, _ => false
  end.

(* what the C++ readers deliver, as far as dtypes and tuple shapes go (checked against the real readers by the tie) *)
Fixpoint raw_ok (f : fac) (r : raw) {struct f} : bool :=
  match f with
  | FacPrim _ ct => match r with RArr dt _ => match ct with DBool => true | _ => if dtype_eqb dt ct then true else false end | _ => false end
  | FacTObjArray _ el => match r with RTup [RArr _ _; er] => raw_ok el er | _ => false end
  | FacGroup _ subs =>
      match r with
      | RTup items =>
          group_ok raw_ok subs items
      | _ => false
      end
  | FacCArr _ flat _ el => if flat <? 0 then match r with RTup [RArr _ _; er] => raw_ok el er | _ => false end else raw_ok el r
  | FacSeq _ el => match r with RTup [RArr _ _; er] => raw_ok el er | _ => false end
  | FacMap _ k v => match r with RTup [RArr _ _; kr; vr] => raw_ok k kr && raw_ok v vr | _ => false end
  | FacStr _ => match r with RTup [RArr _ _; RArr _ _] => true | _ => false end
  | FacTArr _ ct => match r with RTup [RArr _ _; RArr dt _] => dtype_eqb dt ct | _ => false end
  | FacTObject _ keep =>
      if keep then match r with
                   | RTup [RArr d1 _; RArr d2 _; RArr d3 _; RArr _ _] => dtype_eqb d1 DI32 && dtype_eqb d2 DU32 && dtype_eqb d3 DU16
                   | _ => false end
      else true
  | FacSym _ _ => match r with RArr dt _ => dtype_eqb dt DF64 | _ => false end
  | FacEmpty _ => true
  | FacCgem _ => true
  end.

(* ------------------------------------------------------------------------------------------------ *)
(** * ak.to_buffers / ak.from_buffers (buffers in form order) *)

Definition buf : Type := (dtype * list Z)%type.

Fixpoint to_buffers (c : content) : list buf :=
  match c with
  | CNumpy dt _ d => [(dt, d)]
  | CEmptyA => []
  | CList _ offsets c => (DI64, offsets) :: to_buffers c
  | CRegular _ c => to_buffers c
  | CRecord fs => flat_map (fun kc => to_buffers (snd kc)) fs
  end.

Definition record_from_buffers (F : form -> list buf -> option (content * list buf))
  : list (string * form) -> list buf -> option (list (string * content) * list buf) :=
  fix go (l : list (string * form)) (bs : list buf) {struct l} : option (list (string * content) * list buf) :=
  match l with
  | [] => Some ([], bs)
  | kf :: lr => match F (snd kf) bs with
                | Some (c, r) => match go lr r with Some (cs, r') => Some ((fst kf, c) :: cs, r') | None => None end
                | None => None
                end
  end.

(* consume the buffers a form expects, in order; a dtype mismatch is the `assert src_dtype == dst_dtype` *)
Fixpoint from_buffers (f : form) (bs : list buf) : option (content * list buf) :=
  match f with
  | FNumpy dt inner =>
      match bs with
      | (dt', d) :: r => if dtype_eqb dt' dt then Some (CNumpy dt inner d, r) else None
      | [] => None
      end
  | FEmptyF => Some (CEmptyA, bs)
  | FList s c =>
      match bs with
      | (dt', offsets) :: r =>
          if dtype_eqb dt' DI64
          then match from_buffers c r with Some (cc, r') => Some (CList s offsets cc, r') | None => None end
          else None
      | [] => None
      end
  | FRegular n c => match from_buffers c bs with Some (cc, r) => Some (CRegular n cc, r) | None => None end
  | FRecord fs =>
      match record_from_buffers from_buffers fs bs with
      | Some (cs, r) => Some (CRecord cs, r)
      | None => None
      end
  | FUnion _ => None
  end.

(* zip(..., strict=True): every buffer must be used *)
Definition rebuild (f : form) (bs : list buf) : option content :=
  match from_buffers f bs with Some (c, []) => Some c | _ => None end.

(* ------------------------------------------------------------------------------------------------ *)
(** * process_digi_subbranch on layouts and on forms *)

Definition to_member_c (c : content) : member content := match c with CRecord subs => inr subs | _ => inl c end.
Definition of_member_c (m : member content) : content := match m with inl c => c | inr subs => CRecord subs end.
Definition to_member_f (f : form) : member form := match f with FRecord subs => inr subs | _ => inl f end.
Definition of_member_f (m : member form) : form := match m with inl f => f | inr subs => FRecord subs end.

Definition flatten_fields_c (fs : list (string * content)) : list (string * content) :=
  map_vals of_member_c (digi_flatten (map_vals to_member_c fs)).
Definition flatten_fields_f (fs : list (string * form)) : list (string * form) :=
  map_vals of_member_f (digi_flatten (map_vals to_member_f fs)).

Definition has_rawdata {V} (fs : list (string * V)) : bool := existsb (fun kv => String.eqb (fst kv) "TRawData") fs.

(* None = the function raises (AssertionError "TRawData not found", ak.zip of nothing) or the layout is not a collection *)
Definition process_digi (c : content) : option content :=
  match c with
  | CList s offsets CEmptyA => Some c                      (* `if not org_arr.fields: return org_arr` *)
  | CList s offsets (CRecord []) => Some c
  | CList s offsets (CRecord fs) =>
      if has_rawdata fs
      then match flatten_fields_c fs with [] => None | fs' => Some (CList s offsets (CRecord fs')) end
      else None
  | _ => None
  end.
Definition process_digi_form (f : form) : option form :=
  match f with
  | FList s FEmptyF => Some f
  | FList s (FRecord []) => Some f
  | FList s (FRecord fs) =>
      if has_rawdata fs
      then match flatten_fields_f fs with [] => None | fs' => Some (FList s (FRecord fs')) end
      else None
  | _ => None
  end.

(* preprocess_subbranch: only TDigiEvent sub-branches other than m_fromMc are processed *)
Definition preprocess (is_digi : bool) (c : content) : option content := if is_digi then process_digi c else Some c.
Definition preprocess_form (is_digi : bool) (f : form) : option form := if is_digi then process_digi_form f else Some f.

(* ------------------------------------------------------------------------------------------------ *)
(** * the two reading paths *)

(* eager: basket_array (make_awkward_content) ... final_array -> preprocess_subbranch *)
Definition eager (is_digi : bool) (f : fac) (r : raw) : option content :=
  match content_of f r with Some c => preprocess is_digi c | None => None end.

(* lazy: the type announced before computing is [announce (form_of f)]  ([announce] = identity in the code under study);
   compute() reads with tree.arrays() — the eager path INCLUDING final_array's post-processing — converts to buffers and
   re-labels them positionally against the announced form *)
Definition announced (announce : form -> option form) (f : fac) : option form :=
  match form_of f with Some fm => announce fm | None => None end.
Definition lazy (is_digi : bool) (announce : form -> option form) (f : fac) (r : raw) : option content :=
  match announced announce f, eager is_digi f r with
  | Some fm, Some c => rebuild fm (to_buffers c)
  | _, _ => None
  end.
