(* PV.Model.HelixSpec — the BESIII/BOSS helix trajectory (hand-written specification, small on purpose).
   Parameters a = (dr, phi0, kappa, dz, tanl) about a pivot (x0, y0, z0); signed radius r = alpha / kappa with
   alpha = -1000/2.99792458 cm*GeV^-1 (1 T field along -z, as in BOSS: alpha = 10000/2.99792458/Bz[kG], Bz = -10 kG).
   Point at turning angle s:
     x(s) = x0 + dr cos phi0 + r (cos phi0 - cos (phi0 + s))
     y(s) = y0 + dr sin phi0 + r (sin phi0 - sin (phi0 + s))
     z(s) = z0 + dz - r tanl s
   momentum direction at s: azimuth phi0 + s + pi/2 (documented: phi = phi0 + pi/2 at the reference point). *)
From Coq Require Import Reals Lra.
Local Open Scope R_scope.

Definition alpha : R := - (1000 / (299792458 / 100000000)).
Definition rsigned (kappa : R) : R := alpha / kappa.

Definition centre_x (dr phi0 kappa x0 : R) : R := x0 + (dr + rsigned kappa) * cos phi0.
Definition centre_y (dr phi0 kappa y0 : R) : R := y0 + (dr + rsigned kappa) * sin phi0.

Definition traj_x (dr phi0 kappa x0 s : R) : R := x0 + dr * cos phi0 + rsigned kappa * (cos phi0 - cos (phi0 + s)).
Definition traj_y (dr phi0 kappa y0 s : R) : R := y0 + dr * sin phi0 + rsigned kappa * (sin phi0 - sin (phi0 + s)).
Definition traj_z (dz kappa tanl z0 s : R) : R := z0 + dz - rsigned kappa * tanl * s.

Lemma alpha_neg : alpha < 0.
Proof. unfold alpha. assert (0 < 1000 / (299792458 / 100000000)) by (apply Rdiv_lt_0_compat; lra). lra. Qed.

Lemma traj_centre_form_x dr phi0 kappa x0 s :
  traj_x dr phi0 kappa x0 s = centre_x dr phi0 kappa x0 - rsigned kappa * cos (phi0 + s).
Proof. unfold traj_x, centre_x. ring. Qed.
Lemma traj_centre_form_y dr phi0 kappa y0 s :
  traj_y dr phi0 kappa y0 s = centre_y dr phi0 kappa y0 - rsigned kappa * sin (phi0 + s).
Proof. unfold traj_y, centre_y. ring. Qed.

(* the point s = 0 is the reference point pivot + dr (cos phi0, sin phi0, .) + (0,0,dz) *)
Lemma traj_at_0 dr phi0 kappa dz tanl x0 y0 z0 :
  traj_x dr phi0 kappa x0 0 = x0 + dr * cos phi0 /\ traj_y dr phi0 kappa y0 0 = y0 + dr * sin phi0 /\
  traj_z dz kappa tanl z0 0 = z0 + dz.
Proof. unfold traj_x, traj_y, traj_z. rewrite !Rplus_0_r. repeat split; ring. Qed.

(* Equation of motion m dv/dt = q v x B with B = (0, 0, -B0): for the circle X(s) = c - rr (cos, sin)(phi0 + s) traversed
   with s = w t, velocity w rr (sin, -cos), acceleration w^2 rr (cos, sin); (v x B)_x = -B0 v_y.  If moreover the
   velocity points along the documented momentum azimuth phi0 + s + pi/2, the signed radius has the sign opposite to q. *)
Lemma lorentz_sign q B0 m w rr phi0 : 0 < B0 -> 0 < m -> rr <> 0 -> w <> 0 ->
  (forall s, m * (w * w * (rr * cos (phi0 + s))) = q * (- B0 * (w * (- rr * cos (phi0 + s)))) ) ->
  (exists lam, 0 < lam /\ forall s, w * (rr * sin (phi0 + s)) = lam * (- sin (phi0 + s)) /\ w * (- rr * cos (phi0 + s)) = lam * cos (phi0 + s)) ->
  q * rr < 0 /\ alpha < 0.
Proof.
  intros HB Hm Hr Hw EOM [lam [Hl DIR]]. split; [|exact alpha_neg].
  specialize (EOM (- phi0)). replace (phi0 + - phi0) with 0 in EOM by ring. rewrite cos_0 in EOM.
  destruct (DIR (- phi0)) as [_ D2]. replace (phi0 + - phi0) with 0 in D2 by ring. rewrite cos_0 in D2.
  assert (E1 : m * w = q * B0).
  { apply (Rmult_eq_reg_r (w * rr)); [|apply Rmult_integral_contrapositive_currified; assumption]. lra. }
  assert (E2 : w * rr = - lam) by lra.
  assert (E3 : (q * rr) * B0 = - lam * m).
  { transitivity ((q * B0) * rr); [ring|]. rewrite <- E1. transitivity (m * (w * rr)); [ring|]. rewrite E2. ring. }
  assert (0 < lam * m) by (apply Rmult_lt_0_compat; assumption). nra.
Qed.
