(* PV.Model.RootGlue — M-ROOT, level 3: hand-written MIRRORS of pybes3's collection readers and of the Python glue.
     * tobjarray_read   = Bes3TObjArrayReader::read (root_io.hh), line by line: collection header skips, fSize, offsets
                          bookkeeping (uint32_t), per-object header skip, element reader
     * cgem_read        = Bes3CgemClusterColReader::read incl. the sticky m_version state
     * read_data        = uproot_custom's read_data loop: one read() per entry, cursor must land on the entry's end offset
     * list_offset      = Bes3TObjArrayFactory.make_awkward_content (offsets + content -> ListOffsetArray)
     * mview            = what the element factories present (record fields in streamer order, TObject dropped, bases nested,
                          fixed arrays shaped, packed symmetric matrices expanded by C16's index map)
     * flatten_digi     = process_digi_subbranch (dict insertion semantics + ak.zip)
     * select           = uproot_custom.build_factory: first matching factory in priority order
   They are tied to the working tree by the correspondence of tools/props/c01.py (native build of root_io.hh, and the
   Python package itself on every fixture branch); the encoders below generate the synthetic streams. *)
From Coq Require Import ZArith List Lia Bool.
Import ListNotations.
From PV.Model Require Import RootStream RootSchema.
From PV.Model Require SymMatrix.
Local Open Scope Z_scope.

Definition u32w (x : Z) : Z := x mod 4294967296.

(* ================================================================ TObjArray collection *)
(* header of one stored TObjArray: fNBytes, fVersion, TObject(fVersion,fUniqueID,fBits), fName (1 byte), fSize,
   fLowerBound.  The reader skips all of it except fSize without looking, so the round trip holds for ANY content of the
   skipped fields; ROOT itself writes an empty name and an unreferenced TObject here (assumption of the layout). *)
Record colhdr := { ch_nbytes : Z; ch_ver : Z; ch_tver : Z; ch_uid : Z; ch_bits : Z; ch_name : Z; ch_low : Z }.
Definition colhdr_wf (h : colhdr) : Prop :=
  nbytes_wf (ch_nbytes h) /\ u16_wf (ch_ver h) /\ u16_wf (ch_tver h) /\ u32_wf (ch_uid h) /\ u32_wf (ch_bits h) /\
  0 <= ch_name h < 256 /\ u32_wf (ch_low h).
Definition colhdr_enc (h : colhdr) (fSize : Z) : bytes :=
  nbytes_enc (ch_nbytes h) ++ be_enc 2 (ch_ver h) ++ be_enc 2 (ch_tver h) ++ be_enc 4 (ch_uid h) ++ be_enc 4 (ch_bits h) ++
  [ch_name h] ++ be_enc 4 fSize ++ be_enc 4 (ch_low h).
(* the skips of Bes3TObjArrayReader::read up to and including fLowerBound; returns fSize *)
Definition read_colhdr (l : bytes) : option (Z * bytes) :=
  '(_, l) <- read_nbytes l ;;      (* bparser.skip_fNBytes()  (checks the mask) *)
  l <- skip 2 l ;;                 (* skip_fVersion *)
  l <- skip 2 l ;;                 (* skip_fVersion *)
  l <- skip 4 l ;;                 (* fUniqueID *)
  l <- skip 4 l ;;                 (* fBits *)
  l <- skip 1 l ;;                 (* fName *)
  '(fSize, l) <- be_dec 4 l ;;     (* read<uint32_t>() *)
  l <- skip 4 l ;;                 (* fLowerBound *)
  Some (fSize, l).

(* void Bes3TObjArrayReader::read( BinaryBuffer& ): state = m_offsets (non-empty, starts as [0]) and the element reader's
   accumulated output; returns the new offsets and the elements read in this call.  A count larger than the remaining
   bytes cannot be satisfied (every element starts with an 8-byte object header): the C++ runs off the buffer. *)
Definition tobjarray_read {E} (elem_read : bytes -> option (E * bytes)) (offsets : list Z) (l : bytes)
  : option ((list Z * list E) * bytes) :=
  '(fSize, l) <- read_colhdr l ;;
  let offsets' := offsets ++ [u32w (last offsets 0 + fSize)] in          (* m_offsets->push_back( back() + fSize ) *)
  if zlen l <? fSize then None else
  '(es, l) <- rep (fun l => l <- skip_obj_header l ;; elem_read l) (Z.to_nat fSize) l ;;
  Some ((offsets', es), l).

Definition event_enc {V} (elem_enc : V -> bytes) (ev : colhdr * list (objhdr * V)) : bytes :=
  colhdr_enc (fst ev) (zlen (snd ev)) ++ concat (map (fun ho => objhdr_enc (fst ho) ++ elem_enc (snd ho)) (snd ev)).

(* ================================================================ read_data: entries *)
(* slices of the basket payload given its byte offsets (uproot: trusted for decompression and TTree framing) *)
Fixpoint slices (offs : list Z) (data : bytes) : option (list bytes) :=
  match offs with
  | a :: ((b :: _) as offs') =>
      if b <? a then None else
      '(ev, data) <- take (Z.to_nat (b - a)) data ;; evs <- slices offs' data ;; Some (ev :: evs)
  | _ => match data with [] => Some [] | _ => None end
  end.
(* reader->read() once per entry; the cursor must end exactly on the entry's end offset *)
Definition read_entries {S E} (rd : S -> bytes -> option ((S * list E) * bytes)) : S -> list bytes -> option (S * list E) :=
  fix go st evs := match evs with
                   | [] => Some (st, [])
                   | ev :: evs' => '(st', es) <- all_consumed (rd st ev) ;; '(st'', es') <- go st' evs' ;; Some (st'', es ++ es')
                   end.
Definition read_branch {E} (elem_read : bytes -> option (E * bytes)) (data : bytes) (byte_offsets : list Z)
  : option (list Z * list E) :=
  evs <- (match byte_offsets with a :: _ => if a =? 0 then slices byte_offsets data else None | [] => None end) ;;
  read_entries (tobjarray_read elem_read) [0] evs.

(* Bes3TObjArrayFactory.make_awkward_content: ListOffsetArray(offsets, content) as nested lists *)
Fixpoint list_offset {A} (offsets : list Z) (content : list A) : list (list A) :=
  match offsets with
  | a :: ((b :: _) as offs') => firstn (Z.to_nat (b - a)) (skipn (Z.to_nat a) content) :: list_offset offs' content
  | _ => []
  end.
Fixpoint prefix_sums (acc : Z) (counts : list Z) : list Z :=
  match counts with [] => [] | c :: r => (acc + c) :: prefix_sums (acc + c) r end.

(* ================================================================ CGEM cluster collection *)
(* one TRecCgemCluster as the custom reader stores it: 5 ints, 2 doubles, [m_recPositionY], 2 doubles, int[2], int[2][2];
   doubles are 64-bit patterns *)
Record cgem := { cg_ints : list Z; cg_d1 : list Z; cg_posy : option Z; cg_d2 : list Z; cg_flag : list Z; cg_strip : list Z }.
Definition cgem_wf (c : cgem) : Prop :=
  length (cg_ints c) = 5%nat /\ Forall (prim_wf PI32) (cg_ints c) /\ length (cg_d1 c) = 2%nat /\ Forall (prim_wf PF64) (cg_d1 c) /\
  (match cg_posy c with Some y => prim_wf PF64 y | None => True end) /\
  length (cg_d2 c) = 2%nat /\ Forall (prim_wf PF64) (cg_d2 c) /\ length (cg_flag c) = 2%nat /\ Forall (prim_wf PI32) (cg_flag c) /\
  length (cg_strip c) = 4%nat /\ Forall (prim_wf PI32) (cg_strip c).
Definition cgem_body_enc (c : cgem) : bytes :=
  concat (map (prim_enc PI32) (cg_ints c)) ++ concat (map (prim_enc PF64) (cg_d1 c)) ++
  (match cg_posy c with Some y => prim_enc PF64 y | None => [] end) ++
  concat (map (prim_enc PF64) (cg_d2 c)) ++ concat (map (prim_enc PI32) (cg_flag c)) ++ concat (map (prim_enc PI32) (cg_strip c)).
(* stored object: object header, fNBytes, fVersion, TObject, members *)
Definition cgem_obj_enc (x : objhdr * (Z * tobject * cgem)) : bytes :=
  let '(h, (ver, o, c)) := x in
  let payload := be_enc 2 ver ++ tobject_enc o ++ cgem_body_enc c in
  objhdr_enc h ++ nbytes_enc (zlen payload) ++ payload.
(* class version of the file: 0 = with m_recPositionY, 1 = without; -1 = not yet known *)
Definition cgem_obj_read (mver : Z) (l : bytes) : option ((Z * cgem) * bytes) :=
  l <- skip_obj_header l ;;
  '(nb, l) <- read_nbytes l ;;                      (* auto fNBytes = bparser.read_fNBytes() *)
  l <- skip 2 l ;;                                  (* skip_fVersion *)
  (* switch ( fNBytes ) { case 96: case 98: m_version = 0; case 88: case 90: m_version = 1; default: throw }
     (+2 = the TObject carries kIsReferenced and is followed by a 2-byte pidf) *)
  mver <- (if mver =? -1
           then (if (nb =? 96) || (nb =? 98) then Some 0 else if (nb =? 88) || (nb =? 90) then Some 1 else None)
           else Some mver) ;;
  l <- skip_tobject l ;;
  '(ints, l) <- rep (prim_dec PI32) 5 l ;;
  '(d1, l) <- rep (prim_dec PF64) 2 l ;;
  '(posy, l) <- (if mver =? 0 then '(y, l) <- prim_dec PF64 l ;; Some (Some y, l) else Some (None, l)) ;;
  '(d2, l) <- rep (prim_dec PF64) 2 l ;;
  '(fl, l) <- rep (prim_dec PI32) 2 l ;;
  '(st, l) <- rep (prim_dec PI32) 4 l ;;
  Some ((mver, {| cg_ints := ints; cg_d1 := d1; cg_posy := posy; cg_d2 := d2; cg_flag := fl; cg_strip := st |}), l).
Definition rep_state {S A} (f : S -> bytes -> option ((S * A) * bytes)) : nat -> S -> bytes -> option ((S * list A) * bytes) :=
  fix go n st l := match n with
                   | O => Some ((st, []), l)
                   | S k => '((st, a), l) <- f st l ;; '((st, r), l) <- go k st l ;; Some ((st, a :: r), l)
                   end.
(* void Bes3CgemClusterColReader::read: state = (m_version, m_offsets) *)
Definition cgem_read (st : Z * list Z) (l : bytes) : option (((Z * list Z) * list cgem) * bytes) :=
  let '(mver, offsets) := st in
  l <- skip_obj_header l ;;
  '(fSize, l) <- read_colhdr l ;;
  let offsets' := offsets ++ [u32w (last offsets 0 + fSize)] in
  if zlen l <? fSize then None else
  '((mver, cs), l) <- rep_state cgem_obj_read (Z.to_nat fSize) mver l ;;
  Some (((mver, offsets'), cs), l).
Definition cgem_event_enc (ev : objhdr * colhdr * list (objhdr * (Z * tobject * cgem))) : bytes :=
  let '(h, ch, objs) := ev in objhdr_enc h ++ colhdr_enc ch (zlen objs) ++ concat (map cgem_obj_enc objs).
Definition cgem_branch (data : bytes) (byte_offsets : list Z) : option ((Z * list Z) * list cgem) :=
  evs <- (match byte_offsets with a :: _ => if a =? 0 then slices byte_offsets data else None | [] => None end) ;;
  read_entries cgem_read (-1, [0]) evs.

(* ================================================================ presentation (awkward side) *)
Inductive pv :=
| PNum (z : Z)
| PStr (s : bytes)
| PList (l : list pv)
| PRec (fields : list (bytes * pv)).

Fixpoint shape (dims : list nat) (flat : list pv) : pv :=
  match dims with
  | [] => match flat with x :: _ => x | [] => PList [] end
  | [_] => PList flat
  | _ :: ds => PList (map (shape ds) (SymMatrix.chunks (cnt ds) flat))
  end.
Definition KEY : bytes := [107; 101; 121].
Definition VAL : bytes := [118; 97; 108].
Fixpoint sview (t : sty) (v : val) {struct t} : pv :=
  match t, v with
  | SPrim _, VNum z => PNum z
  | SStr, VStr s => PStr s
  | SVec t', VList l => PList (map (sview t') l)
  | SMap k v', VList l => PList (map (fun e => match e with VPair a b => PRec [(KEY, sview k a); (VAL, sview v' b)] | _ => PList [] end) l)
  | _, _ => PList []
  end.
Definition pnum (e : val) : pv := match e with VNum z => PNum z | _ => PList [] end.
Definition pstr (e : val) : pv := match e with VStr s => PStr s | _ => PList [] end.
(* packed symmetric matrix -> n rows of n entries, entry (i,j) = packed[max(max+1)/2+min]  (C16) *)
Definition sym_view (n : nat) (p : list val) : pv :=
  PList (map (fun i => PList (map (fun j => pnum (nth (Z.to_nat (SymMatrix.pidx (Z.of_nat i) (Z.of_nat j))) p (VNum 0))) (seq 0 n))) (seq 0 n)).
Definition view_seq {T} (view : T -> val -> option pv) : list T -> list bytes -> list val -> list (bytes * pv) :=
  fix go ts names vs {struct ts} :=
    match ts, names, vs with
    | t :: ts', nm :: names', v :: vs' =>
        match view t v with Some p => (nm, p) :: go ts' names' vs' | None => go ts' names' vs' end
    | _, _, _ => []
    end.
(* None = the element contributes no field (TObject without kept data, a base without presentable members) *)
Fixpoint mview (t : mty) (v : val) : option pv :=
  match t, v with
  | MPrim [] _, VNum z => Some (PNum z)
  | MPrim dims _, VList l => Some (shape dims (map pnum l))
  | MStr [], VStr s => Some (PStr s)
  | MStr dims, VHdr _ _ (VList l) => Some (shape dims (map pstr l))
  | MStl [] t', VHdr _ _ body => Some (sview t' body)
  | MStl dims t', VHdr _ _ (VList l) => Some (shape dims (map (sview t') l))
  | MTArr _, VList l => Some (PList (map pnum l))
  | MTObj, _ => None
  | MSym n, VList l => Some (sym_view n l)
  | MBase _ names ms, VRec _ fields =>
      match view_seq mview ms names fields with [] => None | fs => Some (PRec fs) end
  | _, _ => Some (PList [])
  end.

(* ---- digi collections: process_digi_subbranch *)
Definition RAW : bytes := [84; 82; 97; 119; 68; 97; 116; 97].     (* "TRawData" *)
Fixpoint beq (a b : bytes) : bool :=
  match a, b with [], [] => true | x :: a', y :: b' => (x =? y) && beq a' b' | _, _ => false end.
(* fields[name] = value on a Python dict: an existing key keeps its position and gets the new value *)
Fixpoint dict_set (k : bytes) (v : pv) (d : list (bytes * pv)) : list (bytes * pv) :=
  match d with
  | [] => [(k, v)]
  | (k', v') :: r => if beq k k' then (k', v) :: r else (k', v') :: dict_set k v r
  end.
Definition flatten_fields (fields : list (bytes * pv)) : list (bytes * pv) :=
  fold_left (fun d kv => if beq (fst kv) RAW
                         then match snd kv with
                              | PRec sub => fold_left (fun d kv' => dict_set (fst kv') (snd kv') d) sub d
                              | _ => d
                              end
                         else dict_set (fst kv) (snd kv) d) fields [].
(* per object; None = the assert "TRawData not found" fires *)
Definition flatten_digi (obj : pv) : option pv :=
  match obj with
  | PRec [] => Some obj
  | PRec fields => if existsb (fun kv => beq (fst kv) RAW) fields then Some (PRec (flatten_fields fields)) else None
  | _ => Some obj
  end.
(* what "lossless" means: the raw-data members spliced in place of the base, everything else untouched *)
Definition splice (fields : list (bytes * pv)) : list (bytes * pv) :=
  flat_map (fun kv => if beq (fst kv) RAW then match snd kv with PRec sub => sub | _ => [] end else [kv]) fields.

(* ================================================================ factory selection *)
Inductive toptype := TTObjArray | TBASE | TPrimName | TVector | TMap | TStdString | TTString | TTArray | TOther.
Record req := {
  r_top : toptype;            (* get_top_type_name(fTypeName) category *)
  r_ftype : Z;                (* cur_streamer_info["fType"], -1 if absent *)
  r_is_array : bool;          (* fArrayDim > 0 or typename ends with [] *)
  r_registered : bool;        (* item_path (".TObjArray*" removed) is a key of bes3_branch2types *)
  r_cgem_path : bool;         (* item_path is the CGEM cluster collection *)
  r_has_tcgemcluster : bool;  (* the file has TCgemCluster streamer info *)
  r_target_item : bool;       (* item_path in Bes3SymMatrixArrayFactory.target_items *)
  r_in_bes3 : bool            (* some registered branch path occurs in item_path *)
}.
Inductive fac := FCgem | FTObjArray | FSym | FBes3Base | FCStyle | FPrimitive | FStlSeq | FStlMap | FStlString
               | FTArray | FTString | FTObject | FBaseObject | FAnyClass.
Definition prio (f : fac) : Z :=
  match f with FCgem => 55 | FTObjArray => 50 | FSym | FBes3Base => 40 | FCStyle => 20 | FAnyClass => 0 | _ => 10 end.
Definition top_eqb (a b : toptype) : bool :=
  match a, b with
  | TTObjArray, TTObjArray | TBASE, TBASE | TPrimName, TPrimName | TVector, TVector | TMap, TMap
  | TStdString, TStdString | TTString, TTString | TTArray, TTArray | TOther, TOther => true
  | _, _ => false
  end.
Definition prim_ftype (ft : Z) : bool := existsb (Z.eqb ft) [1; 2; 3; 4; 5; 8; 11; 12; 13; 14; 18].
Definition matches (f : fac) (r : req) : bool :=
  match f with
  | FCgem => r_cgem_path r && negb (r_has_tcgemcluster r)
  | FTObjArray => top_eqb (r_top r) TTObjArray && r_registered r
  | FSym => r_target_item r
  | FBes3Base => top_eqb (r_top r) TBASE && (r_ftype r =? 0) && r_in_bes3 r
  | FCStyle => r_is_array r
  | FPrimitive => prim_ftype (r_ftype r) || top_eqb (r_top r) TPrimName
  | FStlSeq => top_eqb (r_top r) TVector
  | FStlMap => top_eqb (r_top r) TMap
  | FStlString => top_eqb (r_top r) TStdString
  | FTArray => top_eqb (r_top r) TTArray
  | FTString => top_eqb (r_top r) TTString
  | FTObject => top_eqb (r_top r) TBASE && (r_ftype r =? 66)
  | FBaseObject => top_eqb (r_top r) TBASE && (r_ftype r =? 0)
  | FAnyClass => true
  end.
(* sorted(registered_factories, key=priority, reverse=True): one representative order; select_order_irrelevant shows
   that the unspecified order inside a priority class cannot matter *)
Definition fac_order : list fac :=
  [FCgem; FTObjArray; FSym; FBes3Base; FCStyle; FPrimitive; FStlSeq; FStlMap; FStlString; FTArray; FTString; FTObject;
   FBaseObject; FAnyClass].
Definition select_in (order : list fac) (r : req) : option fac := find (fun f => matches f r) order.
Definition select (r : req) : option fac := select_in fac_order r.

(* ================================================================ whole-branch presentation (what TBranch.array() shows) *)
Definition N_m_clusterID : bytes := [109; 95; 99; 108; 117; 115; 116; 101; 114; 73; 68].
Definition N_m_trkID : bytes := [109; 95; 116; 114; 107; 73; 68].
Definition N_m_layerID : bytes := [109; 95; 108; 97; 121; 101; 114; 73; 68].
Definition N_m_sheetID : bytes := [109; 95; 115; 104; 101; 101; 116; 73; 68].
Definition N_m_flag : bytes := [109; 95; 102; 108; 97; 103].
Definition N_m_energyDeposit : bytes := [109; 95; 101; 110; 101; 114; 103; 121; 68; 101; 112; 111; 115; 105; 116].
Definition N_m_recPhi : bytes := [109; 95; 114; 101; 99; 80; 104; 105].
Definition N_m_recPositionY : bytes := [109; 95; 114; 101; 99; 80; 111; 115; 105; 116; 105; 111; 110; 89].
Definition N_m_recV : bytes := [109; 95; 114; 101; 99; 86].
Definition N_m_recZ : bytes := [109; 95; 114; 101; 99; 90].
Definition N_m_clusterFlag : bytes := [109; 95; 99; 108; 117; 115; 116; 101; 114; 70; 108; 97; 103].
Definition N_m_stripID : bytes := [109; 95; 115; 116; 114; 105; 112; 73; 68].
Definition pnumz (z : Z) : pv := PNum z.
(* Bes3CgemClusterColReader::data() + Bes3CgemClusterColFactory.make_awkward_content: one record per cluster; the
   m_recPositionY column exists iff the reader's version flag ended as 0 *)
Definition cgem_view (mver : Z) (c : cgem) : pv :=
  let n i := pnumz (nth i (cg_ints c) 0) in
  PRec ([(N_m_clusterID, n 0%nat); (N_m_trkID, n 1%nat); (N_m_layerID, n 2%nat); (N_m_sheetID, n 3%nat); (N_m_flag, n 4%nat);
         (N_m_energyDeposit, pnumz (nth 0 (cg_d1 c) 0)); (N_m_recPhi, pnumz (nth 1 (cg_d1 c) 0))] ++
        (if mver =? 0 then [(N_m_recPositionY, pnumz (match cg_posy c with Some y => y | None => 0 end))] else []) ++
        [(N_m_recV, pnumz (nth 0 (cg_d2 c) 0)); (N_m_recZ, pnumz (nth 1 (cg_d2 c) 0));
         (N_m_clusterFlag, PList (map pnumz (cg_flag c)));
         (N_m_stripID, PList (map (fun r => PList (map pnumz r)) (SymMatrix.chunks 2 (cg_strip c))))]).

Definition obj_view (cls : mty) (v : val) : pv := match mview cls v with Some p => p | None => PRec [] end.
Fixpoint all_some {A} (l : list (option A)) : option (list A) :=
  match l with [] => Some [] | Some a :: r => r' <- all_some r ;; Some (a :: r') | None :: _ => None end.
(* registered TObjArray branch of class cls; digi = the branch lives under TDigiEvent (and is not m_fromMc) *)
Definition present_branch (digi : bool) (cls : mty) (data : bytes) (byte_offsets : list Z) : option (list Z * list (list pv)) :=
  '(offsets, content) <- read_branch (mdec cls) data byte_offsets ;;
  let views := map (obj_view cls) content in
  views <- (if digi then all_some (map flatten_digi views) else Some views) ;;
  Some (offsets, list_offset offsets views).
(* registered branch whose class has no streamer info in the file: EmptyReader consumes nothing per element *)
Definition present_empty_branch (data : bytes) (byte_offsets : list Z) : option (list Z * list (list pv)) :=
  '(offsets, content) <- read_branch (fun l => Some (PRec [], l)) data byte_offsets ;;
  Some (offsets, list_offset offsets content).
Definition present_cgem_branch (data : bytes) (byte_offsets : list Z) : option (list Z * list (list pv)) :=
  '((mver, offsets), content) <- cgem_branch data byte_offsets ;;
  Some (offsets, list_offset offsets (map (cgem_view mver) content)).
(* top-level multimap<int,int> navigator branches: one headered map per entry *)
Definition present_map_branch (k v : sty) (data : bytes) (byte_offsets : list Z) : option (list pv) :=
  evs <- (match byte_offsets with a :: _ => if a =? 0 then slices byte_offsets data else None | [] => None end) ;;
  all_some (map (fun ev => x <- all_consumed (mdec (MStl [] (SMap k v)) ev) ;; mview (MStl [] (SMap k v)) x) evs).

(* ---- scaffold element reader of the native harness: captures each element's byte range [fNBytes word + fNBytes bytes] *)
Definition blob_read (l : bytes) : option (bytes * bytes) :=
  '(nb, l') <- read_nbytes l ;;
  '(body, rest) <- take (Z.to_nat nb) l' ;;
  '(word, _) <- take 4 l ;;
  Some (word ++ body, rest).
Definition blob_branch (data : bytes) (byte_offsets : list Z) : option (list Z * list bytes) := read_branch blob_read data byte_offsets.
